#!/usr/bin/env python3
"""Design note (not part of the checking machinery).

Reproduces, against the real code in /repo/src, every witness listed in DESIGN.md section 6.
Run:  PYTHONPATH=/repo/src /venv/bin/python design_notes/findings_repro.py
Each line prints the finding id, the observed behaviour and whether it still reproduces.
These witnesses become the first entries of the replay corpus when the harness is built.
"""
import sys, time
import sansldap
from sansldap import *
from sansldap import schema as S
from sansldap.asn1 import ASN1Reader, ASN1Writer, ASN1Tag, TagClass
from sansldap._filter import FilterSyntaxError


def outcome(f):
    try:
        return ("ok", f())
    except BaseException as e:  # noqa
        return (type(e).__name__, str(e)[:70])


def timed(f):
    t = time.perf_counter()
    outcome(f)
    return time.perf_counter() - t


def line(fid, reproduces, detail):
    print(f"{fid:8s} {'REPRODUCES' if reproduces else 'not reproduced'}  {detail}")


# F-C07a: negative integers with >= 2 trailing zero octets cannot be read back
w = ASN1Writer(); w.write_integer(-8388608); b = bytes(w.get_data())
o = outcome(lambda: ASN1Reader(b).read_integer())
line("F-C07a", o != ("ok", -8388608), f"write_integer(-8388608)={b.hex()} read -> {o}")

# F-C07b: UNIVERSAL tag numbers outside the enum are written but not read
w = ASN1Writer(); w.write_octet_string(b"x", tag=ASN1Tag(TagClass.UNIVERSAL, 40, False)); b = bytes(w.get_data())
o = outcome(lambda: ASN1Reader(b).peek_header())
line("F-C07b", o[0] != "ok", f"tag (UNIVERSAL,40) bytes={b.hex()} peek_header -> {o[0]}")

# F-C05a: zero-length INTEGER -> IndexError, session not closed
s = LDAPServer(); o = outcome(lambda: s.receive(bytes.fromhex("300402004200")))
line("F-C05a", o[0] not in ("ok", "ProtocolError"), f"receive(30 04 02 00 42 00) -> {o[0]}, state={s.state.name}")

# F-C05b: deeply nested NOT filters -> RecursionError
def tlv(tag, content):
    n = len(content)
    if n < 128:
        return bytes([tag, n]) + content
    lb = n.to_bytes((n.bit_length() + 7) // 8, "big")
    return bytes([tag, 0x80 | len(lb)]) + lb + content
f = bytes.fromhex("870161")
for _ in range(2000):
    f = tlv(0xA2, f)
sr = tlv(4, b"") + tlv(10, b"\0") + tlv(10, b"\0") + tlv(2, b"\0") + tlv(2, b"\0") + tlv(1, b"\0") + f + tlv(0x30, b"")
msg = tlv(0x30, tlv(2, b"\1") + tlv(0x63, sr))
s = LDAPServer(); o = outcome(lambda: s.receive(msg))
line("F-C05b", o[0] not in ("ok", "ProtocolError"), f"2000 nested NOT ({len(msg)} bytes) -> {o[0]}, state={s.state.name}")

# F-C06: complete envelope, interior overruns -> silently dropped
s = LDAPServer(); o = outcome(lambda: s.receive(bytes.fromhex("30050201016005")))
line("F-C06", o == ("ok", []) and not s._incoming_buffer, f"receive(30 05 02 01 01 60 05) -> {o}, residue={bytes(s._incoming_buffer).hex()!r}, state={s.state.name}")
c = LDAPClient()
m = UnbindRequest(message_id=1, controls=[LDAPControl("1.2.840.113556.1.4.319", False, None)])
s = LDAPServer(); o = outcome(lambda: s.receive(m.pack(c._packing_options)))
line("F-C06'", o == ("ok", []), f"paged-results control without value -> {o}, state={s.state.name}")

# F-C03: UnbindRequest is emitted in constructed form
c = LDAPClient(); c.unbind(); b = c.data_to_send()
line("F-C03", b.endswith(b"\x62\x00"), f"unbind() bytes={b.hex()} (RFC 4511: [APPLICATION 2] NULL = 42 00)")

# F-C08a: bind on a closed client re-opens it
c = LDAPClient(); c.unbind(); c.data_to_send(); o = outcome(lambda: c.bind_simple("a", "b"))
line("F-C08a", c.state != SessionState.CLOSED, f"unbind(); bind_simple() -> {o}, state={c.state.name}, bytes={len(c.data_to_send())}")

# F-C08b / F-C10a: rejected server responses change state and stay queued
s = LDAPServer(); s.unbind(); s.data_to_send(); o = outcome(lambda: s.bind_response(1))
line("F-C08b", s.state != SessionState.CLOSED, f"closed server bind_response(1) -> {o[0]}, state={s.state.name}")
s = LDAPServer(); o = outcome(lambda: s.extended_response(5)); q = s.data_to_send()
line("F-C10a", o[0] == "LDAPError" and len(q) > 0, f"extended_response(5) on fresh server -> {o[0]}, queued={len(q)} bytes, state={s.state.name}")

# F-C10b: search_result_done for a non-search request
c, s = LDAPClient(), LDAPServer(); i = c.extended_request("1.2.3"); s.receive(c.data_to_send())
o = outcome(lambda: s.search_result_done(i))
line("F-C10b", o[0] == "KeyError", f"search_result_done(ext id) -> {o[0]}, queued={len(s.data_to_send())} bytes")

# F-C14: dn flag is case sensitive
o = outcome(lambda: LDAPFilter.from_string("(cn:DN:=x)"))
line("F-C14", o[0] == "ok" and o[1].dn_attributes is False, f"(cn:DN:=x) -> {o[1]}")

# F-C15a/b/c
o = outcome(lambda: LDAPFilter.from_string("(cn\n=x)"))
line("F-C15a", o[0] == "ok", f"'(cn\\n=x)' -> {o}")
try:
    LDAPFilter.from_string("(&(=")
    line("F-C15b", False, "accepted?")
except FilterSyntaxError as e:
    line("F-C15b", e.length < 0, f"'(&(=' -> offset={e.offset} length={e.length}")
o = outcome(lambda: LDAPFilter.from_string("(!" * 5000 + "(a=b)" + ")" * 5000))
line("F-C15c", o[0] == "RecursionError", f"5000-deep NOT text -> {o[0]}")

# F-C16
d = S.ObjectClassDescription("1.2", description="a|b"); o = outcome(lambda: S.ObjectClassDescription.from_string(str(d)))
line("F-C16", o[0] != "ok" or o[1] != d, f"{str(d)!r} -> {o[0]}")

# F-C17
o = outcome(lambda: S.ObjectClassDescription.from_string("( 1.2 X-FOO  'bar' )"))
line("F-C17", o[0] != "ok" or o[1].extensions != {"FOO": ["bar"]}, f"( 1.2 X-FOO  'bar' ) -> {o}")

# F-C18a/b/c: time roughly doubles per added unit
def ratio(make, sizes):
    ts = [timed(lambda n=n: make(n)) for n in sizes]
    return ts, [round(b / a, 1) if a > 1e-4 else None for a, b in zip(ts, ts[1:])]
ts, r = ratio(lambda n: S.ObjectClassDescription.from_string("( 1.2 DESC '" + "a" * n), [16, 18, 20])
line("F-C18a", ts[-1] > 4 * ts[0], f"unterminated DESC 'a'*n  n=16,18,20 -> {[round(t, 3) for t in ts]}")
ts, r = ratio(lambda n: LDAPFilter.from_string("(" + ".".join(["1"] * n) + "!=x)"), [16, 18, 20])
line("F-C18b", ts[-1] > 4 * ts[0], f"1.1.1...(n arcs)!  n=16,18,20 -> {[round(t, 3) for t in ts]}")
ts, r = ratio(lambda k: S.ObjectClassDescription.from_string("( 1.2" + " X-a (  )" * k), [8, 10, 12])
line("F-C18c", ts[-1] > 4 * ts[0], f"' X-a (  )'*k  k=8,10,12 -> {[round(t, 3) for t in ts]}")
