/-! Design note (not part of the checking machinery): the unfolding equation of the star
    case of the list-of-successes regex semantics, on which every loop rule of the C18
    analyser's soundness proof will rest (strong induction on the input length). -/

/-! Spike: fuel independence and unfolding equation for the star case of `runs`. -/
namespace Spike
theorem flatMap_congr' {α β} (l : List α) (f g : α → List β) (h : ∀ x ∈ l, f x = g x) :
    l.flatMap f = l.flatMap g := by
  induction l with
  | nil => rfl
  | cons a l ih =>
    simp only [List.flatMap_cons]
    rw [h a (by simp), ih (fun x hx => h x (by simp [hx]))]

def starRuns (body : List Nat → List (List Nat)) : Nat → List Nat → List (List Nat)
  | 0, s => [s]
  | n+1, s => ((body s).filter (fun t => t.length < s.length)).flatMap (starRuns body n) ++ [s]

theorem filter_lt_nil (l : List (List Nat)) (s : List Nat) (h : s.length = 0) :
    l.filter (fun t => decide (t.length < s.length)) = [] := by
  apply List.filter_eq_nil_iff.mpr; intro t _; simp [h]

theorem starRuns_fuel (body : List Nat → List (List Nat)) :
    ∀ n m s, s.length ≤ n → s.length ≤ m → starRuns body n s = starRuns body m s := by
  intro n
  induction n with
  | zero =>
    intro m s hn _
    have h0 : s.length = 0 := by omega
    cases m with
    | zero => rfl
    | succ m => simp [starRuns, filter_lt_nil _ s h0]
  | succ n ih =>
    intro m s hn hm
    cases m with
    | zero =>
      have h0 : s.length = 0 := by omega
      simp [starRuns, filter_lt_nil _ s h0]
    | succ m =>
      simp only [starRuns]
      congr 1
      apply flatMap_congr'
      intro t ht
      have hlt : t.length < s.length := by simpa using (List.mem_filter.mp ht).2
      exact ih m t (by omega) (by omega)

/-- the unfolding equation used by every loop rule of the analyser -/
theorem starRuns_unfold (body : List Nat → List (List Nat)) (s : List Nat) :
    starRuns body s.length s =
      ((body s).filter (fun t => t.length < s.length)).flatMap (fun t => starRuns body t.length t) ++ [s] := by
  rw [starRuns_fuel body s.length (s.length + 1) s (by omega) (by omega)]
  simp only [starRuns]
  congr 1
  apply flatMap_congr'
  intro t ht
  have hlt : t.length < s.length := by simpa using (List.mem_filter.mp ht).2
  exact starRuns_fuel body _ _ t (by omega) (by omega)
end Spike
#print axioms Spike.starRuns_unfold
