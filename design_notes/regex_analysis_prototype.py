#!/usr/bin/env python3
"""Design note (not part of the checking machinery).

Python prototype of the rule set of the certified regex analyser described in DESIGN.md (C18).
It was written to find out, before committing to the design, which rules are needed to certify the
library's repaired patterns and to refuse the defective ones.  The Lean analyser
(`Verif/Model/ReCost.lean`) will implement the same rules; its soundness theorem is what
makes a certificate mean something -- this file proves nothing.

Cost model: `work` counts one unit per class test, per epsilon, per alternation node and per loop
entry; concatenation itself is free (the analysis treats it as re-association).  The single
"cost of losing" bound `lw` used here is coarser than the three bounds (hc / sw / pw) of the
design, which only changes the constants printed, not which patterns are certified or refused.
`/tmp`-style brute-force comparison of the claimed bounds with real search-tree sizes on all short
strings over a 3-letter alphabet was used to debug the rules (see DESIGN.md, C18).

Run:  PYTHONPATH=/repo/src /venv/bin/python design_notes/regex_analysis_prototype.py
"""

import re, sys
import re._parser as P
from re._constants import MAXREPEAT
END = 0x110000
FULL = [(0, 0x10FFFF)]
def norm(iv):
    iv = sorted(iv); out = []
    for a, b in iv:
        if out and a <= out[-1][1] + 1: out[-1] = (out[-1][0], max(out[-1][1], b))
        else: out.append((a, b))
    return out
def union(x, y): return norm(list(x) + list(y))
def inter(x, y):
    out = []
    for a, b in x:
        for c, d in y:
            lo, hi = max(a, c), min(b, d)
            if lo <= hi: out.append((lo, hi))
    return norm(out)
def compl(x):
    out = []; prev = 0
    for a, b in norm(x):
        if a > prev: out.append((prev, a - 1))
        prev = b + 1
    if prev <= 0x10FFFF: out.append((prev, 0x10FFFF))
    return out
def disjoint(x, y): return not inter(x, y)

# ---- Re AST: ('cls', iv) ('eps',) ('cat', a, b) ('alt', a, b) ('star', a) ('plus', a)
def seq(items):
    if not items: return ('eps',)
    r = items[-1]
    for it in reversed(items[:-1]): r = ('cat', it, r)
    return r
def tr_in(av, flags):
    neg = False; iv = []
    for op, a in av:
        o = str(op)
        if o == 'NEGATE': neg = True
        elif o == 'LITERAL': iv.append((a, a))
        elif o == 'RANGE': iv.append(a)
        else: raise ValueError('IN.' + o)
    iv = norm(iv)
    return compl(iv) if neg else iv
def tr(sp, flags, top=False):
    items = []
    lst = list(sp)
    for i, (op, av) in enumerate(lst):
        o = str(op)
        if o == 'LITERAL': items.append(('cls', [(av, av)]))
        elif o == 'NOT_LITERAL': items.append(('cls', compl([(av, av)])))
        elif o == 'ANY': items.append(('cls', compl([(10, 10)])))
        elif o == 'IN': items.append(('cls', tr_in(av, flags)))
        elif o == 'SUBPATTERN': items.append(tr(av[3], flags))
        elif o == 'BRANCH':
            alts = [tr(b, flags) for b in av[1]]
            r = alts[-1]
            for a in reversed(alts[:-1]): r = ('alt', a, r)
            items.append(r)
        elif o == 'MAX_REPEAT':
            lo, hi, body = av; b = tr(body, flags)
            if (lo, hi) == (0, MAXREPEAT): items.append(('star', b))
            elif (lo, hi) == (1, MAXREPEAT): items.append(('plus', b))
            elif hi != MAXREPEAT and hi <= 4:
                opt = ('eps',)
                for _ in range(hi - lo): opt = ('alt', ('cat', b, opt), ('eps',))
                items.append(seq([b] * lo + [opt]))
            else: raise ValueError('repeat %r' % ((lo, hi),))
        elif o == 'AT':
            a = str(av)
            if a == 'AT_BEGINNING':
                if not (top and i == 0): raise ValueError('^ not at start')
            elif a == 'AT_END':
                if not (top and i == len(lst) - 1): raise ValueError('$ not at end')
                items.append(('alt', ('cat', ('cls', [(10, 10)]), ('cls', [(END, END)])), ('cls', [(END, END)])))
            else: raise ValueError(a)
        else: raise ValueError(o)
    return seq(items)

# ---- polynomials c*(n+1)^d as (c,d); upper-bound arithmetic
def padd(p, q): return (p[0] + q[0], max(p[1], q[1]))
def pmul(p, q): return (p[0] * q[0], p[1] + q[1])
ONE = (1, 0)
def size(r): return 1 + sum(size(x) for x in r[1:] if isinstance(x, tuple))
ZERO = (0, 0)
def pmax(p, q): return (max(p[0], q[0]), max(p[1], q[1]))
class I:
    def __init__(s, **k): s.__dict__.update(k)
    def __repr__(s): return 'I(n=%s single=%s mult=%s P=%s W=%s lw=%s starts=%s)' % (s.n, s.single, s.mult, s.P, s.W, s.lw, s.starts and (s.starts[0][:1], s.starts[1][:2]))
PRE = 3
def trunc(ps):
    out = []
    for p in ps:
        p = p[:PRE]
        if p not in out: out.append(p)
    return out
EPS = I(n=True, first=[], starts=None, pre=[[]], mult=ONE, P=ONE, single=True, W=ONE, hc=1, lw=ONE, mn=0, mx=0, tail=[], alph=[])
def look(L):
    """zero-width marker for 'next char can start L' (only when L is not nullable)."""
    if L.n: return EPS
    return I(n=False, first=L.first, starts=L.starts, pre=L.pre, mult=ONE, P=ONE, single=True, W=ONE, hc=1, lw=ONE, mn=0, mx=0, tail=[], alph=[])
def excl_starts(sa, sb):
    if sa is None or sb is None: return False
    (c1, d1), (c2, d2) = sa, sb
    if c1 == c2: return disjoint(d1, d2)
    if not c1: return disjoint(d1, union(c2, d2))
    if not c2: return disjoint(d2, union(c1, d1))
    return False
def exclusive(a, b):
    if a.n or b.n: return False
    if disjoint(a.first, b.first): return True
    if all(any(disjoint(x, y) for x, y in zip(p, q)) for p in a.pre for q in b.pre): return True
    return excl_starts(a.starts, b.starts)
def join_starts(sa, sb):
    if sa is None or sb is None: return None
    (c1, d1), (c2, d2) = sa, sb
    if c1 == c2: return (c1, union(d1, d2))
    if not c1 and disjoint(d1, c2): return (c2, union(d1, d2))
    if not c2 and disjoint(d2, c1): return (c1, union(d1, d2))
    return None
def ladd(a, b): return None if a is None or b is None else a + b
TOL = [0]
def A(r, K):
    """info of the sequence r·K given info K of the continuation"""
    k = r[0]
    if k == 'eps': return K
    if k == 'cls':
        c = r[1]
        return I(n=False, first=c, starts=([], c), pre=trunc([[c] + p for p in K.pre]), mult=K.mult, P=K.P, single=K.single,
                 W=padd(ONE, K.W), hc=1, lw=padd(ONE, K.lw), mn=1 + K.mn, mx=ladd(1, K.mx), tail=K.tail, alph=union(c, K.alph))
    if k == 'cat':
        kb = A(r[2], K)
        return None if kb is None else A(r[1], kb)
    if k == 'alt':
        a, b = A(r[1], K), A(r[2], K)
        if a is None or b is None: return None
        i = I(n=a.n or b.n, first=union(a.first, b.first), starts=join_starts(a.starts, b.starts), pre=trunc(a.pre + b.pre),
              hc=1 + a.hc + b.hc, mn=min(a.mn, b.mn), mx=None if None in (a.mx, b.mx) else max(a.mx, b.mx), alph=union(a.alph, b.alph))
        i.lw = padd(ONE, padd(a.lw, b.lw))
        if exclusive(a, b):
            i.mult = pmax(a.mult, b.mult); i.P = pmax(a.P, b.P); i.single = a.single and b.single
            i.W = padd(ONE, padd(pmax(a.W, b.W), padd(a.lw, b.lw))); i.tail = union(a.tail, b.tail); i.rule = 'alt-excl'
        elif (a.mx is not None and a.mx < b.mn) or (b.mx is not None and b.mx < a.mn):
            i.mult = pmax(a.mult, b.mult); i.P = padd(a.P, b.P); i.single = False
            i.W = padd(ONE, padd(a.W, b.W)); i.tail = i.alph; i.rule = 'alt-len'
        else:
            i.mult = padd(a.mult, b.mult); i.P = padd(a.P, b.P); i.single = False
            i.W = padd(ONE, padd(a.W, b.W)); i.tail = i.alph; i.rule = 'alt-gen'
        return i
    if k in ('star', 'plus'):
        xr = r[1]
        TOL[0] += 1
        x0 = A(xr, EPS)                       # body alone: shape only, never refuses
        TOL[0] -= 1
        if x0 is None or x0.n: return None
        # shape of L = star x · K
        Lfirst = union(x0.first, K.first); Ln = K.n
        lst = join_starts(x0.starts, K.starts) if not K.n else None
        if xr[0] == 'cls' and not K.n and K.starts is not None:
            c = xr[1]; (kc, kd) = K.starts
            if (not kc and disjoint(kd, c)) or kc == c: lst = (c, kd)
        Lshape = I(n=Ln, first=Lfirst, starts=lst, pre=trunc(x0.pre + K.pre))
        x = A(xr, look(Lshape))               # body followed by "something that can start L"
        if x is None: return None
        if not x.single and not TOL[0]: return None          # loop body not deterministic under lookahead: refuse
        n1 = (1, 1)
        i = I(n=Ln, first=Lfirst, starts=Lshape.starts, pre=Lshape.pre, hc=1 + x0.hc + K.hc, mn=K.mn, mx=None, alph=union(x0.alph, K.alph))
        i.lw = padd(pmul(n1, padd(x.W, (x.hc + K.hc, 0))), K.lw)
        if exclusive(x0, K):
            i.mult = K.mult; i.P = K.P; i.single = K.single; i.tail = K.tail
            i.W = padd(padd(ONE, K.W), pmul(n1, padd(padd(ONE, x.W), padd(K.lw, pmul(x.P, (K.hc, 0)))))); i.rule = 'loop-excl'
        else:
            fixedK = K.mx is not None and K.mn == K.mx and K.single
            i.mult = K.mult if fixedK else pmul(n1, K.mult); i.P = pmul(n1, K.P); i.single = False; i.tail = i.alph
            i.W = padd(ONE, pmul(n1, padd(padd(ONE, x.W), K.W))); i.rule = 'loop-gen'
        if k == 'plus':
            j = A(xr, i)
            if j is not None and xr[0] == 'cls' and i.starts is not None and i.starts[0] == xr[1]: j.starts = i.starts
            return j
        return i
    raise ValueError(k)
def analyse_top(t): return A(t, EPS)

def analyse_top(t): return A(t, EPS)

if __name__ == '__main__':
    src = open('/repo/src/sansldap/schema.py').read()
    def variant(dfix, qfix):
        s = src
        if dfix: s = s.replace("""QUTF8 = r"[^'\\\\]+\"""", """QUTF8 = r"[^'\\\\]\"""")
        if qfix: s = s.replace('QDSTRINGS = f"({QDSTRING}|{LPAREN}{WSP}{QDSTRINGLIST}{WSP}{RPAREN})"',
                               'QDSTRINGS = f"({QDSTRING}|{LPAREN}{WSP}({QDSTRING}({SP}{QDSTRING})*{WSP})?{RPAREN})"')
        g = {}; exec(compile(s, 'schema_variant', 'exec'), g); return g
    import sansldap._filter as F
    pats = []
    for tag, g in (('unchanged', variant(0, 0)), ('only DSTRING repaired', variant(1, 0)), ('only QDSTRINGS repaired', variant(0, 1)), ('both repaired', variant(1, 1))):
        for name in ['OBJECT_CLASS_DESCRIPTION', 'ATTRIBUTE_TYPE_DESCRIPTION', 'DIT_CONTENT_RULE_DESCRIPTION']:
            pats.append((tag + ': ' + name, g[name].pattern, g[name].flags))
    g = variant(0, 0)
    pats.append(('unchanged: NOIDLEN_MATCH', g['NOIDLEN_MATCH'].pattern, g['NOIDLEN_MATCH'].flags))
    pats.append(('unchanged: filter attribute pattern', F._ATTRIBUTE_PATTERN.pattern, F._ATTRIBUTE_PATTERN.flags))
    pats.append(('repaired: filter attribute pattern', r"^(?:[a-zA-Z][a-zA-Z0-9\-]*|(?:0|[1-9][0-9]*)(?:\.(?:0|[1-9][0-9]*))*)(?:;[a-zA-Z0-9\-]+)*$", 0))
    pats.append(('unchanged: hex', F._HEX_PATTERN.pattern, 0))
    pats.append(('unchanged: escape', F._LDAP_ESCAPE_PATTERN.pattern.decode('latin-1'), 0))
    pats.append(('unchanged: QS|QQ', g['QS'] + '|' + g['QQ'], 0))
    for p in [r'(a|a)*b', r'(a*)*b', r'(a|aa)*b', r'(a+)+b', r'(x+x+)+y', r'a*a*b', r'(.*),(.*)', r'([^x]|xy)*z', r'(ab|a)(bc|c)*d']:
        pats.append(('sanity: ' + p, p, 0))
    for name, p, f in pats:
        t = tr(P.parse(p, f), f, top=True)
        i = analyse_top(t)
        print('%-58s size %4d -> %s' % (name, size(t), 'REFUSED' if i is None else 'certified, work <= %d*(n+1)^%d' % i.W))
