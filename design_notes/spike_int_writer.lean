/-! Design note (not part of the checking machinery): feasibility spikes written while
    designing C07 and C18. Both files check with plain `lean <file>` in ~1-2 s using core
    Lean only (axioms: propext, Classical.choice, Quot.sound). They calibrate proof effort:
    byte lists as `List Nat` with an explicit `IsBytes` invariant, `omega` after
    `generalize 256 ^ f = p`, fuel-indexed loops with a fuel-independence lemma. -/

/-! Spike: faithful model of asn1._pack_asn1_integer (little-endian phase) and its value. -/
namespace Spike

def emit (neg : Bool) (limit : Nat) : Nat → Nat → List Nat
  | 0, v => [if neg then (255 - v) % 256 else v % 256]
  | f+1, v =>
    if v > limit then (if neg then 255 - v % 256 else v % 256) :: emit neg limit f (v / 256)
    else [if neg then (255 - v) % 256 else v % 256]

def addOne : List Nat → List Nat
  | [] => []
  | b :: bs => if b < 255 then (b + 1) :: bs else 0 :: addOne bs

def leVal : List Nat → Nat
  | [] => 0
  | b :: bs => b + 256 * leVal bs

def IsBytes (l : List Nat) : Prop := ∀ b ∈ l, b < 256

def allFF : List Nat → Bool
  | [] => true
  | b :: bs => b == 255 && allFF bs

theorem leVal_addOne (l : List Nat) (hb : IsBytes l) (h : allFF l = false) :
    leVal (addOne l) = leVal l + 1 := by
  induction l with
  | nil => simp [allFF] at h
  | cons b bs ih =>
    have hb0 : b < 256 := hb b (by simp)
    have hbs : IsBytes bs := fun x hx => hb x (by simp [hx])
    simp only [addOne]
    by_cases hlt : b < 255
    · simp [hlt, leVal]; omega
    · have : b = 255 := by omega
      subst this
      simp [allFF] at h
      simp [leVal, ih hbs h]; omega

/-- positive case: the emitted little-endian digits denote v, for any sufficient fuel -/
theorem leVal_emit_pos : ∀ (f v : Nat), v < 128 * 256 ^ f → leVal (emit false 127 f v) = v := by
  intro f; induction f with
  | zero => intro v h; simp [emit, leVal] at *; omega
  | succ f ih =>
    intro v h
    have hp : 256 ^ (f + 1) = 256 ^ f * 256 := Nat.pow_succ ..
    rw [hp] at h
    simp only [emit]
    by_cases hv : v > 127
    · have hlt : v / 256 < 128 * 256 ^ f := by
        generalize 256 ^ f = p at *; omega
      simp [hv, leVal, ih _ hlt]; omega
    · simp [hv, leVal]; omega

/-- negative case, before the add-one pass: digits are the complement of the digits of m,
    so their value is 256^len - 1 - m -/
theorem leVal_emit_neg : ∀ (f m : Nat), m ≤ 128 * 256 ^ f →
    leVal (emit true 128 f m) + m + 1 = 256 ^ (emit true 128 f m).length := by
  intro f; induction f with
  | zero => intro m h; simp [emit, leVal] at *; omega
  | succ f ih =>
    intro m h
    have hp : 256 ^ (f + 1) = 256 ^ f * 256 := Nat.pow_succ ..
    rw [hp] at h
    simp only [emit]
    by_cases hv : m > 128
    · have hle : m / 256 ≤ 128 * 256 ^ f := by
        generalize 256 ^ f = p at *; omega
      have := ih _ hle
      simp only [hv, ↓reduceIte, leVal, List.length_cons, Nat.pow_succ]
      generalize leVal (emit true 128 f (m / 256)) = L at *
      generalize 256 ^ (emit true 128 f (m / 256)).length = P at *
      omega
    · simp [hv, leVal]; omega
end Spike
#print axioms Spike.leVal_emit_neg
