#!/usr/bin/env python3
"""py2lean_schema: syntax-directed translation of the text helpers and of `__str__` / `from_string` of
sansldap/schema.py to Lean 4.

Usage:  /venv/bin/python harness/py2lean_schema.py [--check] [--out FILE] [--src FILE]
        env VERIF_REPO (default /repo): the source read is $VERIF_REPO/src/sansldap/schema.py

The source is only PARSED (module `ast`); the library is neither imported nor executed.
Output: lean/Verif/Generated/SchemaGen.lean (namespace Verif.SchemaGen), rewritten on every run.
Exit codes (as harness/py2lean.py): 0 every requested function translated; 3 at least one function is
outside the subset (a stub `def <name>_untranslated : String := "<reason>"` is emitted for it and for every
function that calls it); 1 with --check when the file on disk differs; 2 a crash (Python traceback).

Subset, representation and trusted boundary: design_notes/py2lean_schema.md.  In short
  * `str` = list of code points, `None` = Unit, Optional = Option, list = List, dict = association list in
    insertion order, int = Nat, enum member = index in its class, dataclass = the model's structure;
  * a function whose body contains no operation that can raise (and no `while`) becomes a pure definition, any
    other one a `do` block in `Except Verif.Err` (A-normal form, Python's evaluation order);
  * every `if` statement without `return`/`raise` becomes `let (assigned vars) ← (if … then … else …)`; an `if`
    with a branch that always leaves puts the rest of the block into the other branch;
  * tests on `Optional` values become `match` (type narrowing);
  * `while` ↦ a local function recursive on fuel, `for k, v in d.items()` / `for v in l` ↦ recursion on the list;
  * a `TypeVar` constrained to (str, None) ↦ one copy of the function per constraint;
  * `re.sub` with the two known (pattern, callback) pairs, `PATTERN.match`, `re.match(NOIDLEN_MATCH, …)` and
    `m.group(name)` ↦ NAMED functions / fields of the hand model (tables RESUB, PATTERNS below).
Nothing else is keyed by function name: the output is a function of the AST and of those tables.
"""
from __future__ import annotations

import ast
import os
import sys

HERE = os.path.dirname(os.path.abspath(__file__))
DEFAULT_OUT = os.path.join(HERE, "..", "lean", "Verif", "Generated", "SchemaGen.lean")

# entry points: module functions by name, methods as (class, method)
TARGETS = [
    "_encode_oids", "_encode_qdstring", "_parse_oids", "_parse_qdstring", "_parse_extensions",
    ("ObjectClassDescription", "__str__"), ("ObjectClassDescription", "from_string"),
    ("AttributeTypeDescription", "__str__"), ("AttributeTypeDescription", "from_string"),
    ("DITContentRuleDescription", "__str__"), ("DITContentRuleDescription", "from_string"),
]

# ---------------------------------------------------------------------------------------------------------
# TRUSTED TABLES (the boundary between translated Python and named model functions)
# ---------------------------------------------------------------------------------------------------------

# re.sub(<pattern text>, <callback>, s): (pattern, parameter name, unparsed return expression) -> runtime name
RESUB = {
    ("[\\\\']", "matchobj", "f'\\\\{ord(matchobj.group(0)):02x}'"): "reSubEscapeQd",
    ("\\\\5[Cc]|\\\\27", "matchobj", "base64.b16decode(matchobj.group(0)[1:].upper()).decode()"): "reSubUnescapeQd",
}

# compiled patterns: module constant -> (scanner, Lean type of the match object, {group: (accessor, kind)})
#   kind 'opt'  : Optional[str]           (Option Str)
#        'req'  : str, the group takes part in every match (groupReq of an Option field)
#        'flag' : Optional[str] whose text is non-empty whenever present; only its truth value is kept (Bool)
#        'str'  : str (component of a pair)
PATTERNS = {
    "OBJECT_CLASS_DESCRIPTION": ("Schema.matchOC", "Schema.OCGroups", {
        "oid": ("oid", "req"), "name": ("name", "opt"), "desc": ("desc", "opt"), "obsolete": ("obsolete", "flag"),
        "sup": ("sup", "opt"), "kind": ("kind", "opt"), "must": ("must", "opt"), "may": ("may", "opt"),
        "extensions": ("extensions", "req")}),
    "ATTRIBUTE_TYPE_DESCRIPTION": ("Schema.matchAT", "Schema.ATGroups", {
        "oid": ("oid", "req"), "name": ("name", "opt"), "desc": ("desc", "opt"), "obsolete": ("obsolete", "flag"),
        "sup": ("sup", "opt"), "equality": ("equality", "opt"), "ordering": ("ordering", "opt"),
        "substr": ("substr", "opt"), "syntax": ("syn", "opt"), "single_value": ("singleValue", "flag"),
        "collective": ("collective", "flag"), "no_user_modification": ("noUserMod", "flag"),
        "usage": ("usage", "opt"), "extensions": ("extensions", "req")}),
    "DIT_CONTENT_RULE_DESCRIPTION": ("Schema.matchDCR", "Schema.DCRGroups", {
        "oid": ("oid", "req"), "name": ("name", "opt"), "desc": ("desc", "opt"), "obsolete": ("obsolete", "flag"),
        "aux": ("aux", "opt"), "must": ("must", "opt"), "may": ("may", "opt"), "not": ("never", "opt"),
        "extensions": ("extensions", "req")}),
    "NOIDLEN_MATCH": ("Schema.noidlenMatch", "(Str × Str)", {"value": ("1", "str"), "len": ("2", "str")}),
}

# dataclasses -> the model's structures: class -> (Lean structure, {python field: model field})
DATACLASSES = {
    "ObjectClassDescription": ("Schema.ObjectClass", {
        "oid": "oid", "names": "names", "description": "desc", "obsolete": "obsolete", "super_types": "sup",
        "kind": "kind", "must": "must", "may": "may", "extensions": "exts"}),
    "AttributeTypeDescription": ("Schema.AttributeType", {
        "oid": "oid", "names": "names", "description": "desc", "obsolete": "obsolete", "super_type": "sup",
        "equality": "equality", "ordering": "ordering", "substrings": "substr", "syntax": "syn",
        "syntax_length": "synLen", "single_value": "singleValue", "collective": "collective",
        "no_user_modification": "noUserMod", "usage": "usage", "extensions": "exts"}),
    "DITContentRuleDescription": ("Schema.DITContentRule", {
        "oid": "oid", "names": "names", "description": "desc", "obsolete": "obsolete", "aux": "aux",
        "must": "must", "may": "may", "never": "never", "extensions": "exts"}),
}

LEAN_KEYWORDS = {
    "end", "at", "from", "fun", "open", "in", "do", "then", "else", "match", "with", "let", "have", "show", "by",
    "if", "instance", "structure", "class", "where", "def", "theorem", "namespace", "section", "import", "return",
    "for", "unless", "mut", "try", "catch", "finally", "using", "this", "Type", "Prop", "Sort", "deriving",
    "extends", "export", "local", "private", "protected", "partial", "unsafe", "macro", "syntax", "notation",
    "universe", "variable", "abbrev", "axiom", "example", "inductive", "mutual", "infix", "prefix", "postfix",
    "calc", "nomatch", "nofun", "exists", "forall", "fuel", "some", "none",
}


class Unsupported(Exception):
    def __init__(self, node, msg):
        line = getattr(node, "lineno", "?")
        super().__init__(f"line {line}: {msg}")


def lname(py: str) -> str:
    n = py.lstrip("_") or py
    if n in LEAN_KEYWORDS:
        n += "_"
    return n


# ---------------------------------------------------------------------------------------------------------
# types: 'str' 'int' 'bool' 'none' ('opt',T) ('list',T|Cell) ('dict',K,V) ('tuple',(T..)) ('dc',cls)
#        ('enum',cls) ('match',pattern)  ('optmatch',pattern)
# ---------------------------------------------------------------------------------------------------------


class Cell:
    """element type of a list literal `[]`, fixed by the first `append`"""
    n = 0

    def __init__(self):
        Cell.n += 1
        self.id = Cell.n
        self.ty = None

    @property
    def mark(self):
        return f"«?{self.id}»"


def resolve(ty):
    if isinstance(ty, Cell):
        return resolve(ty.ty) if ty.ty is not None else ty
    if isinstance(ty, tuple):
        if ty[0] == "tuple":
            return ("tuple", tuple(resolve(x) for x in ty[1]))
        if ty[0] in ("opt", "list", "dict"):
            return (ty[0],) + tuple(resolve(x) for x in ty[1:])
    return ty


def lean_type(ty) -> str:
    if isinstance(ty, Cell):
        return lean_type(ty.ty) if ty.ty is not None else ty.mark
    if ty == "str":
        return "Str"
    if ty == "int":
        return "Nat"
    if ty in ("bool", "flag"):
        return "Bool"
    if ty == "none":
        return "Unit"
    k = ty[0]
    if k == "opt":
        return f"Option {atom_type(ty[1])}"
    if k == "list":
        return f"List {atom_type(ty[1])}"
    if k == "dict":
        return f"List ({lean_type(ty[1])} × {lean_type(ty[2])})"
    if k == "tuple":
        return " × ".join(atom_type(x) for x in ty[1])
    if k == "dc":
        return DATACLASSES[ty[1]][0]
    if k == "enum":
        return "Nat"
    if k == "match":
        return PATTERNS[ty[1]][1]
    if k == "optmatch":
        return f"Option {PATTERNS[ty[1]][1]}"
    raise AssertionError(ty)


def atom_type(ty) -> str:
    s = lean_type(ty)
    return s if (" " not in s or s.startswith("(")) else f"({s})"


def ty_eq(a, b) -> bool:
    a, b = resolve(a), resolve(b)
    if isinstance(a, Cell) or isinstance(b, Cell):
        return a is b
    if isinstance(a, str) or isinstance(b, str):
        return a == b
    if a[0] != b[0]:
        return False
    if a[0] == "tuple":
        return len(a[1]) == len(b[1]) and all(ty_eq(x, y) for x, y in zip(a[1], b[1]))
    if a[0] in ("dc", "enum", "match", "optmatch"):
        return a[1] == b[1]
    return all(ty_eq(x, y) for x, y in zip(a[1:], b[1:]))


def unify_cell(a, b):
    """lists with an undetermined element type take the other side's"""
    a, b = resolve(a), resolve(b)
    if isinstance(a, Cell) and not isinstance(b, Cell):
        a.ty = b
    elif isinstance(b, Cell) and not isinstance(a, Cell):
        b.ty = a
    elif isinstance(a, tuple) and isinstance(b, tuple) and a[0] == b[0] == "list":
        unify_cell(a[1], b[1])


def join(node, a, b):
    unify_cell(a, b)
    if ty_eq(a, b):
        return a
    a, b = resolve(a), resolve(b)
    if a == "none":
        return b if b[0] == "opt" else ("opt", b)
    if b == "none":
        return a if a[0] == "opt" else ("opt", a)
    if isinstance(a, tuple) and a[0] == "opt" and ty_eq(a[1], b):
        return a
    if isinstance(b, tuple) and b[0] == "opt" and ty_eq(b[1], a):
        return b
    raise Unsupported(node, f"a variable would hold values of types {a} and {b}")


def coerce(node, term, ty, want) -> str:
    unify_cell(ty, want)
    if ty_eq(ty, want):
        return term
    ty, want = resolve(ty), resolve(want)
    if isinstance(want, tuple) and want[0] == "opt":
        if ty == "none":
            return "none"
        if ty_eq(ty, want[1]):
            return f"some {atom(term)}"
    raise Unsupported(node, f"a value of type {ty} is used where {want} is expected")


def is_atom(t: str) -> bool:
    t = t.strip()
    if not t:
        return True
    if t[0] in "([{" and matching(t) == len(t) - 1:
        return True
    return all(c.isalnum() or c in "_.'«»?!" for c in t)


def matching(t: str) -> int:
    depth = 0
    for i, c in enumerate(t):
        if c in "([{":
            depth += 1
        elif c in ")]}":
            depth -= 1
            if depth == 0:
                return i
    return -1


def atom(t: str) -> str:
    return t if is_atom(t) else f"({t})"


def str_lit(s: str) -> str:
    out = []
    for ch in s:
        if ch == "\\":
            out.append("\\\\")
        elif ch == '"':
            out.append('\\"')
        elif 32 <= ord(ch) < 127:
            out.append(ch)
        else:
            raise ValueError("non-printable literal")
    return 'ofString "' + "".join(out) + '"'


# ---------------------------------------------------------------------------------------------------------
# the module
# ---------------------------------------------------------------------------------------------------------


class Module:
    def __init__(self, tree: ast.Module):
        self.consts: dict[str, str] = {}
        self.typevars: dict[str, tuple] = {}
        self.enums: dict[str, list[tuple[str, str]]] = {}
        self.dataclasses: dict[str, list[tuple[str, object]]] = {}
        self.functions: dict[str, ast.FunctionDef] = {}
        self.methods: dict[tuple[str, str], ast.FunctionDef] = {}
        self.patterns: set[str] = set()
        self.classes: dict[str, ast.ClassDef] = {}
        for st in tree.body:
            if isinstance(st, ast.Assign) and len(st.targets) == 1 and isinstance(st.targets[0], ast.Name):
                name = st.targets[0].id
                v = st.value
                if isinstance(v, ast.Call) and ast.unparse(v.func) == "re.compile":
                    self.patterns.add(name)
                    continue
                if isinstance(v, ast.Call) and ast.unparse(v.func) in ("t.TypeVar", "typing.TypeVar"):
                    self.typevars[name] = tuple(self.simple_ann(a) for a in v.args[1:])
                    continue
                try:
                    self.consts[name] = self.const_str(v)
                except Unsupported:
                    pass
            elif isinstance(st, ast.FunctionDef):
                self.functions[st.name] = st
            elif isinstance(st, ast.ClassDef):
                self.classes[st.name] = st
        for c in self.classes.values():
            bases = [ast.unparse(b) for b in c.bases]
            if "enum.Enum" in bases:
                mem = []
                for st in c.body:
                    if isinstance(st, ast.Assign) and isinstance(st.targets[0], ast.Name):
                        mem.append((st.targets[0].id, self.const_str(st.value)))
                self.enums[c.name] = mem
        for c in self.classes.values():
            if any("dataclass" in ast.unparse(d) for d in c.decorator_list):
                fields = []
                for st in c.body:
                    if isinstance(st, ast.AnnAssign) and isinstance(st.target, ast.Name):
                        fields.append((st.target.id, self.ann_type(st.annotation)))
                    elif isinstance(st, ast.FunctionDef):
                        self.methods[(c.name, st.name)] = st
                self.dataclasses[c.name] = fields

    def const_str(self, node) -> str:
        if isinstance(node, ast.Constant) and isinstance(node.value, str):
            return node.value
        if isinstance(node, ast.Name) and node.id in self.consts:
            return self.consts[node.id]
        if isinstance(node, ast.JoinedStr):
            out = []
            for v in node.values:
                if isinstance(v, ast.Constant):
                    out.append(v.value)
                elif isinstance(v, ast.FormattedValue) and v.conversion == -1 and v.format_spec is None:
                    out.append(self.const_str(v.value))
                else:
                    raise Unsupported(node, "not a constant string")
            return "".join(out)
        raise Unsupported(node, "not a constant string")

    def simple_ann(self, a):
        if isinstance(a, ast.Constant) and a.value is None:
            return "none"
        if isinstance(a, ast.Name) and a.id == "str":
            return "str"
        raise Unsupported(a, "TypeVar constraint other than str / None")

    def ann_type(self, a):
        if isinstance(a, ast.Constant) and a.value is None:
            return "none"
        if isinstance(a, ast.Constant) and isinstance(a.value, str):
            return self.ann_type(ast.parse(a.value, mode="eval").body)
        if isinstance(a, ast.Name):
            if a.id in ("str", "int", "bool"):
                return a.id
            if a.id in self.enums:
                return ("enum", a.id)
            if a.id in DATACLASSES and a.id in self.classes:
                return ("dc", a.id)
            if a.id in self.typevars:
                return ("typevar", a.id)
            raise Unsupported(a, f"annotation {a.id}")
        if isinstance(a, ast.Subscript):
            head = ast.unparse(a.value)
            args = a.slice.elts if isinstance(a.slice, ast.Tuple) else [a.slice]
            if head in ("t.List", "typing.List", "list"):
                return ("list", self.ann_type(args[0]))
            if head in ("t.Optional", "typing.Optional"):
                return ("opt", self.ann_type(args[0]))
            if head in ("t.Dict", "typing.Dict", "dict"):
                return ("dict", self.ann_type(args[0]), self.ann_type(args[1]))
            if head in ("t.Tuple", "typing.Tuple", "tuple"):
                return ("tuple", tuple(self.ann_type(x) for x in args))
        raise Unsupported(a, f"annotation {ast.unparse(a)}")


# ---------------------------------------------------------------------------------------------------------
# helpers on statement lists
# ---------------------------------------------------------------------------------------------------------


def always_leaves(stmts) -> bool:
    if not stmts:
        return False
    last = stmts[-1]
    if isinstance(last, (ast.Return, ast.Raise)):
        return True
    if isinstance(last, ast.If):
        return always_leaves(last.body) and always_leaves(last.orelse)
    return False


def has_jump(stmts) -> bool:
    for st in stmts:
        for n in ast.walk(st):
            if isinstance(n, (ast.Return, ast.Raise, ast.Break, ast.Continue)):
                return True
    return False


def assigned_names(stmts) -> list[str]:
    """names bound by the statements, in order of first binding (nested function bodies excluded)"""
    out: list[str] = []

    def add(n):
        if n not in out:
            out.append(n)

    def target(t):
        if isinstance(t, ast.Name):
            add(t.id)
        elif isinstance(t, (ast.Tuple, ast.List)):
            for e in t.elts:
                target(e)
        elif isinstance(t, ast.Subscript) and isinstance(t.value, ast.Name):
            add(t.value.id)

    def visit(st):
        if isinstance(st, ast.Assign):
            for t in st.targets:
                target(t)
        elif isinstance(st, (ast.AnnAssign, ast.AugAssign)):
            target(st.target)
        elif isinstance(st, ast.Expr) and isinstance(st.value, ast.Call) and isinstance(st.value.func, ast.Attribute) \
                and st.value.func.attr == "append" and isinstance(st.value.func.value, ast.Name):
            add(st.value.func.value.id)
        elif isinstance(st, ast.If):
            for s in st.body + st.orelse:
                visit(s)
        elif isinstance(st, (ast.While, ast.For)):
            if isinstance(st, ast.For):
                target(st.target)
            for s in st.body:
                visit(s)

    for st in stmts:
        visit(st)
    return out


def loaded_names(nodes) -> list[str]:
    out: list[str] = []
    for nd in nodes:
        for n in ast.walk(nd):
            if isinstance(n, ast.Name) and n.id not in out:
                out.append(n.id)
    return out


def ind(lines, n=2):
    return [" " * n + ln for ln in lines]


def path_of(node):
    """access path of a narrowing test: a name or `name.attr`"""
    if isinstance(node, ast.Name):
        return node.id
    if isinstance(node, ast.Attribute) and isinstance(node.value, ast.Name):
        return f"{node.value.id}.{node.attr}"
    return None


class Test:
    """a condition: either a decidable proposition, or a test on an Optional value (scrutinee `term`, payload
    type `inner`, optional proposition `prop(x)` on the payload); `neg` flips it"""

    def __init__(self, pre, prop=None, term=None, path=None, inner=None, payload_prop=None, neg=False):
        self.pre, self.prop, self.term, self.path = pre, prop, term, path
        self.inner, self.payload_prop, self.neg = inner, payload_prop, neg


# ---------------------------------------------------------------------------------------------------------
# one function
# ---------------------------------------------------------------------------------------------------------

SENTINEL = "\0RESULT"


class FuncTranslator:
    def __init__(self, mod, gen, pyname, leanname, node, self_cls=None, spec=None, pure=False, outer=None):
        self.mod, self.gen = mod, gen
        self.pyname, self.name, self.node = pyname, leanname, node
        self.self_cls, self.spec, self.pure, self.outer = self_cls, spec or {}, pure, outer
        self.raises = False
        self.uses_fuel = False
        self.counter = 0
        self.loops = 0
        self.defs: list[str] = []
        self.inner: dict[str, ast.FunctionDef] = {}
        self.cells: list[Cell] = []
        self.join_envs: dict[int, dict] = {}
        self.ret = None
        self.params: list[tuple[str, object]] = []
        self.is_classmethod = any(ast.unparse(d) == "classmethod" for d in node.decorator_list)

    # ---- small things
    def fresh(self, base="t") -> str:
        self.counter += 1
        return f"{base}{self.counter}_"

    def subst(self, ty):
        if isinstance(ty, tuple) and ty[0] == "typevar":
            if ty[1] not in self.spec:
                raise Unsupported(self.node, f"type variable {ty[1]} is not instantiated")
            return self.spec[ty[1]]
        if isinstance(ty, tuple) and ty[0] in ("opt", "list", "dict"):
            return (ty[0],) + tuple(self.subst(x) for x in ty[1:])
        if isinstance(ty, tuple) and ty[0] == "tuple":
            return ("tuple", tuple(self.subst(x) for x in ty[1]))
        return ty

    def ok(self, term: str) -> str:
        return term if self.pure else f"Except.ok {atom(term)}"

    def wrap(self, lines):
        if self.pure or len(lines) == 1:
            return lines
        return ["do"] + ind(lines)

    def raising(self, node):
        self.raises = True
        if self.pure:
            raise Unsupported(node, "internal: raising operation in a function classified as pure")

    # ---- signature
    def signature(self):
        args = self.node.args
        if args.vararg or args.kwarg or args.kwonlyargs or args.defaults or args.posonlyargs:
            raise Unsupported(self.node, "parameter kinds other than plain positional")
        params = list(args.args)
        out = []
        if self.self_cls is not None:
            first = params.pop(0)
            if not self.is_classmethod:
                out.append((first.arg, ("dc", self.self_cls)))
        for a in params:
            if a.annotation is None:
                raise Unsupported(a, f"parameter {a.arg} has no annotation")
            out.append((a.arg, self.subst(self.mod.ann_type(a.annotation))))
        if self.node.returns is None:
            raise Unsupported(self.node, "no return annotation")
        self.ret = self.subst(self.mod.ann_type(self.node.returns))
        self.params = out

    def translate(self) -> list[str]:
        self.signature()
        env = {p: (lname(p), ty) for p, ty in self.params}
        body = self.block(self.node.body, env, self.fall_off_end)
        ps = "".join(f" ({lname(p)} : {lean_type(ty)})" for p, ty in self.params)
        fuel = " (fuel : Nat)" if self.uses_fuel else ""
        rt = lean_type(self.ret)
        rt = rt if self.pure else f"Except Err {atom_type(self.ret)}"
        where = f"`{self.pyname}` (schema.py line {self.node.lineno})"
        head = [f"/-- {where} -/", f"def {self.name}{fuel}{ps} : {rt} :=" + ("" if self.pure else " do")]
        text = self.defs + head + ind(body) + [""]
        out = []
        for ln in text:
            for c in self.cells:
                if c.mark in ln:
                    if resolve(c) is c:
                        raise Unsupported(self.node, "a list literal `[]` whose element type is never determined")
                    ln = ln.replace(c.mark, atom_type(c))
            out.append(ln)
        return out

    def fall_off_end(self, env):
        if self.ret == "none":
            return [self.ok("()")]
        raise Unsupported(self.node, "control can reach the end of the function without `return`")

    # ---- blocks
    def block(self, stmts, env, k):
        env = dict(env)
        out: list[str] = []
        for i, st in enumerate(stmts):
            rest = stmts[i + 1:]
            if isinstance(st, ast.If):
                return out + self.if_stmt(st, rest, env, k)
            if isinstance(st, ast.Return):
                return out + self.return_stmt(st, env)
            if isinstance(st, ast.Raise):
                return out + self.raise_stmt(st)
            if isinstance(st, ast.While):
                out += self.while_stmt(st, env)
            elif isinstance(st, ast.For):
                out += self.for_stmt(st, env)
            else:
                out += self.simple_stmt(st, env)
        return out + k(env)

    def return_stmt(self, st, env):
        if st.value is None:
            pre, term, ty = [], "()", "none"
        else:
            pre, term, ty = self.expr(st.value, env, want=self.ret)
        return pre + [self.ok(coerce(st, term, ty, self.ret))]

    def raise_stmt(self, st):
        self.raising(st)
        e = st.exc
        cls = e.func.id if isinstance(e, ast.Call) and isinstance(e.func, ast.Name) else (
            e.id if isinstance(e, ast.Name) else None)
        if cls == "ValueError":
            return ["Except.error Err.valueError"]
        raise Unsupported(st, f"raise of {ast.unparse(e) if e else 'nothing'}")

    def bind(self, pre, term, ty, target, want=None):
        """`let target : T := term`, merging `let t ← op; let x := t` into `let x ← op`"""
        ty2 = want if want is not None else ty
        if pre and pre[-1].startswith(f"let {term} ← ") and ty_eq(ty, ty2):
            return pre[:-1] + [pre[-1].replace(f"let {term} ← ", f"let {target} ← ", 1)]
        return pre + [f"let {target} : {lean_type(ty2)} := {term}"]

    def simple_stmt(self, st, env) -> list[str]:
        if isinstance(st, ast.Expr) and isinstance(st.value, ast.Constant) and isinstance(st.value.value, str):
            return []
        if isinstance(st, ast.Pass):
            return []
        if isinstance(st, ast.FunctionDef):
            self.inner[st.name] = st
            return []
        if isinstance(st, ast.AnnAssign) and isinstance(st.target, ast.Name) and st.value is not None:
            want = self.subst(self.mod.ann_type(st.annotation))
            pre, term, ty = self.expr(st.value, env, want=want)
            term = coerce(st, term, ty, want)
            nm = lname(st.target.id)
            env[st.target.id] = (nm, want)
            return self.bind(pre, term, want, nm)
        if isinstance(st, ast.Assign) and len(st.targets) == 1:
            tgt = st.targets[0]
            if isinstance(tgt, ast.Name):
                pre, term, ty = self.expr(st.value, env)
                nm = lname(tgt.id)
                env[tgt.id] = (nm, ty)
                return self.bind(pre, term, ty, nm)
            if isinstance(tgt, ast.Tuple) and all(isinstance(e, ast.Name) for e in tgt.elts):
                pre, term, ty = self.expr(st.value, env)
                ty = resolve(ty)
                names = [lname(e.id) for e in tgt.elts]
                pat = "(" + ", ".join(names) + ")"
                if isinstance(ty, tuple) and ty[0] == "tuple" and len(ty[1]) == len(names):
                    for e, t1 in zip(tgt.elts, ty[1]):
                        env[e.id] = (lname(e.id), t1)
                    if pre and pre[-1].startswith(f"let {term} ← "):
                        return pre[:-1] + [pre[-1].replace(f"let {term} ← ", f"let {pat} ← ", 1)]
                    return pre + [f"let {pat} : {lean_type(ty)} := {term}"]
                if isinstance(ty, tuple) and ty[0] == "list" and len(names) == 2:
                    self.raising(st)
                    for e in tgt.elts:
                        env[e.id] = (lname(e.id), ty[1])
                    return pre + [f"let {pat} ← unpack2 {atom(term)}"]
                raise Unsupported(st, f"unpacking a value of type {ty} into {len(names)} names")
            if isinstance(tgt, ast.Subscript) and isinstance(tgt.value, ast.Name):
                d = tgt.value.id
                if d not in env:
                    raise Unsupported(st, f"unknown name {d}")
                nm, dty = env[d]
                dty = resolve(dty)
                if not (isinstance(dty, tuple) and dty[0] == "dict"):
                    raise Unsupported(st, "item assignment on something that is not a dict")
                p1, k1, kt = self.expr(tgt.slice, env)
                p2, v1, vt = self.expr(st.value, env)
                k1, v1 = coerce(st, k1, kt, dty[1]), coerce(st, v1, vt, dty[2])
                return p2 + p1 + [f"let {nm} : {lean_type(dty)} := pyDictSet {nm} {atom(k1)} {atom(v1)}"]
        if isinstance(st, ast.Expr) and isinstance(st.value, ast.Call) and isinstance(st.value.func, ast.Attribute) \
                and st.value.func.attr == "append" and isinstance(st.value.func.value, ast.Name) \
                and len(st.value.args) == 1:
            l = st.value.func.value.id
            if l not in env:
                raise Unsupported(st, f"unknown name {l}")
            nm, lty = env[l]
            lty = resolve(lty)
            if not (isinstance(lty, tuple) and lty[0] == "list"):
                raise Unsupported(st, "append on something that is not a list")
            pre, term, ty = self.expr(st.value.args[0], env)
            unify_cell(lty[1], ty)
            term = coerce(st, term, ty, lty[1])
            return pre + [f"let {nm} : {lean_type(lty)} := {nm} ++ [{term}]"]
        raise Unsupported(st, f"statement `{ast.unparse(st).splitlines()[0][:60]}`")

    # ---- if
    def if_stmt(self, st, rest, env, k):
        test = self.test(st.test, env)
        lb, lo = always_leaves(st.body), always_leaves(st.orelse)
        if lb or lo or getattr(test, "const", None) is not None:
            then_fn = lambda e: self.block(st.body + ([] if lb else rest), e, k)  # noqa: E731
            else_fn = lambda e: self.block(st.orelse + ([] if lo else rest), e, k)  # noqa: E731
            return test.pre + self.branch(test, then_fn, else_fn, env)
        if has_jump(st.body) or has_jump(st.orelse):
            raise Unsupported(st, "`return` / `raise` inside an `if` whose branches do not all leave")
        a1, a2 = assigned_names(st.body), assigned_names(st.orelse)
        cand = a1 + [m for m in a2 if m not in a1]
        ids: list[int] = []

        def kk(e):
            i = len(self.join_envs) + 1
            ids.append(i)
            self.join_envs[i] = e
            return [f"{SENTINEL}{i}"]

        saved_raises = self.raises
        self.raises = False
        lines = self.branch(test, lambda e: self.block(st.body, e, kk), lambda e: self.block(st.orelse, e, kk), env)
        inner_raises = self.raises
        self.raises = saved_raises or inner_raises
        names = [n for n in cand if n in env or all(n in self.join_envs[i] for i in ids)]
        if not names:
            raise Unsupported(st, "an `if` statement that assigns nothing")
        tys = []
        for n in names:
            ty = None
            for i in ids:
                t1 = self.join_envs[i][n][1]
                ty = t1 if ty is None else join(st, ty, t1)
            tys.append(ty)
        monadic = not self.pure
        out = []
        for ln in lines:
            s = ln.strip()
            if s.startswith(SENTINEL):
                e = self.join_envs[int(s[len(SENTINEL):].rstrip(")"))]
                comps = [coerce(st, e[n][0], e[n][1], ty) for n, ty in zip(names, tys)]
                tup = comps[0] if len(comps) == 1 else "(" + ", ".join(comps) + ")"
                tail = ")" * (len(s) - len(s.rstrip(")")))
                out.append(ln[:len(ln) - len(ln.lstrip())] + self.ok(tup) + tail)
            else:
                out.append(ln)
        lean_names = [lname(n) for n in names]
        pat = lean_names[0] if len(names) == 1 else "(" + ", ".join(lean_names) + ")"
        tt = ("tuple", tuple(tys)) if len(tys) > 1 else tys[0]
        for n, ty in zip(names, tys):
            env[n] = (lname(n), ty)
        if monadic:
            head = f"let {pat} ← ("
        else:
            head = f"let {pat} : {lean_type(tt)} := ("
        out = [head + out[0]] + ind(out[1:], 2)
        out[-1] += ")"
        return test.pre + out + self.block(rest, env, k)

    def branch(self, test, then_fn, else_fn, env, wrap=None):
        wrap = wrap or self.wrap
        const = getattr(test, "const", None)
        if const is True:
            return then_fn(env)
        if const is False:
            return else_fn(env)
        if test.prop is not None:
            return [f"if {test.prop} then"] + ind(wrap(then_fn(env))) + ["else"] + ind(wrap(else_fn(env)))
        T, F = (else_fn, then_fn) if test.neg else (then_fn, else_fn)
        env2 = dict(env)
        x = test.payload
        env2[test.path] = (x, test.inner)
        if test.payload_prop is None:
            inner = T(env2)
        else:
            inner = [f"if {test.payload_prop} then"] + ind(wrap(T(env2))) + ["else"] + ind(wrap(F(env2)))
        lines = [f"(match {test.term} with", "| none =>"] + ind(wrap(F(env))) + [f"| some {x} =>"] + ind(wrap(inner))
        lines[-1] += ")"
        return lines

    # ---- conditions
    def test(self, node, env) -> Test:
        if isinstance(node, ast.UnaryOp) and isinstance(node.op, ast.Not):
            t = self.test(node.operand, env)
            if getattr(t, "const", None) is not None:
                t.const = not t.const
            elif t.prop is not None:
                t.prop = f"¬ ({t.prop})"
            else:
                t.neg = not t.neg
            return t
        if isinstance(node, ast.Compare) and len(node.ops) == 1:
            op, rhs = node.ops[0], node.comparators[0]
            if isinstance(op, (ast.Is, ast.IsNot)) and isinstance(rhs, ast.Constant) and rhs.value is None:
                pre, term, ty = self.expr(node.left, env)
                ty = resolve(ty)
                neg = isinstance(op, ast.Is)
                if ty == "none" or (isinstance(ty, str) and ty != "none") or ty[0] != "opt":
                    t = Test(pre)
                    t.const = (ty == "none") == neg
                    return t
                return self.opt_test(node.left, pre, term, ty[1], None, neg)
            if isinstance(op, (ast.Eq, ast.NotEq)):
                p1, a, t1 = self.expr(node.left, env)
                p2, b, t2 = self.expr(rhs, env)
                if not ty_eq(t1, t2):
                    raise Unsupported(node, f"comparison of {resolve(t1)} with {resolve(t2)}")
                sym = "=" if isinstance(op, ast.Eq) else "≠"
                return Test(p1 + p2, prop=f"{a} {sym} {b}")
            raise Unsupported(node, "comparison operator")
        if isinstance(node, ast.BoolOp):
            parts = [self.test(v, env) for v in node.values]
            if any(p.prop is None or p.pre for p in parts):
                raise Unsupported(node, "and/or of tests on optional values or of raising operands")
            sym = " ∧ " if isinstance(node.op, ast.And) else " ∨ "
            return Test([], prop=sym.join(f"({p.prop})" for p in parts))
        pre, term, ty = self.expr(node, env)
        ty = resolve(ty)
        if ty in ("bool", "flag"):
            return Test(pre, prop=f"{term} = true")
        if ty == "int":
            return Test(pre, prop=f"{term} ≠ 0")
        if ty == "str" or (isinstance(ty, tuple) and ty[0] in ("list", "dict")):
            return Test(pre, prop=f"{term} ≠ []")
        if ty == "none":
            t = Test(pre)
            t.const = False
            return t
        if isinstance(ty, tuple) and ty[0] == "opt" and resolve(ty[1]) == "str":
            return self.opt_test(node, pre, term, "str", "{x} ≠ []", False)
        if isinstance(ty, tuple) and ty[0] == "optmatch":
            return self.opt_test(node, pre, term, ("match", ty[1]), None, False)
        raise Unsupported(node, f"truth value of a {ty}")

    def opt_test(self, node, pre, term, inner, payload_prop, neg) -> Test:
        path = path_of(node)
        if path is None:
            raise Unsupported(node, "a test on an optional value that is not a name or `name.attr`")
        x = lname(path) if "." not in path else lname(path.split(".")[1]) + "_"
        t = Test(pre, term=term, path=path, inner=inner,
                 payload_prop=None if payload_prop is None else payload_prop.format(x=x), neg=neg)
        t.payload = x
        return t

    # ---- loops
    def loop_signature(self, st, env, body_nodes, extra_bound=()):
        assigned = assigned_names(st.body)
        carried = [n for n in assigned if n in env and n not in extra_bound]
        used = loaded_names(body_nodes)
        readonly = [n for n in used if n in env and n not in carried and n not in extra_bound and "." not in n]
        return carried, readonly

    def tuple_of(self, names):
        ls = [lname(n) for n in names]
        return ls[0] if len(ls) == 1 else "(" + ", ".join(ls) + ")"

    def tuple_type(self, names, env):
        tys = [env[n][1] for n in names]
        return lean_type(tys[0]) if len(tys) == 1 else lean_type(("tuple", tuple(tys)))

    def check_stable(self, st, carried, env, env2):
        for n in carried:
            if not ty_eq(env[n][1], env2[n][1]):
                raise Unsupported(st, f"loop variable {n} changes type ({resolve(env[n][1])} → {resolve(env2[n][1])})")

    def while_stmt(self, st, env):
        if st.orelse:
            raise Unsupported(st, "while … else")
        if has_jump(st.body):
            raise Unsupported(st, "return / raise / break / continue inside a loop")
        self.raising(st)
        self.uses_fuel = True
        self.loops += 1
        fname = f"{self.name}_while{self.loops}"
        carried, readonly = self.loop_signature(st, env, [st.test] + st.body)
        if not carried:
            raise Unsupported(st, "a while loop that changes no variable")
        ro = "".join(f" ({lname(n)} : {lean_type(env[n][1])})" for n in readonly)
        cts = [atom_type(env[n][1]) for n in carried]
        rty = self.tuple_type(carried, env)
        call = f"{fname}{''.join(' ' + lname(n) for n in readonly)}"

        def k_body(e):
            self.check_stable(st, carried, env, e)
            return [f"{call} fuel" + "".join(" " + lname(n) for n in carried)]

        test = self.test(st.test, env)
        if test.pre:
            raise Unsupported(st, "a loop condition with a raising operation")
        body = self.branch(test, lambda e: self.block(st.body, e, k_body), lambda e: [self.ok(self.tuple_of(carried))], env)
        sig = " → ".join(["Nat"] + cts + [f"Except Err {atom(rty)}"])
        d = [f"/-- the `while` loop at schema.py line {st.lineno} of `{self.pyname}`; carried: {', '.join(carried)} -/",
             f"def {fname}{ro} : {sig}",
             "  | 0" + ", _" * len(carried) + " => Except.error fuelError",
             "  | fuel + 1" + "".join(", " + lname(n) for n in carried) + " =>"] + ind(self.wrap(body), 4) + [""]
        self.defs += d
        return [f"let {self.tuple_of(carried)} ← {call} fuel" + "".join(" " + lname(n) for n in carried)]

    def for_stmt(self, st, env):
        if st.orelse:
            raise Unsupported(st, "for … else")
        if has_jump(st.body):
            raise Unsupported(st, "return / raise / break / continue inside a loop")
        it = st.iter
        if isinstance(it, ast.Call) and isinstance(it.func, ast.Attribute) and it.func.attr == "items" and not it.args:
            pre, term, ty = self.expr(it.func.value, env)
            ty = resolve(ty)
            if not (isinstance(ty, tuple) and ty[0] == "dict"):
                raise Unsupported(st, ".items() of something that is not a dict")
            if not (isinstance(st.target, ast.Tuple) and len(st.target.elts) == 2
                    and all(isinstance(e, ast.Name) for e in st.target.elts)):
                raise Unsupported(st, "for target of .items() must be two names")
            bound = [(st.target.elts[0].id, ty[1]), (st.target.elts[1].id, ty[2])]
            pat = f"({lname(bound[0][0])}, {lname(bound[1][0])})"
            elem = f"({lean_type(ty[1])} × {lean_type(ty[2])})"
        else:
            pre, term, ty = self.expr(it, env)
            ty = resolve(ty)
            if not (isinstance(ty, tuple) and ty[0] == "list" and isinstance(st.target, ast.Name)):
                raise Unsupported(st, "for over something that is not a list / dict.items()")
            bound = [(st.target.id, ty[1])]
            pat = lname(st.target.id)
            elem = atom_type(ty[1])
        self.loops += 1
        fname = f"{self.name}_for{self.loops}"
        bnames = [b for b, _ in bound]
        carried, readonly = self.loop_signature(st, env, st.body, extra_bound=bnames)
        carried = [n for n in carried if n not in bnames]
        if not carried:
            raise Unsupported(st, "a for loop that changes no variable")
        ro = "".join(f" ({lname(n)} : {lean_type(env[n][1])})" for n in readonly)
        cts = [atom_type(env[n][1]) for n in carried]
        rty = self.tuple_type(carried, env)
        call = f"{fname}{''.join(' ' + lname(n) for n in readonly)}"
        env2 = dict(env)
        for b, t1 in bound:
            env2[b] = (lname(b), t1)

        def k_body(e):
            self.check_stable(st, carried, env, e)
            return [f"{call} rest_" + "".join(" " + lname(n) for n in carried)]

        body = self.block(st.body, env2, k_body)
        res = rty if self.pure else f"Except Err {atom(rty)}"
        sig = " → ".join([f"List {elem}"] + cts + [res])
        d = [f"/-- the `for` loop at schema.py line {st.lineno} of `{self.pyname}`; carried: {', '.join(carried)} -/",
             f"def {fname}{ro} : {sig}",
             "  | []" + "".join(", " + lname(n) for n in carried) + " => " + self.ok(self.tuple_of(carried)),
             f"  | {pat} :: rest_" + "".join(", " + lname(n) for n in carried) + " =>"] + ind(self.wrap(body), 4) + [""]
        self.defs += d
        arrow = ":=" if self.pure else "←"
        return pre + [f"let {self.tuple_of(carried)} {arrow} {call} {atom(term)}" + "".join(" " + lname(n) for n in carried)]

    # ---- expressions: (pre-lines, term, type)
    def lookup(self, node, env, name):
        if name not in env:
            raise Unsupported(node, f"unknown name {name}")
        return env[name]

    def pure_expr(self, node, env, want=None):
        pre, term, ty = self.expr(node, env, want)
        if pre:
            raise Unsupported(node, "an operation that can raise inside a comprehension / conditional expression")
        return term, ty

    def one_char(self, node) -> int:
        if isinstance(node, ast.Constant) and isinstance(node.value, str) and len(node.value) == 1:
            return ord(node.value)
        raise Unsupported(node, "separator must be a one-character string literal")

    def expr(self, node, env, want=None):
        if isinstance(node, ast.Constant):
            v = node.value
            if isinstance(v, bool):
                return [], "true" if v else "false", "bool"
            if isinstance(v, str):
                return [], str_lit(v), "str"
            if isinstance(v, int) and v >= 0:
                return [], str(v), "int"
            if v is None:
                return [], "()", "none"
            raise Unsupported(node, f"literal {v!r}")
        if isinstance(node, ast.Name):
            nm, ty = self.lookup(node, env, node.id)
            return [], nm, ty
        if isinstance(node, ast.List) and not node.elts:
            w = resolve(want) if want is not None else None
            if isinstance(w, tuple) and w[0] == "list":
                return [], "[]", w
            c = Cell()
            self.cells.append(c)
            return [], "[]", ("list", c)
        if isinstance(node, ast.Dict) and not node.keys:
            w = resolve(want) if want is not None else None
            if isinstance(w, tuple) and w[0] == "dict":
                return [], "[]", w
            raise Unsupported(node, "`{}` without a type annotation")
        if isinstance(node, ast.Tuple):
            pre, terms, tys = [], [], []
            for e in node.elts:
                p, t1, ty = self.expr(e, env)
                pre += p
                terms.append(t1)
                tys.append(ty)
            return pre, "(" + ", ".join(terms) + ")", ("tuple", tuple(tys))
        if isinstance(node, ast.Attribute):
            return self.attribute(node, env)
        if isinstance(node, ast.JoinedStr):
            return self.fstring(node, env)
        if isinstance(node, ast.Subscript):
            return self.subscript(node, env)
        if isinstance(node, ast.ListComp):
            return self.listcomp(node, env)
        if isinstance(node, ast.IfExp):
            return self.ifexp(node, env, want)
        if isinstance(node, ast.Call):
            return self.call(node, env, want)
        raise Unsupported(node, f"expression `{ast.unparse(node)[:60]}`")

    def attribute(self, node, env):
        path = path_of(node)
        if path is not None and path in env:
            nm, ty = env[path]
            return [], nm, ty
        v = node.value
        # Enum.MEMBER / Enum.MEMBER.value
        if isinstance(v, ast.Name) and v.id in self.mod.enums and v.id not in env:
            for i, (m, _val) in enumerate(self.mod.enums[v.id]):
                if m == node.attr:
                    return [], f"({i} /- {v.id}.{m} -/ : Nat)", ("enum", v.id)
            raise Unsupported(node, f"{v.id} has no member {node.attr}")
        if node.attr == "value":
            if isinstance(v, ast.Attribute) and isinstance(v.value, ast.Name) and v.value.id in self.mod.enums \
                    and v.value.id not in env:
                for m, val in self.mod.enums[v.value.id]:
                    if m == v.attr:
                        return [], str_lit(val), "str"
            pre, term, ty = self.expr(v, env)
            ty = resolve(ty)
            if isinstance(ty, tuple) and ty[0] == "enum":
                return pre, f"enumValue {ty[1]}_members {atom(term)}", "str"
            raise Unsupported(node, ".value of something that is not an enum member")
        pre, term, ty = self.expr(v, env)
        ty = resolve(ty)
        if isinstance(ty, tuple) and ty[0] == "dc":
            fields = dict(self.mod.dataclasses[ty[1]])
            fmap = DATACLASSES[ty[1]][1]
            if node.attr in fields and node.attr in fmap:
                return pre, f"{atom(term)}.{fmap[node.attr]}", self.subst(fields[node.attr])
        raise Unsupported(node, f"attribute .{node.attr}")

    def fstring(self, node, env):
        pre, parts = [], []
        for v in node.values:
            if isinstance(v, ast.Constant):
                if v.value:
                    parts.append(str_lit(v.value))
            elif isinstance(v, ast.FormattedValue) and v.conversion == -1 and v.format_spec is None:
                p, term, ty = self.expr(v.value, env)
                ty = resolve(ty)
                pre += p
                if ty == "str":
                    parts.append(atom(term))
                elif ty == "int":
                    self.raising(node)
                    t1 = self.fresh()
                    pre.append(f"let {t1} ← pyStrNat {atom(term)}")
                    parts.append(t1)
                else:
                    raise Unsupported(node, f"f-string field of type {ty}")
            else:
                raise Unsupported(node, "f-string with a conversion or a format specification")
        if not parts:
            return pre, '(ofString "")', "str"
        return pre, " ++ ".join(parts), "str"

    def subscript(self, node, env):
        pre, term, ty = self.expr(node.value, env)
        ty = resolve(ty)
        sl = node.slice
        if isinstance(sl, ast.Slice):
            if sl.upper is None and sl.step is None and isinstance(sl.lower, ast.Constant) \
                    and isinstance(sl.lower.value, int) and sl.lower.value >= 0 \
                    and (ty == "str" or (isinstance(ty, tuple) and ty[0] == "list")):
                return pre, f"pySliceFrom {atom(term)} {sl.lower.value}", ty
            raise Unsupported(node, "a slice other than `[k:]` with a literal k ≥ 0")
        if isinstance(sl, ast.Constant) and isinstance(sl.value, int) and sl.value >= 0 \
                and isinstance(ty, tuple) and ty[0] == "list":
            self.raising(node)
            t1 = self.fresh()
            return pre + [f"let {t1} ← listGetItem {atom(term)} {sl.value}"], t1, ty[1]
        raise Unsupported(node, "an index other than a literal k ≥ 0 on a list")

    def listcomp(self, node, env):
        if len(node.generators) != 1:
            raise Unsupported(node, "comprehension with several `for`")
        g = node.generators[0]
        if g.is_async or not isinstance(g.target, ast.Name):
            raise Unsupported(node, "comprehension target")
        pre, src, ty = self.expr(g.iter, env)
        ty = resolve(ty)
        if not (isinstance(ty, tuple) and ty[0] == "list"):
            raise Unsupported(node, "comprehension over something that is not a list")
        v = lname(g.target.id)
        env2 = dict(env)
        env2[g.target.id] = (v, ty[1])
        for c in g.ifs:
            t = self.test(c, env2)
            if t.prop is None or t.pre:
                raise Unsupported(c, "comprehension condition")
            src = f"({src}).filter (fun {v} => decide ({t.prop}))" if not is_atom(src) else \
                f"{src}.filter (fun {v} => decide ({t.prop}))"
        elt, ety = self.pure_expr(node.elt, env2)
        return pre, f"{atom(src)}.map (fun {v} => {elt})", ("list", ety)

    def ifexp(self, node, env, want):
        test = self.test(node.test, env)
        if test.pre:
            raise Unsupported(node, "a raising operation in the condition of a conditional expression")
        tys = []

        def probe(n):
            def f(e):
                term, ty = self.pure_expr(n, e, want)
                tys.append(ty)
                return [term]
            return f

        nowrap = lambda ls: ls  # noqa: E731
        self.branch(test, probe(node.body), probe(node.orelse), env, wrap=nowrap)
        ty = tys[0]
        for t1 in tys[1:]:
            ty = join(node, ty, t1)
        if want is not None:
            try:
                for t1 in tys:
                    coerce(node, "x", t1, want)
                ty = want
            except Unsupported:
                pass

        def final(n):
            def f(e):
                term, t1 = self.pure_expr(n, e, want)
                return [coerce(n, term, t1, ty)]
            return f

        lines = self.branch(test, final(node.body), final(node.orelse), env, wrap=nowrap)
        text = " ".join(ln.strip() for ln in lines)
        return [], text if text.startswith("(") and matching(text) == len(text) - 1 else f"({text})", ty

    # ---- calls
    def call(self, node, env, want=None):
        f = node.func
        if node.keywords and not (isinstance(f, ast.Name) and f.id in DATACLASSES):
            raise Unsupported(node, "keyword arguments")
        if isinstance(f, ast.Name):
            if f.id == "len" and len(node.args) == 1:
                pre, term, ty = self.expr(node.args[0], env)
                ty = resolve(ty)
                if ty == "str" or (isinstance(ty, tuple) and ty[0] in ("list", "dict")):
                    return pre, f"{atom(term)}.length", "int"
                raise Unsupported(node, f"len of a {ty}")
            if f.id == "bool" and len(node.args) == 1:
                t = self.test(node.args[0], env)
                if t.prop is None:
                    raise Unsupported(node, "bool() of an optional value")
                if t.prop.endswith(" = true"):
                    return t.pre, t.prop[:-len(" = true")], "bool"
                return t.pre, f"decide ({t.prop})", "bool"
            if f.id == "int" and len(node.args) == 1:
                pre, term, ty = self.expr(node.args[0], env)
                if resolve(ty) != "str":
                    raise Unsupported(node, "int() of something that is not a str")
                self.raising(node)
                t1 = self.fresh()
                return pre + [f"let {t1} ← pyIntDigits {atom(term)}"], t1, "int"
            if f.id in DATACLASSES and f.id in self.mod.dataclasses and f.id not in env:
                return self.construct(node, f.id, env)
            return self.fn_call(node, f.id, env)
        if isinstance(f, ast.Attribute):
            head = ast.unparse(f.value)
            if head == "re" and f.attr == "sub" and len(node.args) == 3:
                return self.re_sub(node, env)
            if head == "re" and f.attr == "match" and len(node.args) == 2 and isinstance(node.args[0], ast.Name) \
                    and node.args[0].id in self.mod.patterns and node.args[0].id in PATTERNS:
                return self.pattern_match(node, node.args[0].id, node.args[1], env)
            if isinstance(f.value, ast.Name) and f.value.id in self.mod.patterns and f.value.id not in env \
                    and f.attr == "match" and len(node.args) == 1:
                if f.value.id not in PATTERNS:
                    raise Unsupported(node, f"pattern {f.value.id} has no scanner in the model")
                return self.pattern_match(node, f.value.id, node.args[0], env)
            if isinstance(f.value, ast.Dict) and f.attr == "get" and len(node.args) == 2:
                return self.dict_get(node, env)
            pre, term, ty = self.expr(f.value, env)
            ty = resolve(ty)
            if isinstance(ty, tuple) and ty[0] == "match" and f.attr == "group" and len(node.args) == 1 \
                    and isinstance(node.args[0], ast.Constant) and isinstance(node.args[0].value, str):
                groups = PATTERNS[ty[1]][2]
                g = node.args[0].value
                if g not in groups:
                    raise Unsupported(node, f"group {g!r} is not in the table of {ty[1]}")
                acc, kind = groups[g]
                if kind == "opt":
                    return pre, f"{atom(term)}.{acc}", ("opt", "str")
                if kind == "req":
                    return pre, f"groupReq {atom(term)}.{acc}", "str"
                if kind == "flag":
                    return pre, f"{atom(term)}.{acc}", "flag"
                return pre, f"{atom(term)}.{acc}", "str"
            if ty == "str":
                return self.str_method(node, f.attr, pre, term, env)
            raise Unsupported(node, f"method .{f.attr} of a {ty}")
        raise Unsupported(node, "call")

    def str_method(self, node, meth, pre, term, env):
        a = node.args
        if meth in ("strip", "lstrip", "rstrip"):
            fn = {"strip": "pyStrip", "lstrip": "pyLstrip", "rstrip": "pyRstrip"}[meth]
            if not a:
                if meth != "strip":
                    raise Unsupported(node, f".{meth}() without argument")
                return pre, f"pyStripWs {atom(term)}", "str"
            if len(a) == 1 and isinstance(a[0], ast.Constant) and isinstance(a[0].value, str):
                return pre, f"{fn} ({str_lit(a[0].value)}) {atom(term)}", "str"
            raise Unsupported(node, f".{meth} with a non-literal argument")
        if meth == "split":
            if len(a) == 1:
                return pre, f"pySplit {self.one_char(a[0])} {atom(term)}", ("list", "str")
            if len(a) == 2 and isinstance(a[1], ast.Constant) and a[1].value == 1:
                return pre, f"pySplit1 {self.one_char(a[0])} {atom(term)}", ("list", "str")
            raise Unsupported(node, ".split other than split(c) / split(c, 1)")
        if meth == "startswith" and len(a) == 1:
            p, t1, ty = self.expr(a[0], env)
            if resolve(ty) != "str":
                raise Unsupported(node, "startswith argument")
            return pre + p, f"pyStartsWith {atom(term)} {atom(t1)}", "bool"
        if meth == "join" and len(a) == 1:
            p, t1, ty = self.expr(a[0], env)
            ty = resolve(ty)
            if not (isinstance(ty, tuple) and ty[0] == "list" and resolve(ty[1]) == "str"):
                raise Unsupported(node, "join of something that is not a list of str")
            return pre + p, f"pyJoin {atom(term)} {atom(t1)}", "str"
        raise Unsupported(node, f"str method .{meth}")

    def re_sub(self, node, env):
        pat = self.mod.const_str(node.args[0])
        cb = node.args[1]
        if not (isinstance(cb, ast.Name) and cb.id in self.inner):
            raise Unsupported(node, "re.sub callback must be a function defined just above")
        fn = self.inner[cb.id]
        body = [s for s in fn.body if not (isinstance(s, ast.Expr) and isinstance(s.value, ast.Constant))]
        if len(fn.args.args) != 1 or len(body) != 1 or not isinstance(body[0], ast.Return):
            raise Unsupported(node, "re.sub callback must be a single return")
        key = (pat, fn.args.args[0].arg, ast.unparse(body[0].value))
        if key not in RESUB:
            raise Unsupported(node, f"re.sub with pattern {pat!r} and callback `{key[2]}` has no named model function")
        pre, term, ty = self.expr(node.args[2], env)
        if resolve(ty) != "str":
            raise Unsupported(node, "re.sub on something that is not a str")
        return pre, f"{RESUB[key]} {atom(term)}", "str"

    def pattern_match(self, node, pat, arg, env):
        pre, term, ty = self.expr(arg, env)
        if resolve(ty) != "str":
            raise Unsupported(node, "match on something that is not a str")
        return pre, f"{PATTERNS[pat][0]} {atom(term)}", ("optmatch", pat)

    def dict_get(self, node, env):
        d = node.func.value
        pairs, vty = [], None
        for k, v in zip(d.keys, d.values):
            kt, kty = self.pure_expr(k, env)
            vt, t1 = self.pure_expr(v, env)
            if resolve(kty) != "str":
                raise Unsupported(node, "dict literal keys must be str")
            vty = t1 if vty is None else join(node, vty, t1)
            pairs.append(f"({kt}, {vt})")
        p1, key, kty = self.expr(node.args[0], env)
        p2, dflt, dty = self.expr(node.args[1], env)
        vty = dty if vty is None else join(node, vty, dty)
        kty = resolve(kty)
        if kty == "str":
            key = f"some {atom(key)}"
        elif not (isinstance(kty, tuple) and kty[0] == "opt" and resolve(kty[1]) == "str"):
            raise Unsupported(node, "dict .get key must be str / Optional[str]")
        return p1 + p2, f"pyDictGetD [{', '.join(pairs)}] {atom(key)} {atom(dflt)}", vty

    def construct(self, node, cls, env):
        if node.args:
            raise Unsupported(node, "positional arguments to a dataclass")
        fields = self.mod.dataclasses[cls]
        lean_struct, fmap = DATACLASSES[cls]
        if sorted(f for f, _ in fields) != sorted(fmap):
            raise Unsupported(node, f"the fields of {cls} differ from the table DATACLASSES")
        given = {kw.arg: kw.value for kw in node.keywords}
        if sorted(given) != sorted(fmap):
            raise Unsupported(node, f"{cls}(...) must be given every field by keyword")
        ftypes = dict(fields)
        pre, items = [], []
        for kw in node.keywords:
            want = self.subst(ftypes[kw.arg])
            p, term, ty = self.expr(kw.value, env, want=want)
            pre += p
            items.append(f"{fmap[kw.arg]} := {coerce(kw.value, term, ty, want)}")
        return pre, "({ " + ", ".join(items) + f" }} : {lean_struct})", ("dc", cls)

    def find_function(self, pyname):
        tr = self
        while tr is not None:
            if pyname in tr.inner:
                return tr.inner[pyname], tr
            tr = tr.outer
        if pyname in self.mod.functions:
            return self.mod.functions[pyname], None
        return None, None

    def fn_call(self, node, pyname, env):
        fn, owner = self.find_function(pyname)
        if fn is None:
            raise Unsupported(node, f"call of {pyname}")
        args = [self.expr(a, env) for a in node.args]
        pre = [ln for p, _, _ in args for ln in p]
        # type variables among the parameters
        tv = {}
        opt_dispatch = None
        for i, a in enumerate(fn.args.args):
            if a.annotation is not None and isinstance(a.annotation, ast.Name) and a.annotation.id in self.mod.typevars:
                aty = resolve(args[i][2])
                if isinstance(aty, tuple) and aty[0] == "opt":
                    opt_dispatch = (i, a.annotation.id, aty[1])
                else:
                    tv[a.annotation.id] = aty
        if opt_dispatch is not None:
            i, var, inner = opt_dispatch
            info_n = self.gen.require(fn, owner, {**tv, var: "none"}, node)
            info_s = self.gen.require(fn, owner, {**tv, var: inner}, node)
            if not (info_n["pure"] and info_s["pure"]) or len(args) != 1:
                raise Unsupported(node, "a call with an optional argument for a type variable must be pure and unary")
            rty = join(node, info_n["ret"], info_s["ret"])
            x = self.fresh("a")
            t_none = coerce(node, f"{info_n['name']} ()", info_n["ret"], rty)
            t_some = coerce(node, f"{info_s['name']} {x}", info_s["ret"], rty)
            return pre, f"(match {args[0][1]} with | none => {t_none} | some {x} => {t_some})", rty
        info = self.gen.require(fn, owner, tv, node)
        if len(args) != len(info["params"]):
            raise Unsupported(node, "wrong number of arguments")
        terms = [atom(coerce(node, t1, ty, pty)) for (_, t1, ty), (_, pty) in zip(args, info["params"])]
        if info["fuel"]:
            self.uses_fuel = True
            terms = ["fuel"] + terms
        app = " ".join([info["name"]] + terms)
        if info["pure"]:
            return pre, app, info["ret"]
        self.raising(node)
        t1 = self.fresh()
        return pre + [f"let {t1} ← {app}"], t1, info["ret"]


# ---------------------------------------------------------------------------------------------------------
# the generator
# ---------------------------------------------------------------------------------------------------------


class Generator:
    def __init__(self, mod: Module):
        self.mod = mod
        self.done: dict = {}
        self.failed: dict = {}
        self.in_progress: set = set()
        self.out: list[str] = []
        self.stubs: list[tuple[str, str]] = []

    def names(self, fn, owner, spec, cls=None):
        if cls is not None:
            meth = {"__str__": "str"}.get(fn.name, fn.name)
            return f"{cls}.{fn.name}", f"{cls}_{lname(meth)}"
        base = lname(fn.name)
        if owner is not None:
            base = f"{owner.name}_{base}"
        suffix = "".join("_None" for v in sorted(spec) if spec[v] == "none")
        return fn.name, base + suffix

    def require(self, fn, owner, spec, at, cls=None):
        pyname, lean = self.names(fn, owner, spec, cls)
        key = lean
        if key in self.done:
            return self.done[key]
        if key in self.failed:
            raise Unsupported(at, f"calls {pyname}, which is outside the subset ({self.failed[key]})")
        if key in self.in_progress:
            raise Unsupported(at, f"recursion through {pyname}")
        self.in_progress.add(key)
        try:
            tr = FuncTranslator(self.mod, self, pyname, lean, fn, self_cls=cls, spec=spec, pure=False, outer=owner)
            text = tr.translate()
            if not tr.raises and not tr.uses_fuel:
                tr = FuncTranslator(self.mod, self, pyname, lean, fn, self_cls=cls, spec=spec, pure=True, outer=owner)
                text = tr.translate()
        except Unsupported as e:
            self.failed[key] = str(e)
            raise
        finally:
            self.in_progress.discard(key)
        self.out += text
        info = {"name": lean, "params": tr.params, "ret": tr.ret, "pure": tr.pure, "fuel": tr.uses_fuel}
        self.done[key] = info
        return info

    def run(self, targets) -> bool:
        ok = True
        for t in targets:
            try:
                if isinstance(t, tuple):
                    cls, meth = t
                    fn = self.mod.methods.get((cls, meth))
                    if fn is None:
                        raise Unsupported(None, f"no method {cls}.{meth}")
                    self.require(fn, None, {}, fn, cls=cls)
                else:
                    fn = self.mod.functions.get(t)
                    if fn is None:
                        raise Unsupported(None, f"no function {t}")
                    tvs = [a.annotation.id for a in fn.args.args
                           if isinstance(a.annotation, ast.Name) and a.annotation.id in self.mod.typevars]
                    if tvs:
                        for c in self.mod.typevars[tvs[0]]:
                            self.require(fn, None, {tvs[0]: c}, fn)
                    else:
                        self.require(fn, None, {}, fn)
            except Unsupported as e:
                ok = False
                name = f"{t[0]}_{lname({'__str__': 'str'}.get(t[1], t[1]))}" if isinstance(t, tuple) else lname(t)
                self.stubs.append((name, str(e)))
        return ok

    def render(self, src_label: str) -> str:
        L = [f"/- GENERATED by harness/py2lean_schema.py from the AST of {src_label}. Do not edit.",
             "   One Lean definition per Python function / loop; see design_notes/py2lean_schema.md. -/",
             "import Verif.PyRtStr", "", "set_option linter.unusedVariables false", "",
             "namespace Verif.SchemaGen", "", "open Verif Verif.PyRt Verif.PyRtStr", "open Verif.Schema (Str ofString)", ""]
        for name, mem in self.mod.enums.items():
            vals = ", ".join(str_lit(v) for _, v in mem)
            L += [f"/-- values of the members of `{name}` (an `enum.Enum`), in source order: "
                  + ", ".join(f"{i} = {m}" for i, (m, _) in enumerate(mem)) + " -/",
                  f"def {name}_members : List Str := [{vals}]", ""]
        L += self.out
        for name, reason in self.stubs:
            esc = reason.replace("\\", "\\\\").replace('"', '\\"')
            L += [f"/-- NOT TRANSLATED: outside the subset of py2lean_schema -/",
                  f'def {name}_untranslated : String := "{esc}"', ""]
        L += ["end Verif.SchemaGen", ""]
        return "\n".join(L)


def main(argv):
    check = "--check" in argv
    out = DEFAULT_OUT
    repo = os.environ.get("VERIF_REPO", "/repo")
    src = os.path.join(repo, "src", "sansldap", "schema.py")
    i = 0
    while i < len(argv):
        if argv[i] == "--out":
            out = argv[i + 1]
            i += 1
        elif argv[i] == "--src":
            src = argv[i + 1]
            i += 1
        i += 1
    tree = ast.parse(open(src, encoding="utf-8").read(), filename=src)
    mod = Module(tree)
    gen = Generator(mod)
    ok = gen.run(TARGETS)
    text = gen.render("src/sansldap/schema.py")
    for name, reason in gen.stubs:
        print(f"py2lean_schema: {name}: NOT TRANSLATED: {reason}", file=sys.stderr)
    if check:
        try:
            old = open(out, encoding="utf-8").read()
        except OSError:
            old = None
        if old != text:
            print(f"py2lean_schema: {out} is stale", file=sys.stderr)
            return 1
        return 0 if ok else 3
    os.makedirs(os.path.dirname(os.path.abspath(out)), exist_ok=True)
    with open(out, "w", encoding="utf-8") as f:
        f.write(text)
    print(f"py2lean_schema: wrote {os.path.normpath(out)} ({len(gen.done)} definitions, {len(gen.stubs)} stubs)")
    return 0 if ok else 3


if __name__ == "__main__":
    try:
        sys.exit(main(sys.argv[1:]))
    except SystemExit:
        raise
    except BaseException:  # noqa: BLE001
        import traceback
        traceback.print_exc()
        sys.exit(2)
