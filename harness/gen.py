"""Seeded generators of structured, mostly valid inputs built from the repo's own types
(in the canonical JSON form of codec.py).  Every random choice derives from the one
`random.Random` passed in, so a seed replays exactly."""
from __future__ import annotations

import random

from codec import OID_DEACT, OID_DELETED, OID_PAGED, tx

KNOWN_OIDS = (OID_PAGED, OID_DELETED, OID_DEACT)

TEXTS = ["", "a", "cn", "dc=example,dc=com", "objectClass", "é", "日本語", "\U0001f600", "a" * 127, "b" * 128, "c" * 300,
         "x\x00y", " lead", "trail ", "(paren)", "a*b\\c", "1.2.840.113556.1.4.319x"]
ATTRS = ["cn", "objectClass", "sAMAccountName", "1.2.3", "2.5.4.3", "cn;lang-en", "0.9.2342.19200300.100.1.1;x-opt;y-2", "a-b",
         # the same descriptions in other letter cases (all within one process: what is remembered about one spelling must not show in another)
         "CN", "Cn", "objectclass", "OBJECTCLASS", "samaccountname", "cn;LANG-EN", "CN;lang-en", "A-B"]
OIDS = ["1.2.3", "1.3.6.1.4.1.1466.20037", "1.3.6.1.4.1.1466.20036", "2.16.840.1.113730.3.4.2", "1.2.3.4.5.6"]


# text that is NOT stable under Unicode normalisation (NFC / NFKC), case mapping, SASLprep / stringprep mapping, whitespace or default-ignorable
# stripping: decomposed sequences, compatibility characters (fullwidth, ligatures, superscripts, U+212B, U+2126), conjoining jamo, non-ASCII
# spaces, soft hyphen, zero-width characters, dotless / dotted i, final sigma, sharp s, BOM, line separators
UNSTABLE_TEXTS = ["cafe\u0301", "\uff50\uff41\uff53\uff53", "two\u00a0words", "soft\u00adhyphen", "zero\u200bwidth", "\ufb01sh", "x\u00b2", "\u212b", "\u2126hm",
                  "\u1100\u1161\u11a8", "\u0130stanbul", "\u0131", "\u03a3\u03c2\u03c3", "stra\u00dfe", "\ufeffbom", "line\u2028sep", "\u3000wide space", "A\u030a",
                  "\u1e9b\u0323", "e\u0301\u0323", " lead", "trail ", "a  b", "Tab\there", "MiXeD", "\u00c5ngstr\u00f6m"]


def g_text(rng: random.Random) -> str:
    r = rng.random()
    if r < 0.08:
        return rng.choice(UNSTABLE_TEXTS)
    if r < 0.6:
        return rng.choice(TEXTS)
    n = rng.choice([0, 1, 2, 5, 20, 126, 127, 128, 129, 255, 256, 257])
    if r < 0.8:
        return "".join(rng.choice("abcXYZ019 ,=+-") for _ in range(n))
    alphabet = "aZ0 ~\x7f\x80\xffĀ߿ࠀ퟿￿\U00010000\U0010ffff"
    return "".join(rng.choice(alphabet) for _ in range(min(n, 40)))


def g_bytes(rng: random.Random) -> bytes:
    r = rng.random()
    if r < 0.3:
        return rng.choice([b"", b"\x00", b"\xff", b"value", b"*", b"\\", b"()", b"\x80\x00", bytes(range(256))])
    n = rng.choice([0, 1, 2, 3, 8, 30, 126, 127, 128, 129, 255, 256, 300, 1000])
    if r < 0.4 and n < 1000:
        n = rng.choice([65535, 65536, 70000]) if rng.random() < 0.1 else n
    return bytes(rng.randrange(256) for _ in range(n))


def g_int(rng: random.Random) -> int:
    r = rng.random()
    if r < 0.3:
        return rng.choice([0, 1, -1, 2, 3, 127, 128, -128, -129, 255, 256, -256, 32767, 32768, -32768, -32769, 65535, 65536,
                           -65536, 8388607, 8388608, -8388608, -8388609, 2**31 - 1, 2**31, -(2**31), 2**63, -(2**63), 2**64])
    if r < 0.6:
        k = rng.randrange(0, 131)
        return rng.choice([1, -1]) * (2**k) + rng.choice([-2, -1, 0, 1, 2])
    if r < 0.8:
        return rng.choice([1, -1]) * rng.randrange(1, 256) * 256 ** rng.randrange(0, 12)
    return rng.randrange(-70000, 70000)


def g_small_id(rng: random.Random) -> int:
    return rng.choice([0, 1, 2, 3, 5, 127, 128, 255, 256, 65536, 2**31 - 1]) if rng.random() < 0.7 else g_int(rng)


def g_opt(rng, f, p_none=0.4):
    return None if rng.random() < p_none else f(rng)


def g_filter(rng: random.Random, depth: int = 4, allow_custom: bool = False) -> dict:
    kinds = ["eq", "ge", "le", "approx", "present", "substr", "ext"]
    if depth > 0:
        kinds += ["and", "or", "not", "and", "or", "not"]
    if allow_custom:
        kinds.append("custom")
    k = rng.choice(kinds)
    a = tx(rng.choice(ATTRS) if rng.random() < 0.8 else g_text(rng))
    if k in ("and", "or"):
        n = rng.choice([0, 1, 2, 3]) if rng.random() < 0.9 else rng.randrange(4, 9)
        return {"k": k, "fs": [g_filter(rng, depth - 1, allow_custom) for _ in range(n)]}
    if k == "not":
        return {"k": "not", "f": g_filter(rng, depth - 1, allow_custom)}
    if k in ("eq", "ge", "le", "approx"):
        return {"k": k, "a": a, "v": g_bytes(rng).hex()}
    if k == "present":
        return {"k": "present", "a": a}
    if k == "substr":
        return {"k": "substr", "a": a, "i": g_opt(rng, lambda r: g_bytes(r).hex()),
                "any": [g_bytes(rng).hex() for _ in range(rng.choice([0, 0, 1, 2, 3]))],
                "f": g_opt(rng, lambda r: g_bytes(r).hex())}
    if k == "ext":
        return {"k": "ext", "rule": g_opt(rng, lambda r: tx(r.choice(ATTRS + OIDS))), "attr": g_opt(rng, lambda r: a),
                "v": g_bytes(rng).hex(), "dn": rng.random() < 0.5}
    return {"k": "custom", "v": tx(g_text(rng))}


def filter_depth(f: dict) -> int:
    if f["k"] in ("and", "or"):
        return 1 + max([filter_depth(x) for x in f["fs"]], default=0)
    if f["k"] == "not":
        return 1 + filter_depth(f["f"])
    return 1


def g_control(rng: random.Random, allow_custom: bool = False) -> dict:
    kinds = ["generic", "generic", "paged", "showDeleted", "showDeactivated"] + (["custom"] if allow_custom else [])
    k = rng.choice(kinds)
    crit = rng.random() < 0.5
    if k == "generic":
        oid = rng.choice(OIDS[:4] + ["", "1.2.840.113556.1.4.3190", "x"]) if rng.random() < 0.8 else g_text(rng)
        if oid in KNOWN_OIDS or (oid == "1.2.3.4.5.6" and allow_custom):
            oid += ".1"
        return {"k": "generic", "oid": tx(oid), "crit": crit, "value": g_opt(rng, lambda r: g_bytes(r).hex())}
    if k == "paged":
        return {"k": "paged", "crit": crit, "size": g_int(rng), "cookie": g_bytes(rng).hex(), "raw": None}
    if k == "custom":
        return {"k": "custom", "crit": crit, "data": g_bytes(rng).hex(), "raw": None}
    # the value-less Microsoft controls: a peer may still attach a controlValue (legal BER, kept verbatim by the library)
    return {"k": k, "crit": crit, "raw": g_bytes(rng).hex() if rng.random() < 0.25 else None}


def g_controls(rng, allow_custom=False):
    n = rng.choice([0, 0, 0, 1, 1, 2, 3])
    return [g_control(rng, allow_custom) for _ in range(n)]


def g_cred(rng, allow_custom=False) -> dict:
    k = rng.choice(["simple", "sasl"] + (["custom"] if allow_custom else []))
    if k == "simple":
        return {"k": "simple", "pw": tx(g_text(rng))}
    if k == "sasl":
        return {"k": "sasl", "mech": tx(rng.choice(["", "EXTERNAL", "GSSAPI", "GSS-SPNEGO", "DIGEST-MD5"])),
                "creds": g_opt(rng, lambda r: g_bytes(r).hex())}
    return {"k": "custom", "v": tx(g_text(rng))}


# result codes that agree modulo 2^8 / 2^16 / 2^32 / 2^64 with one another or with a defined code (all drawn within one process: whatever the
# library remembers about one of them must not show in another)
CONGRUENT_CODES = [127 + 2**32, 127 - 2**32, 2**32 - 1, -1 - 2**32, 2**64 - 1, 4096 + 2**32, 4096 - 2**32, 2**32, -2**32, 49 + 2**32, 14 + 2**32, 14 - 2**32,
                   80 + 256, 10 + 65536, 2 + 2**64]


def g_result(rng) -> dict:
    r0 = rng.random()
    code = rng.choice([0, 1, 2, 10, 14, 49, 80, 9, 81, 4096, 127, 128, -1, -129, 2**31]) if r0 < 0.8 else rng.choice(CONGRUENT_CODES) if r0 < 0.92 \
        else g_int(rng)
    refs = None
    r = rng.random()
    if r < 0.2:
        refs = []
    elif r < 0.45:
        refs = [tx(rng.choice(["ldap://a", "ldap://b/dc=x", ""])) for _ in range(rng.choice([1, 2, 3]))]
    return {"code": code, "mdn": tx(g_text(rng)), "diag": tx(g_text(rng)), "refs": refs}


OP_KINDS = ["bindReq", "bindResp", "unbind", "searchReq", "searchEntry", "searchDone", "searchRef", "extReq", "extResp"]


def g_op(rng, kind=None, depth=4, allow_custom=False) -> dict:
    k = kind or rng.choice(OP_KINDS)
    if k == "bindReq":
        return {"k": k, "version": rng.choice([3, 3, 3, 2, 0, 127, 128, -1]) if rng.random() < 0.9 else g_int(rng),
                "name": tx(g_text(rng)), "cred": g_cred(rng, allow_custom)}
    if k == "bindResp":
        return {"k": k, "res": g_result(rng), "sasl": g_opt(rng, lambda r: g_bytes(r).hex())}
    if k == "unbind":
        return {"k": k}
    if k == "searchReq":
        return {"k": k, "base": tx(g_text(rng)), "scope": rng.choice([0, 1, 2]), "deref": rng.choice([0, 1, 2, 3]),
                "size": abs(g_int(rng)) if rng.random() < 0.8 else g_int(rng),
                "time": abs(g_int(rng)) if rng.random() < 0.8 else g_int(rng),
                "typesOnly": rng.random() < 0.5, "filter": g_filter(rng, depth, allow_custom),
                "attrs": [tx(rng.choice(ATTRS + ["*", "1.1", "+", ""])) for _ in range(rng.choice([0, 0, 1, 2, 5]))]}
    if k == "searchEntry":
        return {"k": k, "name": tx(g_text(rng)),
                "attrs": [{"name": tx(rng.choice(ATTRS)), "vals": [g_bytes(rng).hex() for _ in range(rng.choice([0, 1, 1, 2, 4]))]}
                          for _ in range(rng.choice([0, 1, 2, 3]))]}
    if k == "searchDone":
        return {"k": k, "res": g_result(rng)}
    if k == "searchRef":
        return {"k": k, "uris": [tx(rng.choice(["ldap://a", "ldap://host/dc=b??sub", "", "é"])) for _ in range(rng.choice([0, 1, 2, 3]))]}
    if k == "extReq":
        return {"k": k, "name": tx(rng.choice(OIDS + [""])), "value": g_opt(rng, lambda r: g_bytes(r).hex())}
    if k == "extResp":
        return {"k": k, "res": g_result(rng), "name": g_opt(rng, lambda r: tx(r.choice(OIDS + [""]))),
                "value": g_opt(rng, lambda r: g_bytes(r).hex())}
    raise ValueError(k)


def g_msg(rng, kind=None, depth=4, allow_custom=False) -> dict:
    return {"id": g_small_id(rng), "op": g_op(rng, kind, depth, allow_custom), "controls": g_controls(rng, allow_custom)}


def msg_shape(m: dict) -> tuple:
    """Coarse shape used to count distinct non-trivial cases."""
    op = m["op"]
    shape = [op["k"], tuple(c["k"] for c in m["controls"])]
    if op["k"] == "searchReq":
        def fs(f):
            if f["k"] in ("and", "or"):
                return (f["k"], tuple(fs(x) for x in f["fs"]))
            if f["k"] == "not":
                return ("not", fs(f["f"]))
            return f["k"]
        shape.append(fs(op["filter"]))
    return tuple(shape)
