#!/venv/bin/python
"""Evaluate a seeded regression against the registered checks.

  seed_eval.py import <name> <dir-with-_deliver> <property> [needs...]   copy patch/demo/notes into /verif/seeded/<name>/ after confirming
  seed_eval.py run <name> [properties...]                                 apply to a scratch worktree of /repo's HEAD, run the quick checks against it (VERIF_REPO), record
  seed_eval.py patch <file.diff> <properties...>                          the same for any patch, nothing recorded

/repo itself is never modified: the change lives in a scratch worktree that is removed afterwards."""
from __future__ import annotations

import json
import os
import shutil
import subprocess
import sys
import time

VERIF = os.path.normpath(os.path.join(os.path.dirname(os.path.abspath(__file__)), ".."))
SEEDED = os.path.join(VERIF, "seeded")
REPO = "/repo"


def sh(cmd, cwd=None, env=None, timeout=3600):
    p = subprocess.run(cmd, cwd=cwd, env=env, capture_output=True, text=True, errors="replace", timeout=timeout, shell=isinstance(cmd, str))
    return p.returncode, p.stdout + p.stderr


def repo_clean():
    rc, out = sh(["git", "-C", REPO, "status", "--porcelain"])
    return out.strip() == ""


def cmd_import(name, src, prop, needs):
    d = os.path.join(src, "_deliver")
    dst = os.path.join(SEEDED, name)
    os.makedirs(dst, exist_ok=True)
    for f in ("patch.diff", "demo.py", "notes.md"):
        shutil.copy(os.path.join(d, f), os.path.join(dst, f))
    # confirm: demo passes on /repo, fails with the patch; tests pass with the patch (in the agent's worktree)
    env = dict(os.environ, PYTHONPATH=os.path.join(REPO, "src"))
    rc0, out0 = sh(["/venv/bin/python", os.path.join(dst, "demo.py")], env=env, cwd="/tmp")
    envm = dict(os.environ, PYTHONPATH=os.path.join(src, "src"))
    rc1, out1 = sh(["/venv/bin/python", os.path.join(dst, "demo.py")], env=envm, cwd="/tmp")
    rct, outt = sh(["/venv/bin/python", "-m", "pytest", "-q", "-p", "no:cacheprovider"], cwd=src, env=envm)
    rcd, diff = sh(["git", "-C", src, "diff", "--", "src"])
    with open(os.path.join(dst, "patch.diff"), "w") as fh:
        fh.write(diff)
    meta = {
        "name": name,
        "breaks_property": prop,
        "needs_to_manifest": needs,
        "confirmed": {
            "demo_on_unchanged_repo": "PASS" if rc0 == 0 else f"exit {rc0}: {out0[-200:]}",
            "demo_on_changed_tree": "FAIL (as intended)" if rc1 != 0 else "unexpectedly passed",
            "demo_output_changed_tree": out1.strip()[-400:],
            "existing_tests_with_change": outt.strip().splitlines()[-1] if outt.strip() else "",
        },
        "ran": ["demo.py with PYTHONPATH=/repo/src", "demo.py with PYTHONPATH=<worktree>/src", "pytest -q in the worktree"],
        "checks": {},
    }
    with open(os.path.join(dst, "meta.json"), "w") as fh:
        json.dump(meta, fh, indent=1)
    ok = rc0 == 0 and rc1 != 0 and rct == 0 and diff.strip()
    print(json.dumps(meta["confirmed"], indent=1))
    print("CONFIRMED" if ok else "NOT CONFIRMED")
    return 0 if ok else 1


SCRATCH = "/tmp/verif_evalrepo_%d" % os.getpid()


def cmd_run(name, props, patch=None, record=True):
    """apply the change to a scratch worktree of /repo's HEAD (never to /repo itself), point the checks at it with VERIF_REPO, run, remove it"""
    dst = os.path.join(SEEDED, name)
    meta = {}
    if record:
        meta = json.load(open(os.path.join(dst, "meta.json")))
    if not props:
        props = [meta["breaks_property"]]
    patch = patch or os.path.join(dst, "patch.diff")
    sh(["git", "-C", REPO, "worktree", "remove", "--force", SCRATCH])
    rc, out = sh(["git", "-C", REPO, "worktree", "add", "--detach", SCRATCH, "HEAD"])
    if rc != 0:
        print("cannot create scratch worktree:", out)
        return 2
    results = {}
    try:
        rc, out = sh(["git", "-C", SCRATCH, "apply", patch])
        if rc != 0:
            print("patch does not apply:", out)
            return 2
        env = dict(os.environ, VERIF_REPO=SCRATCH)
        for p in props:
            t = time.time()
            rc, out = sh([os.path.join(VERIF, "check"), p, "--tier", "quick"], cwd=VERIF, timeout=1800, env=env)
            lines = [l for l in out.splitlines() if l.startswith("VIOLATION") or l.startswith("KNOWN-FINDING") or l.startswith(p + " tier")]
            what = None
            for l in lines:
                if l.startswith("VIOLATION") and "replay=" in l:
                    replay = l.split("replay=")[1].split()[0]
                    try:
                        rp = json.load(open(os.path.join(VERIF, replay)))
                        what = rp.get("what") or "; ".join(rp.get("broken_obligations", []))[:300]
                    except Exception:  # noqa: BLE001
                        pass
                    break
            results[p] = {"exit": rc, "detected": rc == 1, "lines": [l[:300] for l in lines], "what": what, "wall_s": round(time.time() - t, 1)}
            print(p, "exit", rc, "|", (what or "")[:200])
            for l in lines:
                print("   ", l[:200])
    finally:
        sh(["git", "-C", REPO, "worktree", "remove", "--force", SCRATCH])
        sh(["git", "-C", REPO, "worktree", "prune"])
        # leave lean/Verif/Generated as translated from /repo itself, not from the scratch tree
        env0 = {k: v for k, v in os.environ.items() if k != "VERIF_REPO"}
        sh(["/venv/bin/python", os.path.join(VERIF, "harness", "translate.py")], cwd=os.path.join(VERIF, "lean"), env=env0)
        sh(["lake", "build", "driver"], cwd=os.path.join(VERIF, "lean"), env=env0)
    if record:
        meta.setdefault("checks", {}).update(results)
        with open(os.path.join(dst, "meta.json"), "w") as fh:
            json.dump(meta, fh, indent=1)
    # evidence files were rewritten by the mutated runs: the caller restores them by re-running on the clean tree
    return 0


if __name__ == "__main__":
    if sys.argv[1] == "import":
        sys.exit(cmd_import(sys.argv[2], sys.argv[3], sys.argv[4], " ".join(sys.argv[5:])))
    if sys.argv[1] == "patch":
        # seed_eval.py patch <file.diff> <properties...>: run the checks against an arbitrary change without recording anything
        sys.exit(cmd_run("adhoc", sys.argv[3:], patch=sys.argv[2], record=False))
    sys.exit(cmd_run(sys.argv[2], sys.argv[3:]))
