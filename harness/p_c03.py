"""C03 — encoded messages are RFC 4511 BER that an independent decoder reads back.

The independent decoder is the executable Lean specification `Verif.Rfc.decode`
(lean/Verif/Spec/Rfc4511.lean), run through the driver on the bytes the *implementation*
produced."""
from __future__ import annotations

import collections
import json

import ber
import codec as C
import drive
import gen
import p_c01
from codec import M
from sansldap.asn1 import ASN1Reader

LEAN_TARGETS = ["Verif.Props.C03"]
LEVEL = "proof"
ASSUMPTIONS = p_c01.ASSUMPTIONS + [
    "SIZE (1..MAX) constraints of the ASN.1 module restrict abstract values, not encodings; the library's types admit empty lists",
]


def unbind_op_index(data: bytes):
    """offset of the protocolOp identifier octet"""
    r = ASN1Reader(data)
    h = r.peek_header()
    inner = ASN1Reader(data[h.tag_length:])
    ih = inner.peek_header()
    return h.tag_length + ih.tag_length + ih.length


def run(ctx):
    msgs = p_c01.generate(ctx, ctx.scale(3000, 150000))
    hist = collections.Counter()
    shapes = set()
    reqs = []
    encs = []
    for j in msgs:
        hist[j["op"]["k"]] += 1
        shapes.add(gen.msg_shape(j))
        data = C.msg_from_json(j).pack(M.PackingOptions())
        encs.append(data)
        reqs.append({"op": "rfcdec", "hex": data.hex()})
    # messages that were RECEIVED (decoded from another conforming encoder's bytes: non-minimal lengths, explicit defaults, trailing elements,
    # also inside control values) and are sent on: what the library writes for them must again be strict RFC 4511 BER
    import p_c04
    fr = p_c04.Freedom(ctx.rng, on=True)
    n_resent = 0
    for j in msgs[len(p_c01.corpus_messages()):][: ctx.scale(800, 20000)]:
        try:
            node, exp = p_c04.msg_tree(j, fr)
            got = M.unpack_ldap_message(ASN1Reader(ber.encode(node)), M.PackingOptions())
            data = got.pack(M.PackingOptions())
        except BaseException:  # noqa: BLE001
            continue     # (rejections of permitted encodings are C04's business)
        j2 = C.msg_to_json(got)
        msgs.append(j2)
        encs.append(data)
        reqs.append({"op": "rfcdec", "hex": data.hex()})
        n_resent += 1
    hist["received-then-resent"] = n_resent
    # ONE object packed, edited in place through its list fields, packed again: the second bytes must be strict RFC 4511 BER of its CURRENT value
    import mutate
    n_edited = 0
    for j in msgs[len(p_c01.corpus_messages()):][: ctx.scale(1200, 20000)]:
        try:
            m = C.msg_from_json(j)
            m.pack(M.PackingOptions())
            if not mutate.edit_lists(m, ctx.rng):
                continue
            j2 = C.msg_to_json(m)
            data = bytes(m.pack(M.PackingOptions()))
        except BaseException:  # noqa: BLE001
            continue
        msgs.append(j2)
        encs.append(data)
        reqs.append({"op": "rfcdec", "hex": data.hex()})
        n_edited += 1
        n_resent += 1
    hist["packed-edited-packed-again"] = n_edited
    # a pack() that FAILS part-way (a text field UTF-8 cannot encode, bytes where text is expected, None for a mandatory field), then a pack() of a
    # valid message: its bytes are strict RFC 4511 BER of that message alone (nothing of the failed attempt is in them)
    import p_recv
    n_after = 0
    for j in msgs[len(p_c01.corpus_messages()):][: ctx.scale(600, 10000)]:
        bad = ctx.rng.choice(p_recv.UNENCODABLE)
        broken = [lambda: M.ExtendedRequest(message_id=7, controls=[], name=bad, value=b"v").pack(M.PackingOptions()),
                  lambda: M.SearchRequest(message_id=7, controls=[], base_object="dc=x", scope=M.SearchScope(2), deref_aliases=M.DereferencingPolicy(0), size_limit=0,
                                          time_limit=0, types_only=False, filter=C.sansldap.FilterEquality("cn", b"v"), attributes=["cn", bad]).pack(M.PackingOptions()),
                  lambda: M.BindRequest(message_id=7, controls=[C.sansldap.LDAPControl("1.2", True, "text-not-bytes")], version=3, name="cn=x",
                                        authentication=C.sansldap.SimpleCredential(None)).pack(M.PackingOptions()),
                  lambda: M.SearchResultEntry(message_id=7, controls=[], object_name="cn=x", attributes=[M.PartialAttribute("cn", [b"a", bad])]).pack(M.PackingOptions())]
        try:
            ctx.rng.choice(broken)()
            hist["failed-pack:accepted"] += 1
        except BaseException:  # noqa: BLE001
            pass
        try:
            data = bytes(C.msg_from_json(j).pack(M.PackingOptions()))
        except BaseException:  # noqa: BLE001
            continue
        msgs.append(j)
        encs.append(data)
        reqs.append({"op": "rfcdec", "hex": data.hex()})
        n_after += 1
        n_resent += 1
    hist["packed-after-a-failed-pack"] = n_after
    # octet-string fields handed over as bytearray objects (one object per distinct content, so equal fields SHARE it), the message packed twice:
    # both encodings are strict RFC 4511 BER of the message (the caller's buffers are not part of the writer's scratch space)
    n_ba = 0
    for j in msgs[len(p_c01.corpus_messages()):][: ctx.scale(700, 10000)]:
        try:
            with C.octet_kind("shared"):
                m_ = C.msg_from_json(j)
            first = bytes(m_.pack(M.PackingOptions()))
            second = bytes(m_.pack(M.PackingOptions()))
        except BaseException:  # noqa: BLE001
            continue
        for data in (first, second):
            msgs.append(j)
            encs.append(data)
            reqs.append({"op": "rfcdec", "hex": data.hex()})
            n_resent += 1
        n_ba += 1
    hist["bytearray-fields-packed-twice"] = n_ba
    violations = []
    disagreements = []
    samples = []
    if not ctx.driver_ok:
        return {"evaluations": 0, "distinct_nontrivial": 0, "rule": "driver unavailable", "samples": [], "violations": [],
                "disagreements": [{"what": "driver not built"}]}
    replies = drive.run_model(reqs)
    patch_reqs = []
    patch_idx = []
    for idx, (j, data, rep) in enumerate(zip(msgs, encs, replies)):
        want = p_c01.strip_raw(j)
        if "ok" in rep and p_c01.strip_raw(rep["ok"]) == want:
            continue
        if j["op"]["k"] == "unbind" and "err" in rep:
            # candidate for the known finding: is the constructed bit of the op identifier the only deviation?
            try:
                i = unbind_op_index(data)
                if data[i] == 0x62:
                    patched = data[:i] + b"\x42" + data[i + 1:]
                    patch_reqs.append({"op": "rfcdec", "hex": patched.hex()})
                    patch_idx.append(idx)
                    continue
            except BaseException:  # noqa: BLE001
                pass
        violations.append({"key": None, "what": "the independent RFC 4511 decoder does not recover the message from the library's bytes",
                           "msg": j, "hex": data.hex(), "strict_decoder": rep})
    if patch_reqs:
        prep = drive.run_model(patch_reqs)
        for idx, rep in zip(patch_idx, prep):
            j, data = msgs[idx], encs[idx]
            if "ok" in rep and p_c01.strip_raw(rep["ok"]) == p_c01.strip_raw(j):
                violations.append({"key": "C03:unbind-request-constructed", "what": "UnbindRequest encoded in constructed form (62 00)",
                                   "msg": j, "hex": data.hex()})
            else:
                violations.append({"key": None, "what": "UnbindRequest bytes deviate from RFC 4511 by more than the constructed bit",
                                   "msg": j, "hex": data.hex(), "strict_decoder": rep})
    # the model's encoder must agree with the implementation's (ties `encMsg` of the theorem to the code)
    n_gen = len(msgs) - n_resent
    sub = list(range(0, n_gen, max(1, n_gen // ctx.scale(1500, 20000))))
    creqs = [{"op": "enc", "msg": msgs[i]} for i in sub]
    bad, a, b = drive.correspond(creqs)
    for i, q, x, y in bad[:20]:
        disagreements.append({"request": q, "impl": x, "model": y})
    k = len(p_c01.corpus_messages())
    samples.append({"msg": msgs[k], "hex": encs[k].hex(), "strict_decoder": replies[k]})
    return {
        "evaluations": len(msgs),
        "distinct_nontrivial": len(shapes),
        "rule": "messages generated as for C01; each is packed by the implementation and its bytes are decoded by the executable strict "
                "RFC 4511 decoder of Spec/Rfc4511.lean; the result must equal the message (modulo the raw value of known controls); the same for "
                "messages that were first decoded from another encoder's permitted (non-canonical) bytes and then packed again, and for message objects "
                "that were packed, edited in place through their list fields and packed again, and for messages packed right after a pack() that failed part-way; "
                "distinct = distinct (kind, control kinds, filter shape)",
        "samples": samples,
        "histogram": dict(sorted(hist.items())),
        "requests": len(reqs) + len(creqs) + len(patch_reqs),
        "violations": violations,
        "disagreements": disagreements,
    }


def replay(ctx, payload):
    print(json.dumps(payload, indent=1)[:3000])
    if "msg" in payload:
        data = C.msg_from_json(payload["msg"]).pack(M.PackingOptions())
        print("bytes now:", data.hex())
        print("strict decoder:", drive.run_model([{"op": "rfcdec", "hex": data.hex()}]))
    return 0
