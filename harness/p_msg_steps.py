#!/usr/bin/env python3
"""C18 / BER decoding steps: executed source lines of `unpack_ldap_message` vs. the step model.

Counts the source LINES executed inside the sansldap package (sys.settrace, 'line' events) while
`unpack_ldap_message` decodes one message, on families of growing messages (many attributes, many
values, deep and wide filters, many controls, long strings, many trailing unknown elements, long
integers, long tag numbers) and on malformed variants of them (truncations, single-octet changes),
and compares with the steps of the Lean model (`Model/MsgSteps.lean`, evaluated by
`harness/msg_steps_eval.lean` with `lake env lean --run`).

Claim checked:  executed lines <= MULT * model steps (W = 0) + CONST   for every input,
and the outcome class (message / exception) agrees.  Reports the largest observed ratio.

Usage:  python3 harness/p_msg_steps.py [--repo /repo] [--seed N] [--quick]
"""
from __future__ import annotations

import argparse
import json
import os
import random
import subprocess
import sys
import time

HERE = os.path.dirname(os.path.abspath(__file__))
ROOT = os.path.dirname(HERE)

MULT = 12       # executed lines per model step allowed (the observed maximum, about 9, is reported)
CONST = 100     # constant part (entry of unpack_ldap_message, building the result object)


# ---------------------------------------------------------------------------------------------
# BER construction (independent of the library)

def ber_len(n: int) -> bytes:
    if n < 128:
        return bytes([n])
    b = n.to_bytes((n.bit_length() + 7) // 8, "big")
    return bytes([0x80 | len(b)]) + b


def tlv(tag, content: bytes) -> bytes:
    if isinstance(tag, int):
        tag = bytes([tag])
    return bytes(tag) + ber_len(len(content)) + content


def integer(v: int, tag=0x02) -> bytes:
    n = max(1, (v.bit_length() + 8) // 8)
    return tlv(tag, v.to_bytes(n, "big", signed=True))


def octets(b: bytes, tag=0x04) -> bytes:
    return tlv(tag, b)


def envelope(msgid: bytes, op: bytes, *extra: bytes) -> bytes:
    return tlv(0x30, msgid + op + b"".join(extra))


def f_eq(a=b"a", v=b"b") -> bytes:
    return tlv(0xA3, octets(a) + octets(v))


def f_not(f: bytes) -> bytes:
    return tlv(0xA2, f)


def f_and(fs) -> bytes:
    return tlv(0xA0, b"".join(fs))


def f_or(fs) -> bytes:
    return tlv(0xA1, b"".join(fs))


def f_substr(attr: bytes, n: int) -> bytes:
    parts = octets(b"i", 0x80) + b"".join(octets(b"x", 0x81) for _ in range(n)) + octets(b"f", 0x82)
    return tlv(0xA4, octets(attr) + tlv(0x30, parts))


def f_ext(n_unknown: int) -> bytes:
    body = octets(b"2.5.13.2", 0x81) + octets(b"cn", 0x82) + octets(b"v", 0x83) + tlv(0x84, b"\xff")
    body += b"".join(octets(b"", 0x8F) for _ in range(n_unknown))
    return tlv(0xA9, body)


def search_request(filt: bytes, attrs=(), base=b"dc=x") -> bytes:
    body = (octets(base) + integer(2, 0x0A) + integer(0, 0x0A) + integer(0) + integer(0)
            + tlv(0x01, b"\x00") + filt + tlv(0x30, b"".join(octets(a) for a in attrs)))
    return tlv(0x63, body)


def search_entry(n_attrs: int, n_vals: int, val=b"x", name=b"cn=e") -> bytes:
    attrs = b"".join(
        tlv(0x30, octets(b"a%d" % i) + tlv(0x31, b"".join(octets(val) for _ in range(n_vals))))
        for i in range(n_attrs))
    return tlv(0x64, octets(name) + tlv(0x30, attrs))


def ldap_result(code=0, mdn=b"", diag=b"", referrals=None) -> bytes:
    r = integer(code, 0x0A) + octets(mdn) + octets(diag)
    if referrals is not None:
        r += tlv(0xA3, b"".join(octets(u) for u in referrals))
    return r


def control(oid: bytes, crit=None, value=None) -> bytes:
    c = octets(oid)
    if crit is not None:
        c += tlv(0x01, b"\xff" if crit else b"\x00")
    if value is not None:
        c += octets(value)
    return tlv(0x30, c)


PAGED = b"1.2.840.113556.1.4.319"


def paged_value(size=10, cookie=b"abc") -> bytes:
    return tlv(0x30, integer(size) + octets(cookie))


def controls(cs) -> bytes:
    return tlv(0xA0, b"".join(cs))


UNBIND = tlv(0x42, b"")


def families(quick: bool):
    sizes = [1, 2, 4, 8, 16, 32, 64] + ([] if quick else [128, 256])
    out = []
    for k in sizes:
        out.append(("attributes", k, envelope(integer(1), search_entry(k, 2))))
        out.append(("values", k, envelope(integer(1), search_entry(2, k))))
        out.append(("long-value", k, envelope(integer(1), search_entry(1, 1, val=b"v" * (16 * k)))))
        out.append(("long-dn", k, envelope(integer(1), search_entry(1, 1, name=b"d" * (16 * k)))))
        d = min(k, 150)
        f = f_eq()
        for _ in range(d):
            f = f_not(f)
        out.append(("deep-not", d, envelope(integer(1), search_request(f))))
        f = f_eq()
        for i in range(d):
            f = f_and([f, f_eq()]) if i % 2 else f_or([f_eq(), f])
        out.append(("deep-and-or", d, envelope(integer(1), search_request(f))))
        out.append(("wide-and", k, envelope(integer(1), search_request(f_and([f_eq()] * k)))))
        out.append(("wide-substr", k, envelope(integer(1), search_request(f_substr(b"cn", k)))))
        out.append(("ext-unknown", k, envelope(integer(1), search_request(f_ext(k)))))
        out.append(("req-attrs", k, envelope(integer(1), search_request(f_eq(), [b"attr"] * k))))
        out.append(("controls-paged", k, envelope(integer(1), UNBIND,
                    controls([control(PAGED, True, paged_value())] * k))))
        out.append(("controls-generic", k, envelope(integer(1), UNBIND,
                    controls([control(b"1.2.3.%d" % i, None, b"v" * 8) for i in range(k)]))))
        out.append(("controls-nocrit-novalue", k, envelope(integer(1), UNBIND,
                    controls([control(b"1.2.840.113556.1.4.417")] * k))))
        out.append(("control-sequences", k, envelope(integer(1), UNBIND,
                    *[controls([control(b"1.2.3")])] * k)))
        out.append(("trailing-unknown", k, envelope(integer(1), UNBIND, *[octets(b"", 0x85)] * k)))
        out.append(("trailing-unknown-long", k, envelope(integer(1), UNBIND,
                    *[octets(b"z" * 200, 0x85)] * k)))
        out.append(("referrals", k, envelope(integer(1), tlv(0x65, ldap_result(10, b"", b"", [b"ldap://h/"] * k)))))
        out.append(("search-ref", k, envelope(integer(1), tlv(0x73, b"".join(octets(b"ldap://h/") for _ in range(k))))))
        out.append(("bindresp-trailing", k, envelope(integer(1), tlv(0x61, ldap_result(0)
                    + b"".join(octets(b"", 0x88) for _ in range(k)) + octets(b"creds", 0x87)))))
        out.append(("extresp-trailing", k, envelope(integer(1), tlv(0x78, ldap_result(0)
                    + b"".join(octets(b"", 0x8C) for _ in range(k)) + octets(b"1.2", 0x8A) + octets(b"v", 0x8B)))))
        out.append(("extreq-trailing", k, envelope(integer(1), tlv(0x77, octets(b"1.3.6", 0x80)
                    + b"".join(octets(b"", 0x85) for _ in range(k)) + octets(b"v", 0x81)))))
        out.append(("bind-sasl", k, envelope(integer(1), tlv(0x60, integer(3) + octets(b"n" * k)
                    + tlv(0xA3, octets(b"GSSAPI") + octets(b"t" * (8 * k)))))))
        out.append(("bind-simple", k, envelope(integer(1), tlv(0x60, integer(3) + octets(b"") + octets(b"p" * (8 * k), 0x80)))))
        out.append(("big-message-id", k, envelope(tlv(0x02, b"\x01" * (4 * k)), UNBIND)))
        out.append(("big-negative-id", k, envelope(tlv(0x02, b"\xff" * (4 * k)), UNBIND)))
        out.append(("big-result-code", k, envelope(integer(1), tlv(0x65, tlv(0x0A, b"\x01" * (4 * k)) + octets(b"") + octets(b"")))))
        out.append(("long-tag-number", k, envelope(integer(1), UNBIND, tlv(bytes([0xBF] + [0x81] * (4 * k) + [0x01]), b""))))
        out.append(("long-length-form", k, envelope(integer(1), UNBIND,
                    bytes([0x85, 0x80 | min(4 * k, 126)]) + b"\x00" * min(4 * k, 126))))
        out.append(("notice-of-disconnection", k, envelope(integer(0), tlv(0x78, ldap_result(52)),
                    octets(b"1.3.6.1.4.1.1466.20036" + b"0" * k, 0x8A))))
    return out


def mutants(rng: random.Random, data: bytes, n: int):
    out = []
    for _ in range(n):
        b = bytearray(data)
        how = rng.randrange(4)
        if how == 0 and len(b) > 2:            # truncate the content, keep the outer length
            cut = rng.randrange(2, len(b))
            b = b[:cut]
        elif how == 1:                          # change one octet
            i = rng.randrange(len(b))
            b[i] = rng.randrange(256)
        elif how == 2:                          # truncate and repair the envelope length
            cut = rng.randrange(2, len(b))
            inner = bytes(b[:cut])
            hl = 2 if inner[1] < 128 else 2 + (inner[1] & 0x7F)
            b = bytearray(tlv(0x30, inner[hl:]))
        else:                                   # flip a bit
            i = rng.randrange(len(b))
            b[i] ^= 1 << rng.randrange(8)
        out.append(bytes(b))
    return out


# ---------------------------------------------------------------------------------------------

def count_lines(pkg_dir: str, fn):
    lines = 0

    def local(frame, event, arg):
        nonlocal lines
        if event == "line":
            lines += 1
        return local

    def tracer(frame, event, arg):
        if event == "call" and frame.f_code.co_filename.startswith(pkg_dir):
            return local
        return None

    out = "ok"
    sys.settrace(tracer)
    try:
        try:
            fn()
        except RecursionError:
            out = "recursion"
        except NotImplementedError:
            out = "notImpl"
        except ValueError:
            out = "valueError"
        except Exception as e:  # NotEnougData and anything unexpected
            out = type(e).__name__
    finally:
        sys.settrace(None)
    return lines, out


def model_steps(datas):
    inp = "\n".join(d.hex() for d in datas) + "\n"
    p = subprocess.run(["lake", "env", "lean", "--run", os.path.join("..", "harness", "msg_steps_eval.lean")],
                       cwd=os.path.join(ROOT, "lean"), input=inp, capture_output=True, text=True)
    if p.returncode != 0:
        raise SystemExit("lean failed: " + p.stderr[-2000:])
    rows = [l.split() for l in p.stdout.splitlines() if l.strip()]
    if len(rows) != len(datas):
        raise SystemExit(f"lean returned {len(rows)} rows for {len(datas)} inputs: {p.stderr[-500:]}")
    return [(int(a), int(b), c) for a, b, c in rows]


def main():
    ap = argparse.ArgumentParser()
    ap.add_argument("--repo", default=os.environ.get("VERIF_REPO", "/repo"))
    ap.add_argument("--seed", type=int, default=18)
    ap.add_argument("--quick", action="store_true")
    args = ap.parse_args()
    os.environ["VERIF_REPO"] = args.repo
    sys.path.insert(0, os.path.dirname(os.path.abspath(__file__)))
    try:
        from codec import M, sansldap  # library names wherever the package defines them now (harness/names.py)
        from sansldap import asn1
        PackingOptions, unpack_ldap_message = M.PackingOptions, M.unpack_ldap_message
    except Exception as e:  # noqa: BLE001
        print(f"cannot resolve the library names: {type(e).__name__}: {e}")
        return 2
    pkg_dir = os.path.dirname(os.path.abspath(sansldap.__file__))
    sys.setrecursionlimit(20000)

    rng = random.Random(args.seed)
    cases = []
    for name, k, data in families(args.quick):
        cases.append((name, k, data))
        for m in mutants(rng, data, 2 if args.quick else 4):
            cases.append((name + "~", k, m))
    t0 = time.time()
    py = []
    for name, k, data in cases:
        opts = PackingOptions()
        py.append(count_lines(pkg_dir, lambda: unpack_ldap_message(asn1.ASN1Reader(data), opts)))
    t1 = time.time()
    lean = model_steps([c[2] for c in cases])
    t2 = time.time()

    violations = []
    mismatches = []
    worst = (0.0, None)
    per_family = {}
    for (name, k, data), (lines, pout), (s0, s1, lout) in zip(cases, py, lean):
        ratio = max(0, lines - CONST) / (s0 + 1)
        if ratio > worst[0]:
            worst = (ratio, (name, k, len(data), lines, s0))
        fam = per_family.setdefault(name, [])
        fam.append((k, len(data), lines, s0, s1))
        if lines > MULT * s0 + CONST:
            violations.append({"family": name, "k": k, "bytes": len(data), "python_lines": lines,
                               "model_steps": s0, "hex": data.hex()[:200]})
        pcls = "ok" if pout == "ok" else "err"
        lcls = "ok" if lout == "ok" else "err"
        # NotEnougData on the envelope is `notEnough` in the model; other classes: see design notes
        if pcls != lcls:
            mismatches.append({"family": name, "k": k, "python": pout, "model": lout, "hex": data.hex()[:200]})

    # linearity of the python line counts themselves on the well-formed families
    growth = {}
    for name, rows in per_family.items():
        if name.endswith("~"):
            continue
        rows.sort()
        if len(rows) >= 3:
            (k1, n1, l1, *_), (k2, n2, l2, *_) = rows[-2], rows[-1]
            if n2 > n1 and l1 > 0:
                import math
                growth[name] = round(math.log(l2 / l1) / math.log(n2 / n1), 2)
    # the finding: wall time of the two big-integer loops (lines are linear, machine words are not)
    import math
    timing = {}
    for label, mk in (("integer-content", lambda k: envelope(tlv(0x02, b"\x01" * k), UNBIND)),
                      ("tag-number-octets", lambda k: envelope(integer(1), UNBIND, tlv(bytes([0xBF] + [0x81] * k + [0x01]), b""))),
                      ("octet-string-content", lambda k: envelope(integer(1), UNBIND, octets(b"a" * k, 0x8A)))):
        ts = []
        for k in ((10000, 20000, 40000) if args.quick else (20000, 40000, 80000)):
            d = mk(k)
            opts = PackingOptions()
            a = time.perf_counter()
            unpack_ldap_message(asn1.ASN1Reader(d), opts)
            ts.append((k, time.perf_counter() - a))
        timing[label] = {"seconds": [round(t, 4) for _, t in ts],
                         "exponent_last_doubling": round(math.log(max(ts[-1][1], 1e-9) / max(ts[-2][1], 1e-9)) / math.log(2), 2)}
    report = {
        "cases": len(cases),
        "bigint_wall_time": timing,
        "violations": violations[:10],
        "n_violations": len(violations),
        "outcome_mismatches": mismatches[:10],
        "n_outcome_mismatches": len(mismatches),
        "max_lines_minus_const_per_model_step": round(worst[0], 3),
        "attained_at": worst[1],
        "claimed_multiple": MULT,
        "const": CONST,
        "python_line_growth_exponent_last_doubling": growth,
        "seconds_python": round(t1 - t0, 2),
        "seconds_lean": round(t2 - t1, 2),
    }
    print(json.dumps(report, indent=1))
    return 1 if violations or mismatches else 0


if __name__ == "__main__":
    sys.exit(main())
