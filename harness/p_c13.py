"""C13 — filter objects survive conversion to text and back (no filter injection)."""
from __future__ import annotations

import collections
import json

import codec as C
import drive
import p_filter as PF
from codec import sansldap

LEAN_TARGETS = ["Verif.Props.C13", "Verif.Props.Ties", "Verif.Props.C13More"]
SECOND_TIE = {
    "what": "the recursive-descent parser behind LDAPFilter.from_string (_unpack_filter, _unpack_complex_filter, _unpack_simple_filter, "
            "_unpack_filter_extensible_header, _unpack_filter_substrings_value, from_string itself) translated statement by statement from the Python AST "
            "into Lean (harness/py2lean.py -> Generated/FilterGen.lean) and proved equal to the hand-written model of Model/FilterText.lean "
            "(Props/TiesFilter.lean: same tree, same consumed count, same error offset and length, for all inputs and all sufficient fuel); trusted boundary: "
            "_ATTRIBUTE_PATTERN.match = validAttr (tied by Props/Ties.lean), the re.sub-based _unpack_filter_value = the model's unescape, str.strip / encode",
    "translator": "py2lean.py",
    "targets": ["Verif.Props.TiesFilter", "Verif.Props.TiesFilterStr"],
    "validate": "p_filtergen.py",
}
LEVEL = "proof"
ASSUMPTIONS = [
    "domain (WFText): RFC 4512 attribute descriptions / matching rules, non-empty and/or lists, substrings with at least one and no empty "
    "component (RFC 4517 §3.3.30), extensible match with a rule or an attribute, matching rule not the word 'dn'",
]

SAFE = set(range(0x20, 0x7F)) - {0x28, 0x29, 0x2A, 0x5C}


def check_escaped(f, text: str):
    """the text uses only RFC 4515 syntax (an independent recogniser of the grammar: RFC 4512 attribute descriptions and oids, values made
    of `normal` characters — raw UTF-8 included — and \\xx escapes; NUL, parentheses, asterisk, backslash and octets that are not
    well-formed UTF-8 must be escaped)"""
    if not PF.rfc4515_sentence(text):
        return "text form is not derivable from the RFC 4515 grammar (an unescaped special octet, or a malformed component)"
    return None


def direct(j):
    f = C.filter_from_json(j)
    text = str(f)
    try:
        back = sansldap.LDAPFilter.from_string(text)
    except BaseException as e:  # noqa: BLE001
        return {"key": None, "what": f"parsing the filter's own text form raised {type(e).__name__}: {e}"[:200], "filter": j, "text": text}
    if back != f or C.filter_to_json(back) != j:
        return {"key": None, "what": "from_string(str(f)) differs from f", "filter": j, "text": text, "parsed": C.filter_to_json(back)}
    w = check_escaped(f, text)
    if w:
        return {"key": None, "what": w, "filter": j, "text": text}
    return None


def tamper(f):
    """extend every list inside a parse result (what a caller may do with ITS result): returns True if something was changed"""
    changed = False
    if isinstance(f, (sansldap.FilterAnd, sansldap.FilterOr)):
        for x in list(f.filters):
            changed |= tamper(x)
        f.filters.append(sansldap.FilterPresent("injected"))
        changed = True
    elif isinstance(f, sansldap.FilterNot):
        changed |= tamper(f.filter)
    elif isinstance(f, sansldap.FilterSubstrings):
        f.any.append(b"injected")
        changed = True
    return changed


def fresh_results(j):
    """what an earlier caller did to its own parse result must not show in a later parse of the same text"""
    f = C.filter_from_json(j)
    text = str(f)
    try:
        first = sansldap.LDAPFilter.from_string(text)
        if not tamper(first):
            return None
        again = sansldap.LDAPFilter.from_string(text)
    except BaseException:  # noqa: BLE001
        return None      # reported by `direct`
    if again != f:
        return {"key": None, "what": "from_string(str(f)) differs from f after an earlier parse result of the same text was extended by its "
                "caller (parse results are shared)", "filter": j, "text": text, "parsed": C.filter_to_json(again)}
    return None


def reused_object(j, rng):
    """ONE filter object printed, edited in place through its lists (still in the domain: lists only grow, shrink to >= 1 or are reordered),
    printed again: the text is that of its current value and parses back to it"""
    import mutate

    f = C.filter_from_json(j)
    try:
        str(f)
        if not mutate.edit_lists(f, rng):
            return None
        j2 = C.filter_to_json(f)
        text = str(f)
        want = str(C.filter_from_json(j2))
        back = sansldap.LDAPFilter.from_string(text)
    except BaseException:  # noqa: BLE001
        return None      # reported by `direct`
    if text != want or C.filter_to_json(back) != j2:
        return {"key": None, "what": "a filter object that was printed, edited in place through its lists and printed again does not print / parse back as "
                "its current value (text of the first use is kept)", "first_value": j, "filter": j2, "text": text, "fresh_object_text": want}
    return None


def run(ctx):
    rng = ctx.rng
    n = ctx.scale(3000, 200000)
    trees = []
    # every byte value at the boundaries of a value
    for b in range(256):
        trees.append({"k": "eq", "a": C.tx("cn"), "v": bytes([b]).hex()})
        trees.append({"k": "substr", "a": C.tx("cn"), "i": bytes([b, 0x61]).hex(), "any": [bytes([0x61, b]).hex()], "f": bytes([b]).hex()})
        trees.append({"k": "and", "fs": [{"k": "ext", "rule": C.tx("2.5.13.2"), "attr": None, "v": bytes([0x61, b, 0x62]).hex(), "dn": True}]})
    for _ in range(n):
        trees.append(PF.g_tree(rng, rng.choice([0, 1, 2, 3, 4, 6, 8])))
    violations = []
    hist = collections.Counter()
    shapes = set()
    reqs = []
    for n_, j in enumerate(trees):
        if n_ % 400 == 300:
            PF.earlier_failures(rng, hist)       # failed parses in between (refused texts must leave nothing behind)
        hist[j["k"]] += 1
        shapes.add(PF.tree_shape(j))
        v = direct(j)
        if v:
            violations.append(v)
        elif j["k"] in ("and", "or", "not", "substr") and hist["fresh-results"] < ctx.scale(1500, 30000):
            hist["fresh-results"] += 1
            v = fresh_results(j) or reused_object(j, rng)
            if v:
                violations.append(v)
    sub = trees[: 768] + trees[768:: max(1, len(trees) // ctx.scale(2500, 30000))]
    for j in sub:
        reqs.append({"op": "ftext", "filter": j})
        text = str(C.filter_from_json(j))
        reqs.append({"op": "fparse", "cps": [ord(c) for c in text]})
    disagreements = []
    if ctx.driver_ok:
        bad, a, b = drive.correspond(reqs)
        for i, q, x, y in bad[:20]:
            disagreements.append({"request": q, "impl": x, "model": y})
    return {
        "evaluations": len(trees),
        "distinct_nontrivial": len(shapes),
        "rule": "filter trees of all 10 kinds (depth ≤ 8, fan-out ≤ 4) with RFC-valid attribute descriptions (descriptors, numeric OIDs, options) and "
                "values drawn from {empty, every single byte 0-255 at start/middle/end, specials at both ends, injection strings, non-UTF-8, random}; "
                "each is printed, parsed back and compared; for trees with lists the first parse result is extended and the text parsed again, and the object itself is printed, edited in place and printed again; distinct = distinct tree shapes; a sample is replayed on the Lean model (toText and parse)",
        "samples": [{"filter": trees[800], "text": str(C.filter_from_json(trees[800]))}],
        "histogram": dict(sorted(hist.items())),
        "requests": len(reqs),
        "violations": violations,
        "disagreements": disagreements,
    }


def replay(ctx, payload):
    print(json.dumps(payload, indent=1)[:3000])
    if "filter" in payload:
        print("re-run:", direct(payload["filter"]))
    return 0
