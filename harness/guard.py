"""CPU-time guard for calls into the library: a call that stops advancing is interrupted and reported, instead of hanging the check."""
from __future__ import annotations

import signal


class Hang(BaseException):
    """a call did not return within its CPU budget"""


def guarded(fn, seconds=5.0):
    """fn() under a CPU-time limit of this process (ITIMER_VIRTUAL): pure-Python loops that stop advancing are interrupted between
    bytecodes and reported, instead of hanging the check.  Nested use keeps the outer timer's handler."""

    def on_alarm(signum, frame):
        raise Hang()

    old = signal.signal(signal.SIGVTALRM, on_alarm)
    prev = signal.setitimer(signal.ITIMER_VIRTUAL, seconds)
    try:
        return fn()
    finally:
        signal.setitimer(signal.ITIMER_VIRTUAL, *(prev if prev[0] > 0 else (0,)))
        signal.signal(signal.SIGVTALRM, old)
