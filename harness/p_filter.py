"""Shared machinery for the filter-text properties C13, C14, C15: generators of RFC-valid
filter trees, of RFC 4515 sentences (with the tree each denotes), of mutated / random
text, and the direct property oracles."""
from __future__ import annotations

import re

import codec as C
from codec import sansldap
FilterSyntaxError = C.FilterSyntaxError

# RFC 4512 attributedescription / oid, written independently of the library's pattern
NUMBER = r"(?:0|[1-9][0-9]*)"
_RFC_OID = rf"(?:[A-Za-z][A-Za-z0-9-]*|{NUMBER}(?:\.{NUMBER})+)"
RFC_OID = re.compile(rf"{_RFC_OID}\Z")
RFC_ATTR = re.compile(rf"{_RFC_OID}(?:;[A-Za-z0-9-]+)*\Z")
SINGLE_ARC = re.compile(rf"{NUMBER}(?:;[A-Za-z0-9-]+)*\Z")

LEAD = "abcxyzABCXYZ"
KEY = LEAD + "0189-"


def g_number(rng):
    return rng.choice(["0", "1", "2", "9", "10", "840", "113556", "4203"]) if rng.random() < 0.8 else str(rng.randrange(0, 10**12))


def g_oid(rng, numeric=None):
    if numeric is None:
        numeric = rng.random() < 0.35
    if numeric:
        return ".".join(g_number(rng) for _ in range(rng.choice([2, 2, 3, 4, 7])))
    if rng.random() < 0.5:
        return rng.choice(["cn", "objectClass", "sAMAccountName", "o", "test-", "a-b-c", "x1", "dn", "DN", "d", "n", "D", "N", "dnx", "xdn", "d-n", "dN1"])
    return rng.choice(LEAD) + "".join(rng.choice(KEY) for _ in range(rng.choice([0, 1, 2, 5, 12])))


def g_attr(rng):
    a = g_oid(rng)
    for _ in range(rng.choice([0, 0, 0, 1, 2])):
        a += ";" + "".join(rng.choice(KEY) for _ in range(rng.choice([1, 1, 2, 6])))
    return a


SPECIAL_BYTES = [0x00, 0x28, 0x29, 0x2A, 0x5C, 0x7F, 0x80, 0xFF, 0x0A, 0x20, 0x3D, 0x3A, 0x21, 0x26, 0x7C, 0x3C, 0x3E, 0x7E, 0x1F, 0xC3, 0xA9]


def g_value(rng, nonempty=False):
    r = rng.random()
    if r < 0.1 and not nonempty:
        return b""
    if r < 0.3:
        return bytes([rng.choice(SPECIAL_BYTES)])
    if r < 0.5:
        core = bytes(rng.randrange(256) for _ in range(rng.randrange(0, 5)))
        return bytes([rng.choice(SPECIAL_BYTES)]) + core + bytes([rng.choice(SPECIAL_BYTES)])
    if r < 0.58:
        # text that is NOT stable under Unicode normalisation / case mapping / stringprep (written raw in sentences when it is valid UTF-8): the
        # value octets are the UTF-8 of the characters AS WRITTEN
        import gen as _gen
        t_ = rng.choice(_gen.UNSTABLE_TEXTS)
        if rng.random() < 0.3:
            t_ = rng.choice(["\\", "a", ""]) + rng.choice(["\u0301", "\u0338", "\u0323\u0301", "\u212a", "\ufa0e"]) + t_
        return t_.encode("utf-8")
    if r < 0.6:
        return rng.choice([b"\\", b"\\5c", b"\\2a", b"*", b"**", b")(", b"a)(b=c", b"*)(uid=*", b"\xc3\xa9", "日本".encode(), b"a=b", b":dn:", b" x "])
    n = rng.choice([1, 2, 3, 8, 20])
    return bytes(rng.randrange(256) for _ in range(n)) if rng.random() < 0.5 else bytes(rng.choice(b"abcXYZ019 -_.,") for _ in range(n))


def g_tree(rng, depth=4):
    """RFC-valid filter tree (the WFText domain of C13) in canonical JSON"""
    kinds = ["eq", "ge", "le", "approx", "present", "substr", "ext", "ext"]
    if depth > 0:
        kinds += ["and", "or", "not"] * 2
    k = rng.choice(kinds)
    a = C.tx(g_attr(rng))
    if k in ("and", "or"):
        n = rng.choice([1, 1, 2, 3, 4])
        return {"k": k, "fs": [g_tree(rng, depth - 1) for _ in range(n)]}
    if k == "not":
        return {"k": "not", "f": g_tree(rng, depth - 1)}
    if k in ("eq", "ge", "le", "approx"):
        return {"k": k, "a": a, "v": g_value(rng).hex()}
    if k == "present":
        return {"k": "present", "a": a}
    if k == "substr":
        while True:
            i = g_value(rng, True).hex() if rng.random() < 0.5 else None
            anys = [g_value(rng, True).hex() for _ in range(rng.choice([0, 0, 1, 2, 3]))]
            f = g_value(rng, True).hex() if rng.random() < 0.5 else None
            if i is not None or anys or f is not None:
                return {"k": "substr", "a": a, "i": i, "any": anys, "f": f}
    # ext: a rule or an attribute; rule is not the word dn
    while True:
        rule = C.tx(g_oid(rng)) if rng.random() < 0.6 else None      # RFC 4515: matchingrule = oid (no options)
        attr = a if rng.random() < 0.6 else None
        if rule is None and attr is None:
            continue
        if rule is not None and C.untx(rule).lower() == "dn":
            continue
        return {"k": "ext", "rule": rule, "attr": attr, "v": g_value(rng).hex(), "dn": rng.random() < 0.5}


def tree_shape(f):
    if f["k"] in ("and", "or"):
        return (f["k"], tuple(tree_shape(x) for x in f["fs"]))
    if f["k"] == "not":
        return ("not", tree_shape(f["f"]))
    if f["k"] == "substr":
        return ("substr", f["i"] is not None, len(f["any"]), f["f"] is not None)
    if f["k"] == "ext":
        return ("ext", f["rule"] is not None, f["attr"] is not None, f["dn"])
    return f["k"]


# ---------------------------------------------------------------- RFC 4515 sentences

def enc_value(rng, v: bytes) -> str:
    """valueencoding = 0*(normal / escaped): each octet raw when the grammar allows, else \\HH in either case.
    Octets >= 0x80 are written raw only as part of a complete well-formed UTF-8 sequence."""
    out = []
    i = 0
    try:
        v.decode("utf-8")
        utf8_ok = True
    except UnicodeDecodeError:
        utf8_ok = False
    s = v.decode("utf-8") if utf8_ok else None
    if utf8_ok and rng.random() < 0.7:
        for ch in s:
            o = ord(ch)
            must = o in (0x00, 0x28, 0x29, 0x2A, 0x5C)
            if must or rng.random() < 0.25:
                for b in ch.encode("utf-8"):
                    h = f"{b:02x}"
                    out.append("\\" + "".join(c.upper() if rng.random() < 0.5 else c for c in h))   # RFC 4515: each HEX digit has its own case
            else:
                out.append(ch)
        return "".join(out)
    for b in v:
        must = b in (0x00, 0x28, 0x29, 0x2A, 0x5C) or b >= 0x80
        if must or rng.random() < 0.3:
            h = f"{b:02x}"
            out.append("\\" + "".join(c.upper() if rng.random() < 0.5 else c for c in h))
        else:
            out.append(chr(b))
    return "".join(out)


def sp(rng, p=0.25):
    return " " * rng.choice([1, 1, 2, 3]) if rng.random() < p else ""


def sentence(rng, f, deco=True) -> str:
    """one RFC 4515 sentence denoting tree f, with random permitted choices"""
    k = f["k"]
    d = (lambda: sp(rng)) if deco else (lambda: "")
    if k in ("and", "or"):
        sym = "&" if k == "and" else "|"
        return "(" + d() + sym + d() + "".join(sentence(rng, x, deco) + d() for x in f["fs"]) + ")"
    if k == "not":
        return "(" + d() + "!" + d() + sentence(rng, f["f"], deco) + d() + ")"
    a = C.untx(f["a"]) if f.get("a") is not None else None
    if k in ("eq", "ge", "le", "approx"):
        op = {"eq": "=", "ge": ">=", "le": "<=", "approx": "~="}[k]
        return "(" + d() + a + op + enc_value(rng, C.unhx(f["v"])) + ")"
    if k == "present":
        return "(" + d() + a + "=*)"
    if k == "substr":
        parts = [enc_value(rng, C.unhx(f["i"])) if f["i"] is not None else ""]
        parts += [enc_value(rng, C.unhx(x)) for x in f["any"]]
        parts.append(enc_value(rng, C.unhx(f["f"])) if f["f"] is not None else "")
        return "(" + d() + a + "=" + "*".join(parts) + ")"
    if k == "ext":
        h = C.untx(f["attr"]) if f["attr"] is not None else ""
        if f["dn"]:
            h += ":" + rng.choice(["dn", "dn", "DN", "Dn", "dN"])
        if f["rule"] is not None:
            h += ":" + C.untx(f["rule"])
        return "(" + d() + h + ":=" + enc_value(rng, C.unhx(f["v"])) + ")"
    raise ValueError(k)


def outer_spaces(rng, s):
    return sp(rng, 0.2) + s + sp(rng, 0.2)


# ---------------------------------------------------------------- mutations / random text

STRUCT = "()&|!=*\\:<>~; \n\t\x00\x0b\x85\xa0é.-019aAdDnN"


def mutate(rng, s: str) -> str:
    if not s:
        return rng.choice(STRUCT)
    i = rng.randrange(len(s))
    r = rng.random()
    c = rng.choice(STRUCT) if rng.random() < 0.9 else chr(rng.choice([0x2028, 0x3000, 0x1F600, 0x7F, 0x1C, 0xDC80, 0xDCFF, 0xDCC3]))
    if r < 0.34:
        return s[:i] + c + s[i:]
    if r < 0.67:
        return s[:i] + s[i + 1:]
    return s[:i] + c + s[i + 1:]


def random_text(rng) -> str:
    n = rng.choice([0, 1, 2, 3, 4, 5, 6, 8, 12, 20])
    return "".join(rng.choice(STRUCT) for _ in range(n))


FIXED_TEXTS = [
    "(cn\n=x)", "(&(=", "(cn:DN:=x)", "", " ", "()", "(", ")", "(&", "(&)", "(!)", "(a=b", "a=b", "a=b)", "(a=b))", "((a=b))", "(a=b)(c=d)",
    "(=b)", "(a=)", "(a>=)", "(:=b)", "(a:=b)", "(:dn:=b)", "(a::=b)", "(a:dn:dn:=b)", "(a:b:c:=d)", "(a=\\)", "(a=\\4)", "(a=\\4g)", "(a=\\\n41)",
    "(a=**)", "(a=*)", "(a=b*)", "(a=*b)", "(a=b**c)", "(a=\\2a)", "(1=x)", "(1.2=x)", "(01.2=x)", "(a;=x)", "(a;b=x)", "(é=x)", "(a=é)",
    "　(a=b) ", "(!(a=b)(c=d))", "(&(a=b)c=d)", "(|a=b)", "( & (a=b) )", "(a=b )", "( a=b)", "(a =b)", "(!" * 60 + "(a=b)" + ")" * 60,
    "(!" * 3000 + "(a=b)" + ")" * 3000, "(&" * 3000, "(\udc80=a)", "\udcff=a", "(a=\udc80)", "(a:\udc80:=b)", "(:\udce9:=b)", "(a\udc80>=b)", "(a;\udcc3\udca9=x)",
    # things lenient hex readers (bytes.fromhex, int(x, 16)) tolerate after a backslash: whitespace, signs, underscores, non-ASCII digits
    "(a=\\  )", "(cn=a*\\  *b)", "(cn=\\  *b)", "(cn=\\ \t*)", "(a=\\ f)", "(a=\\f )", "(a=\\+f)", "(a=\\-1)", "(a=\\0x)", "(a=\\1_)", "(a=\\_1)",
    "(a=\\\u0663\u0664)", "(a=\\\uff21\uff26)", "(a=x*\\\n\n*y)", "(a=\\\t1)", "(a:=\\  )", "(a>=\\ \x0b)",
    "(cn:dn:=*)", "(cn:caseExactMatch:=*)", "(cn:dn:2.5.13.5:=*)", "(:caseExactMatch:=*)", ":dn:2.5.13.5:=*", "(cn:=*)", "(cn>=*)", "(cn<=*)", "(cn~=*)",
    "(&(a=b)(!(cn;lang-en:DN:caseIgnoreMatch:=*)))", "(1bad x:=*)", "(cn:dn:=**)", "(cn:dn:=\\2a)", "(cn:dn:=* )",
    "(a>~=b)", "(a~>=b)", "(a<=b=c)", "(a=b~=c)", "(0=x)", "(0;o=x)",
    # matching rules: RFC 4515 `matchingrule = oid` has no options; an extensible match needs an attribute or a rule
    "(cn:2.5;x:=v)", "(:caseExactMatch;lang-en:=v)", "(cn:dn:2.5.13.5;binary:=v)", "(:dn:rule;option1-;option2:=value)", "(:dn:=x)", "(:1:=v)", "(cn:1:=v)",
]


# ---- an independent recogniser of RFC 4515 filter strings (strict: no spaces), used to judge the library's own text forms
_NUM = rb"(?:0|[1-9][0-9]*)"
_OID = rb"(?:[A-Za-z][A-Za-z0-9-]*|" + _NUM + rb"(?:\." + _NUM + rb")+)"
_ATTR = _OID + rb"(?:;[A-Za-z0-9-]+)*"
_UTFMB = (rb"(?:[\xc2-\xdf][\x80-\xbf]|\xe0[\xa0-\xbf][\x80-\xbf]|[\xe1-\xec\xee\xef][\x80-\xbf]{2}|\xed[\x80-\x9f][\x80-\xbf]"
          rb"|\xf0[\x90-\xbf][\x80-\xbf]{2}|[\xf1-\xf3][\x80-\xbf]{3}|\xf4[\x80-\x8f][\x80-\xbf]{2})")
_VAL = rb"(?:[\x01-\x27\x2b-\x5b\x5d-\x7f]|\\[0-9a-fA-F]{2}|" + _UTFMB + rb")*"
_ITEM = re.compile(
    rb"(?:" + _ATTR + rb"(?:=|~=|>=|<=)" + _VAL                                  # simple
    + rb"|" + _ATTR + rb"=\*"                                                    # present
    + rb"|" + _ATTR + rb"=" + _VAL + rb"\*(?:" + _VAL + rb"\*)*" + _VAL           # substring
    + rb"|" + _ATTR + rb"(?::dn)?(?::" + _OID + rb")?:=" + _VAL                    # extensible with attribute
    + rb"|(?::dn)?:" + _OID + rb":=" + _VAL + rb")\Z", re.S)


def rfc4515_sentence(text: str) -> bool:
    """is `text` derivable from RFC 4515 `filter` (attribute descriptions and oids per RFC 4512, values as valueencoding)?"""
    try:
        b = text.encode("utf-8")
    except UnicodeEncodeError:
        return False
    pos = 0
    stack = 0          # iterative, so that deep nesting needs no interpreter stack
    need = []          # per open and/or/not: [kind, number of sub-filters seen]
    n = len(b)
    while True:
        if pos >= n or b[pos] != 0x28:
            return False
        pos += 1
        if pos < n and b[pos] in b"&|!":
            need.append([b[pos], 0])
            pos += 1
            continue
        end = b.find(b")", pos)
        if end < 0 or not _ITEM.match(b[pos:end]):
            return False
        pos = end + 1
        # close as many composite filters as end here
        while True:
            if not need:
                return pos == n
            need[-1][1] += 1
            if pos < n and b[pos] == 0x29:
                need.pop()
                pos += 1
                continue
            if need[-1][0] == 0x21:      # not: exactly one sub-filter, then it must close
                return False
            break


from guard import Hang, guarded  # noqa: E402,F401  (CPU-time guard for calls into the library)


# whitespace other than U+0020 (str.isspace() / bytes.isspace() classes, incl. surrogate-escaped 0x85 / 0xA0) at every structural position:
# none of it is padding the library documents; it must be rejected (or parsed) promptly, never looped over
ODD_SPACE = ["\t", "\n", "\r", "\x0b", "\x0c", "\x1c", "\x1d", "\x1e", "\x1f", "\x85", "\xa0", "\u2028", "\u3000", "\udc85", "\udca0", "\t\t", " \t ", "\n "]
for _w in ODD_SPACE:
    FIXED_TEXTS += ["(&" + _w + "(a=b))", "(&(a=b)" + _w + "(c=d))", "(&(a=b)" + _w + ")", "(|" + _w + "(a=b)(c=d))", "(!" + _w + "(a=b))", "(!(a=b)" + _w + ")",
                    "(" + _w + "a=b)", "(" + _w + "&(a=b))", "(a=b)" + _w + "x", "(&(|(a=b)" + _w + "(c=d))(e=f))", "(&\n(a=b)\n(c=d)\n)".replace("\n", _w)]


def check_accept_properties(text, f):
    """C15: whenever the parser accepts, the result is representable: valid attributes / rules, and its own text parses back"""
    out = []

    def walk(x0):
        todo = [x0]            # iterative: a parser that accepts very deep nesting must not make the harness itself overflow the stack
        while todo:
            x = todo.pop()
            if isinstance(x, (sansldap.FilterAnd, sansldap.FilterOr)):
                todo.extend(x.filters)
            elif isinstance(x, sansldap.FilterNot):
                todo.append(x.filter)
            elif isinstance(x, sansldap.FilterExtensibleMatch):
                for nm, val in (("attribute", x.attribute), ("matching rule", x.rule)):
                    if val is not None:
                        classify(nm, val)
            elif hasattr(x, "attribute"):
                classify("attribute", x.attribute)

    def classify(nm, val):
        if nm == "matching rule":
            if RFC_OID.match(val):
                return
            if RFC_ATTR.match(val):
                out.append({"key": "C15:matching-rule-with-options", "what": f"accepted matching rule {val!r} carries options (RFC 4515: matchingrule = oid)",
                            "text": text})
                return
        elif RFC_ATTR.match(val):
            return
        if SINGLE_ARC.match(val):
            out.append({"key": "C15:single-arc-numericoid-attribute", "what": f"accepted {nm} {val!r} is a single-arc numeric OID", "text": text})
        else:
            out.append({"key": None, "what": f"accepted {nm} {val!r} is not RFC 4512-valid", "text": text})

    walk(f)
    nest = text.count("(&") + text.count("(|") + text.count("(!")

    def stack_finding(where):
        # F-C15n: the parser accepts nesting up to the interpreter's stack (≈ 497 levels at the default limit), but printing / comparing
        # the result needs more stack per level — only hundreds of levels of nesting can show this; at ordinary depths it is a plain violation
        out.append({"key": "C15:deep-accepted-filter-text-form-recursion" if nest >= 200 else None,
                    "what": f"the parser accepted a filter nested {nest} levels deep, but {where} raises RecursionError: its own text form cannot be "
                            "produced / parsed back / compared", "text": text[:200] + ("…" if len(text) > 200 else ""), "nesting": nest})
        return out

    try:
        own = str(f)
    except RecursionError:
        return stack_finding("str() of the result")
    try:
        again = sansldap.LDAPFilter.from_string(own)
    except RecursionError:
        return stack_finding("parsing its text form")
    except BaseException as e:  # noqa: BLE001
        out.append({"key": None, "what": f"accepted filter's own text form is rejected: {type(e).__name__}", "text": text, "str": own})
        return out
    try:
        same = again == f
    except RecursionError:
        return stack_finding("comparing the re-parsed result with it")
    if not same:
        out.append({"key": None, "what": "accepted filter's own text form parses to a different filter", "text": text, "str": own})
    return out


def direct_total(text):
    """C15 on one input; returns (violations, outcome-class)"""
    try:
        f = guarded(lambda: sansldap.LDAPFilter.from_string(text))
    except Hang:
        return [{"key": None, "what": "from_string does not return (no result and no error within 5 s of CPU on a short input)", "text": text}], "hang"
    except FilterSyntaxError as e:
        n = len(text.strip().encode("utf-8", errors="surrogateescape"))
        if not (isinstance(e.offset, int) and isinstance(e.length, int) and 0 <= e.offset and 0 <= e.length and e.offset + e.length <= n):
            return [{"key": None, "what": f"FilterSyntaxError span offset={e.offset} length={e.length} lies outside the {n}-byte input", "text": text}], "err"
        return [], "err"
    except BaseException as e:  # noqa: BLE001
        return [{"key": None, "what": f"from_string raised {type(e).__name__} instead of FilterSyntaxError", "text": text}], "exc"
    return check_accept_properties(text, f), "ok"


# ------------------------------------------------------------------ earlier FAILED parses in the same process

def earlier_failures(rng, hist=None):
    """parses that must fail (text nested too deeply, unbalanced / malformed compound texts, bad escapes, bad attribute descriptions), made before
    and between the checked parses: whatever a failed call leaves behind must not change what later calls return"""
    from codec import sansldap

    texts = ["(!" * 5000 + "(cn=a)" + ")" * 5000, "(&" * 3000 + "(cn=a)" + ")" * 3000, "(|" * 700, "(&(|(!(a=b", "(&(a=b)(|(c=d)(!(e=\\zz))))", "(&(a=b)(1bad=x))"]
    for _ in range(40):
        k = rng.choice([1, 3, 10, 40, 120])
        texts.append("".join(rng.choice(["(&", "(|", "(!"]) for _ in range(k)) + rng.choice(["(a=b", "(=x)", "(a=\\g1)", "(a b=c)", "", "(a:=x", "(1x:dn:=v)"]))
        texts.append("(&" + "(a=b)" * rng.choice([1, 5]) + rng.choice(["(", "(x", "(cn:dn:=x)(", "((a=b))", "(a>x)"]))
    n = 0
    for t_ in texts:
        try:
            guarded(lambda: sansldap.LDAPFilter.from_string(t_), 20.0)
        except BaseException:  # noqa: BLE001
            n += 1
    if hist is not None:
        hist["earlier-failed-parses"] += n
    return n
