"""In-place edits of library values, as a caller may make them between two uses of ONE object.

The properties speak about "every message / filter / definition value": the value an object has when it is handed to
pack / str / a session call.  An object that was used once, edited through its (mutable) list fields and used again
has another value the second time; derived data kept from the first use (memoised bytes, cached text, shared parse
results) must not show.  `edit_lists` makes such edits generically, on any dataclass tree."""
from __future__ import annotations

import dataclasses


def _children(obj):
    if dataclasses.is_dataclass(obj) and not isinstance(obj, type):
        for f in dataclasses.fields(obj):
            try:
                yield getattr(obj, f.name)
            except AttributeError:
                continue
    elif isinstance(obj, (list, tuple)):
        yield from obj
    elif isinstance(obj, dict):
        yield from obj.values()


def lists_of(obj, _seen=None, _depth=0):
    """every list reachable from obj through dataclass fields, lists, tuples and dict values (each once, outermost first)"""
    if _seen is None:
        _seen = set()
    out = []
    if _depth > 200 or id(obj) in _seen:
        return out
    _seen.add(id(obj))
    if isinstance(obj, list):
        out.append(obj)
    for c in _children(obj):
        if isinstance(c, (str, bytes, bytearray, int, bool, type(None), memoryview)):
            continue
        out.extend(lists_of(c, _seen, _depth + 1))
    return out


def edit_lists(obj, rng, how=None) -> int:
    """edit some of the non-empty lists inside obj IN PLACE (append a repeat of an element, drop the last of several,
    reverse, rotate); the element types are kept, so the result is again a value of the same type.  Returns the number of lists
    changed.  `how`: None = random choice per list; or one of 'dup', 'pop', 'rev'"""
    n = 0
    for lst in lists_of(obj):
        if not lst:
            continue
        op = how or rng.choice(["dup", "dup", "pop", "rev", "skip"])
        if op == "skip":
            continue
        if op == "pop" and len(lst) < 2:
            op = "dup"
        if op == "rev" and (len(lst) < 2 or lst == lst[::-1]):
            op = "dup"
        if op == "dup":
            lst.append(lst[rng.randrange(len(lst))])
        elif op == "pop":
            lst.pop()
        elif op == "rev":
            lst.reverse()
        n += 1
    return n
