"""C05 — receiving arbitrary bytes either yields messages or fails closed."""
from __future__ import annotations

import collections
import json

import ber
import guard
import codec as C
import drive
import gen
import p_recv as PR
from codec import M, sansldap

LEAN_TARGETS = ["Verif.Props.C05", "Verif.Props.C05More"]
LEVEL = "proof"
ASSUMPTIONS = [
    "the theorem is about the model's inventory of exception sites; the correspondence compares the exception *class* escaping receive, so an "
    "exception the model does not anticipate shows up as a disagreement and is itself the witness",
    "the interpreter's recursion limit is modelled as a universally quantified depth budget; generated nesting is ≤ 100 or ≥ 2000 levels",
]


def on_worker_thread(fn):
    """fn() on a thread other than the one that imported the library (sessions are often driven from worker threads); returns its result or
    re-raises what it raised"""
    import threading

    box = {}

    def run():
        try:
            box["r"] = fn()
        except BaseException as e:  # noqa: BLE001
            box["e"] = e

    t_ = threading.Thread(target=run)
    t_.start()
    t_.join(60)
    if t_.is_alive():
        raise guard.Hang()
    if "e" in box:
        raise box["e"]
    return box.get("r")


_N_CALLS = [0]


def fail_closed(prep, chunks):
    """the property statement on one input; returns (violations, outcome class, notifications to verify).  Every fifth input is delivered from a
    worker thread (no CPU guard there: signals are delivered to the main thread)"""
    _N_CALLS[0] += 1
    if _N_CALLS[0] % 5 == 0 and len(chunks) <= 8:
        return on_worker_thread(lambda: _fail_closed(prep, chunks, threaded=True))
    return _fail_closed(prep, chunks)


def _fail_closed(prep, chunks, threaded=False):
    im, s = PR.fresh(prep)
    role = "client" if prep.startswith("client") else "server"
    notif = []
    for idx, ch in enumerate(chunks):
        try:
            (s.receive(bytes(ch)) if threaded else guard.guarded(lambda: s.receive(bytes(ch)), 5.0))
        except sansldap.ProtocolError as e:
            out = []
            if s.state.name != "CLOSED":
                out.append({"key": None, "what": f"after ProtocolError the session reports {s.state.name}, not CLOSED", "call": idx})
            try:
                s.receive(b"\x30\x00")
                out.append({"key": None, "what": "a session closed by a protocol error accepted further input", "call": idx})
            except sansldap.ProtocolError:
                pass
            except BaseException as e2:  # noqa: BLE001
                out.append({"key": None, "what": f"receive on the closed session raised {type(e2).__name__}", "call": idx})
            if e.response is not None:
                notif.append((role, bytes(e.response)))
            return out, "ProtocolError", notif
        except BaseException as e:  # noqa: BLE001
            return [{"key": None, "what": f"receive raised {type(e).__name__} instead of ProtocolError (state {s.state.name})" + (" on a worker thread" if threaded else ""),
                     "call": idx}], "other", notif
    return [], "msgs", notif


def run(ctx):
    rng = ctx.rng
    violations = []
    hist = collections.Counter()
    distinct = set()
    evaluations = 0
    reqs = []
    hid = 0
    inputs = []
    for f in PR.FIXED_BAD:
        for prep in PR.PREPS:
            inputs.append((prep, bytes.fromhex(f), "fixed"))
    inputs.append(("server_fresh", PR.paged_without_value(), "fixed"))
    for kind in ("not", "and", "or"):
        for depth in (50, 100, 2500, 5000):
            inputs.append(("server_mid", PR.nesting_bomb(kind, depth), "nesting"))
            inputs.append(("client_mid", PR.nesting_bomb(kind, depth), "nesting"))
    for _ in range(ctx.scale(300, 20000)):
        n = rng.choice([1, 2, 3, 5, 8, 16, 40])
        inputs.append((rng.choice(PR.PREPS), bytes(rng.randrange(256) for _ in range(n)), "random"))
    for _ in range(ctx.scale(200, 8000)):
        prep = rng.choice(PR.PREPS)
        j = gen.g_msg(rng, depth=3)
        data = C.msg_from_json(j).pack(M.PackingOptions())
        if len(data) > 3000:
            continue
        inputs.append((prep, data, "valid-any-kind"))
        for _ in range(ctx.scale(6, 25)):
            inputs.append((prep, PR.corrupt_bytes(rng, data), "byte-corruption"))
        for _ in range(ctx.scale(4, 15)):
            bad = PR.corrupt_interior(rng, data)
            if bad is not None:
                inputs.append((prep, bad, "node-corruption"))
        for _ in range(ctx.scale(4, 12)):
            bad = PR.corrupt_text(rng, data)
            if bad is not None:
                inputs.append((prep, bad, "non-utf8-content"))
        alt = PR.reencode_lenforms(rng, data)
        if alt is not None:
            inputs.append((prep, alt, "length-forms"))
    for prep in PR.PREPS:
        for kind in ("extResp", "bindResp", "searchDone", "bindReq", "extReq", "unbind"):
            for _ in range(ctx.scale(3, 30)):
                op = gen.g_op(rng, kind, depth=1)
                if kind == "extResp" and rng.random() < 0.7:
                    op["name"] = C.tx(PR.NOTICE)
                data = C.msg_from_json({"id": rng.choice([0, 1, 2, 3]), "op": op, "controls": []}).pack(M.PackingOptions())
                inputs.append((prep, data, "session-kinds"))
                for _ in range(3):
                    bad = PR.corrupt_text(rng, data)
                    if bad is not None:
                        inputs.append((prep, bad, "non-utf8-content"))
    # several well-formed messages in a row that reuse the ids the prepared session has in progress, in every combination of kinds
    # (a response of a foreign kind on a search id, the same final response twice, requests to a client, ...)
    for _ in range(ctx.scale(600, 12000)):
        prep = rng.choice(["client_mid", "client_mid", "server_mid", "server_binding", "client_fresh"])
        n = rng.choice([2, 2, 3, 4])
        parts_ = []
        for _ in range(n):
            kind = rng.choice(["extResp", "bindResp", "searchDone", "searchEntry", "searchRef", "extReq", "bindReq", "searchReq", "unbind"])
            op = gen.g_op(rng, kind, depth=1)
            parts_.append(C.msg_from_json({"id": rng.choice([1, 2, 2, 3, 0, 4]), "op": op, "controls": []}).pack(M.PackingOptions()))
        inputs.append((prep, b"".join(parts_), "id-sequences"))
    # numbers beyond CPython's int -> str conversion limit (4300 digits): message ids, result codes, sizes, tag numbers, each in an otherwise
    # well-formed message (anything that formats such a number into an error text must still fail closed) — implementation only
    def tlv(tag, content):
        return bytes([tag]) + ber.enc_len(len(content)) + content

    for digits in (4299, 4301, 4400, 9000):
        big = (10 ** digits).to_bytes((10 ** digits).bit_length() // 8 + 1, "big", signed=True)
        neg = (-(10 ** digits)).to_bytes((10 ** digits).bit_length() // 8 + 1, "big", signed=True)
        for num in (big, neg):
            ext_resp = tlv(0x78, tlv(0x0A, b"\0") + tlv(4, b"") + tlv(4, b""))
            msgs_ = [tlv(0x30, tlv(2, num) + ext_resp),                                                     # response with a huge id
                     tlv(0x30, tlv(2, num) + tlv(0x77, tlv(0x80, b"1.2"))),                                  # request with a huge id
                     tlv(0x30, tlv(2, b"\x01") + tlv(0x78, tlv(0x0A, num) + tlv(4, b"") + tlv(4, b""))),     # huge result code
                     tlv(0x30, tlv(2, b"\x01") + tlv(0x60, tlv(2, num) + tlv(4, b"") + tlv(0x80, b""))),     # huge bind version
                     tlv(0x30, tlv(2, b"\x02") + tlv(0x63, tlv(4, b"") + tlv(0x0A, num) + tlv(0x0A, b"\0") + tlv(2, b"\0") + tlv(2, b"\0")
                                                     + tlv(1, b"\0") + tlv(0x87, b"cn") + tlv(0x30, b""))),   # huge scope
                     tlv(0x30, tlv(2, b"\x02") + tlv(0x63, tlv(4, b"") + tlv(0x0A, b"\0") + tlv(0x0A, b"\0") + tlv(2, num) + tlv(2, b"\0")
                                                     + tlv(1, b"\0") + tlv(0x87, b"cn") + tlv(0x30, b"")))]   # huge size limit
            for m_ in msgs_:
                for prep in ("client_mid", "client_fresh", "server_fresh", "server_mid", "server_binding"):
                    inputs.append((prep, m_, "huge-int"))
                    inputs.append((prep, m_ + m_, "huge-int"))
    # messages of several MiB that arrive in many reads (more than 1, 4, 16 MiB pending before they complete), well-formed and with a corrupted
    # interior: whatever a session does about sizes, an error it raises closes it (implementation only: too large for the line protocol)
    huge = []
    for mib in (ctx.scale((5,), (2, 5, 17))):
        body = bytes(mib * 1024 * 1024)
        good = C.msg_from_json({"id": 1, "op": {"k": "extReq", "name": C.tx("1.2.3"), "value": None}, "controls": []}).pack(M.PackingOptions())
        big = tlv(0x30, tlv(2, b"\x05") + tlv(0x77, tlv(0x80, b"1.2.3") + tlv(0x81, body)))
        bad = tlv(0x30, tlv(2, b"\x05") + tlv(0x77, tlv(0x80, b"1.2.3") + tlv(0x81, body) + b"\x04\x05ab"))
        for prep in ("server_fresh", "server_mid", "client_mid"):
            for d_ in (big + good, bad + good):
                step = 1024 * 1024
                huge.append((prep, d_, [d_[i: i + step] for i in range(0, len(d_), step)]))
                huge.append((prep, d_, [d_[:7]] + [d_[7 + i: 7 + i + 3 * step] for i in range(0, len(d_) - 7, 3 * step)]))
    notifs = []
    samples = []
    for prep, data, chunks in huge:
        evaluations += 1
        v, cls, nf = fail_closed(prep, chunks)
        hist[f"huge-split:{cls}"] += 1
        notifs.extend((r, b, prep, data[:64]) for r, b in nf)
        for x in v:
            x.update({"prep": prep, "stream": f"{len(data)} octets: an ExtendedRequest with a value of {len(data) >> 20} MiB (+ a small message), delivered in "
                      f"{len(chunks)} reads of {len(chunks[1])} octets", "chunks": None})
            violations.append(x)
    for prep, data, kind in inputs:
        if len(violations) > 25:
            break                      # enough witnesses (each hanging input costs its whole CPU budget)
        parts = [[data]]
        if rng.random() < 0.3 and data:
            parts += ber.chunkings(rng, data, 1)
        for chunks in parts:
            evaluations += 1
            v, cls, nf = fail_closed(prep, chunks)
            hist[f"{kind}:{cls}"] += 1
            distinct.add((prep, data))
            notifs.extend((r, b, prep, data) for r, b in nf)
            for x in v:
                x.update({"prep": prep, "stream": data.hex()[:4000], "chunks": [c.hex() for c in chunks] if len(data) < 4000 else None})
                violations.append(x)
            if hid < ctx.scale(2500, 30000) and kind != "huge-int":     # (such numbers cannot be written as JSON under the same limit)
                reqs.extend(PR.history_requests(prep, f"h{hid}", chunks))
                hid += 1
    samples.append({"prep": inputs[-1][0], "bytes": inputs[-1][1].hex()[:200], "kind": inputs[-1][2]})
    samples.append({"prep": "server_mid", "bytes": "2500 nested NOT filters inside a SearchRequest", "kind": "nesting"})
    disagreements = []
    if ctx.driver_ok:
        # the attached notification must be a well-formed notice of disconnection / unbind: strict RFC decoder
        uniq = {}
        for role, b, prep, data in notifs:
            uniq.setdefault((role, b), (prep, data))
        keys = list(uniq)
        reps = drive.run_model([{"op": "rfcdec", "hex": b.hex()} for _, b in keys]) if keys else []
        patched = []
        for (role, b), rep in zip(keys, reps):
            prep, data = uniq[(role, b)]
            ok = False
            if "ok" in rep:
                m = rep["ok"]
                if role == "server":
                    op = m["op"]
                    # RFC 4511 §4.4.1: message id 0, an ExtendedResponse named 1.3.6.1.4.1.1466.20036, no response value (the result code
                    # says why, and is not prescribed by the property)
                    ok = (m["id"] == 0 and op["k"] == "extResp" and op.get("name") is not None
                          and C.untx(op["name"]) == PR.NOTICE and op.get("value") is None)
                else:
                    ok = m["op"]["k"] == "unbind"
            if ok:
                continue
            if role == "client" and b == bytes.fromhex("30050201006200"):
                patched.append((role, b, prep, data))
                continue
            violations.append({"key": None, "what": f"the notification attached to the ProtocolError is not a well-formed "
                               f"{'notice of disconnection' if role == 'server' else 'unbind request'}", "notification": b.hex(),
                               "prep": prep, "stream": data.hex()[:4000], "strict_decoder": rep})
        if patched:
            rep = drive.run_model([{"op": "rfcdec", "hex": "30050201004200"}])[0]
            if "ok" in rep and rep["ok"]["op"]["k"] == "unbind":
                role, b, prep, data = patched[0]
                violations.append({"key": "C05:client-unbind-notification-constructed", "what": "client unbind notification is 62 00 (constructed)",
                                   "notification": b.hex(), "prep": prep, "stream": data.hex()[:400]})
        bad, a, b2 = drive.correspond(reqs)
        for i, q, x, y in bad[:10]:
            disagreements.append({"request": q, "impl": x, "model": y})
    return {
        "evaluations": evaluations,
        "distinct_nontrivial": len(distinct),
        "rule": "inputs: fixed past witnesses, random bytes, every kind of valid message, single-octet corruptions (bit flips, 00/80/FF/1F, insert, "
                "delete, truncate, length octet edits) and single-node corruptions (length over/under-run, dropped component, truncated or emptied "
                "primitive, tag class/number/form changes) of generated messages, NOT/AND/OR nesting bombs of depth 50/100/2500/5000; each delivered "
                "whole and in a random chunking to client and server sessions in five prior states; checked: only a message list or ProtocolError, "
                "CLOSED afterwards, further input refused, attached notification read back by the strict RFC decoder; the same histories are replayed "
                "on the Lean model and exception classes / states compared; distinct = (prior state, byte string)",
        "samples": samples,
        "histogram": dict(sorted(hist.items())),
        "requests": len(reqs),
        "violations": violations,
        "disagreements": disagreements,
    }


def replay(ctx, payload):
    print(json.dumps({k: v for k, v in payload.items() if k not in ("chunks",)}, indent=1)[:2000])
    if payload.get("chunks"):
        print("re-run:", fail_closed(payload["prep"], [bytes.fromhex(c) for c in payload["chunks"]])[:2])
    return 0
