"""C17 — schema text is parsed as RFC 4512 defines it."""
from __future__ import annotations

import collections
import json

import drive
import p_schema as PS

LEAN_TARGETS = ["Verif.Props.C17", "Verif.Props.Ties", "Verif.Props.TiesSchema"]
SECOND_TIE = {
    "what": "the hand-written Python around the description regexes of schema.py (_encode_oids, _encode_qdstring, _parse_oids, _parse_qdstring, "
            "_parse_extensions with _extract_qdstring, and __str__ / from_string of the three description classes after PATTERN.match) translated "
            "statement by statement from the Python AST into Lean (harness/py2lean_schema.py -> Generated/SchemaGen.lean) and proved equal to the "
            "hand-written model of Model/Schema.lean (Props/TiesSchemaCode.lean); trusted boundary: PATTERN.match / m.group = the model's scanner "
            "(tied to the compiled patterns by Props/TiesSchema.lean), the two re.sub calls = the model's quoted-string escape / unescape; side "
            "conditions stated and their outside proved: int <-> str beyond 4300 digits, _parse_oids on white space other than blanks (unreachable from from_string)",
    "translator": "py2lean_schema.py",
    "targets": ["Verif.Props.TiesSchemaCode"],
    "validate": "p_schemagen.py",
}
LEVEL = "proof"
ASSUMPTIONS = [
    "the reference is a generator over (definition, layout) that walks the RFC 4512 grammars — every WSP/SP count, bare vs parenthesised lists, "
    "\\5c vs \\5C, X- vs x-, the quoted SYNTAX of Active Directory — so every sentence comes with the definition it denotes",
    "int(len) of a SYNTAX length beyond CPython's 4300-digit limit raises ValueError (still the permitted exception)",
]


def direct(kind, d, text):
    try:
        got = PS.CLS[kind].from_string(text)
    except BaseException as e:  # noqa: BLE001
        return {"key": None, "what": f"a sentence of the RFC 4512 grammar is rejected: {type(e).__name__}", "kind": kind, "text": text,
                "def": PS.def_to_json(d)}
    if got != d:
        return {"key": None, "what": "the parser returns a different definition than the grammar denotes", "kind": kind, "text": text,
                "def": PS.def_to_json(d), "parsed": PS.def_to_json(got)}
    # the caller edits every list inside ITS result in place (names, OID lists, the value lists of the extensions); the same sentence still
    # denotes the same definition
    import mutate

    want = PS.def_to_json(d)
    if mutate.edit_lists(got, _RNG, "dup"):
        for v in (got.extensions or {}).values() if isinstance(getattr(got, "extensions", None), dict) else []:
            v.append("injected")
        try:
            again = PS.CLS[kind].from_string(text)
        except BaseException as e:  # noqa: BLE001
            return {"key": None, "what": f"a second parse of the same sentence raised {type(e).__name__}", "kind": kind, "text": text, "def": want}
        if PS.def_to_json(again) != want:
            return {"key": None, "what": "the parser returns a different definition than the grammar denotes after the caller edited the lists of an earlier "
                    "parse result in place (parts of parse results are shared)", "kind": kind, "text": text, "def": want, "parsed": PS.def_to_json(again)}
    return None


import random as _random

_RNG = _random.Random(17)


def total(kind, text):
    try:
        PS.CLS[kind].from_string(text)
        return None, "ok"
    except ValueError:
        return None, "ValueError"
    except BaseException as e:  # noqa: BLE001
        return {"key": None, "what": f"from_string raised {type(e).__name__} (neither a definition nor ValueError)", "kind": kind, "text": text}, "other"


GROUP_PATTERNS = {"oc": "schema_OBJECT_CLASS_DESCRIPTION", "at": "schema_ATTRIBUTE_TYPE_DESCRIPTION", "dcr": "schema_DIT_CONTENT_RULE_DESCRIPTION",
                  "noidlen": "schema_NOIDLEN_MATCH"}
FLAG_GROUPS = {"obsolete", "single_value", "collective", "no_user_modification"}


def group_tie(ctx, texts, hist):
    """three-way comparison on the `PATTERN.match` step alone: CPython's engine on the compiled pattern, the translated pattern under the
    capture-aware Lean semantics (Re.matchG), and the model's scanner (matchOC / matchAT / matchDCR / noidlenMatch)"""
    import re

    import translate_re as TR

    pats = {name: re.compile(pat, flags) for name, pat, flags in TR.capture()}
    out = []
    reqs, meta = [], []
    for kind, text in texts:
        name = GROUP_PATTERNS[kind]
        if name not in pats:
            continue
        m = pats[name].match(text)
        py = None if m is None else {k: (None if v is None else PS.cps(v)) for k, v in m.groupdict().items() if k != "xstring"}
        reqs.append({"op": "rematchg", "name": name, "cps": PS.cps(text)})
        reqs.append({"op": "schemamatch", "kind": kind, "cps": PS.cps(text)})
        meta.append((kind, text, py))
        hist["grouptie:" + kind + (":match" if m else ":nomatch")] += 1
    if not reqs:
        return out, 0
    got = drive.run_model(reqs)
    for i, (kind, text, py) in enumerate(meta):
        rg, sm = got[2 * i], got[2 * i + 1]
        lean_re = None if rg.get("end") is None else {k: v for k, v in (rg.get("groups") or {}).items() if k != "xstring"}
        scan = sm.get("groups")

        def flags(d):
            return None if d is None else {k: ((v is not None and v is not False) if k in FLAG_GROUPS else v) for k, v in d.items()}

        if flags(py) != flags(lean_re):
            out.append({"what": "the translated pattern (Lean semantics with captures) and CPython's re disagree on match()/groups", "kind": kind,
                        "text": text[:300], "python": py, "lean_pattern": lean_re})
        elif flags(lean_re) != flags(scan):
            out.append({"what": "the model's scanner and the compiled pattern disagree on match()/groups (tie theorem of Props/TiesSchema is false here)",
                        "kind": kind, "text": text[:300], "pattern": lean_re, "scanner": scan})
        if len(out) > 10:
            break
    return out, len(meta)


def run(ctx):
    rng = ctx.rng
    violations = []
    hist = collections.Counter()
    distinct = set()
    reqs = []
    cases = []
    for _ in range(ctx.scale(3000, 150000)):
        kind = rng.choice(["oc", "at", "dcr"])
        d = PS.g_def(rng, kind)
        if not PS.valid_for_grammar(d):
            continue
        cases.append((kind, d, PS.render(rng, kind, d)))
    for kind, d, text in cases:
        hist["sentence:" + kind] += 1
        distinct.add((kind, text))
        v = direct(kind, d, text)
        if v:
            violations.append(v)
    texts = [(k, t) for k in ("oc", "at", "dcr") for t in PS.FIXED]
    for kind, d, text in cases[: ctx.scale(300, 8000)]:
        for _ in range(ctx.scale(5, 15)):
            texts.append((kind, PS.mutate(rng, text)))
    for _ in range(ctx.scale(500, 20000)):
        texts.append((rng.choice(["oc", "at", "dcr"]), "".join(rng.choice(PS.STRUCT) for _ in range(rng.choice([1, 3, 6, 12, 30])))))
    for kind, text in texts:
        v, cls = total(kind, text)
        hist["totality:" + cls] += 1
        distinct.add((kind, text))
        if v:
            violations.append(v)
    for kind, d, text in cases[:: max(1, len(cases) // ctx.scale(2000, 20000))]:
        reqs.append({"op": "sparse", "kind": kind, "cps": PS.cps(text)})
    for kind, text in texts[: ctx.scale(4000, 40000)]:
        reqs.append({"op": "sparse", "kind": kind, "cps": PS.cps(text)})
    disagreements = []
    n_tie = 0
    if ctx.driver_ok:
        bad, a, b = drive.correspond(reqs)
        for i, q, x, y in bad[:20]:
            disagreements.append({"request": {"op": "sparse", "kind": q["kind"], "text": PS.uncps(q["cps"])[:300]}, "impl": x, "model": y})
        tie_texts = [(k, t) for k, d, t in cases[: ctx.scale(600, 12000)]] + texts[: ctx.scale(2500, 40000)]
        for _ in range(ctx.scale(300, 6000)):
            tie_texts.append(("noidlen", PS.g_numericoid(rng) + rng.choice(["{5}", "{05}", "{", "", "{12}x", "{0}", "{10}", "}", "{1}{2}"])))
            tie_texts.append(("noidlen", "".join(rng.choice("0123.{}a ") for _ in range(rng.randrange(0, 9)))))
        tie_texts = [(k, t) for k, t in tie_texts if len(t) < 400]
        tie_bad, n_tie = group_tie(ctx, tie_texts, hist)
        disagreements += tie_bad
    return {
        "evaluations": len(cases) + len(texts),
        "distinct_nontrivial": len(distinct),
        "rule": "grammar clause: sentences rendered from generated definitions with random layout (every WSP 0-4 / SP 1-3, bare vs parenthesised singleton "
                "lists, escape case, X-/x-, optional explicit STRUCTURAL / userApplications, quoted SYNTAX) must parse to their definition; totality clause: "
                "fixed corner cases, single-character edits of sentences and random strings must give a definition or ValueError; all inputs are also "
                "parsed by the Lean model (scanner) and results compared; the match step alone is compared three ways (CPython re / translated pattern with "
                "captures / scanner) on every named group; distinct = distinct (type, string)",
        "samples": [{"kind": cases[0][0], "sentence": cases[0][2]}, {"kind": texts[-1][0], "text": texts[-1][1]}],
        "histogram": dict(sorted(hist.items())),
        "requests": len(reqs) + 2 * n_tie,
        "violations": violations,
        "disagreements": disagreements,
    }


def replay(ctx, payload):
    print(json.dumps(payload, indent=1)[:3000])
    if "def" in payload:
        print("re-run:", direct(payload["kind"], PS.def_from_json(payload["kind"], payload["def"]), payload["text"]))
    elif "text" in payload:
        print("re-run:", total(payload["kind"], payload["text"]))
    return 0
