"""Translator for regular expressions: captures every pattern the library compiles (by
wrapping re._compile while importing and exercising the package), parses each with CPython's
own re._parser (so flags such as re.VERBOSE / re.IGNORECASE are interpreted by the code the
library runs), and emits Lean `Re` terms into Generated/Regexes.lean.

Character classes are emitted extensionally: the exact set of code points the compiled class
matches under the pattern's flags (computed by running CPython's engine over all code points),
as a sorted list of inclusive intervals.  Anything the Lean `Re` type cannot express
(back-references, look-around, lazy repeats, anchors in the middle) makes the translator emit
`Re.unsupported`, for which no cost theorem can be proved."""
from __future__ import annotations

import os
import re
import sys

REPO = os.environ.get("VERIF_REPO", "/repo")
if os.path.join(REPO, "src") not in sys.path:
    sys.path.insert(0, os.path.join(REPO, "src"))

import re._compiler as _compiler  # noqa: E402
import re._constants as K  # noqa: E402
import re._parser as P  # noqa: E402

_ALL_STR = None
_ALL_BYTES = bytes(range(256))


def _all_str():
    global _ALL_STR
    if _ALL_STR is None:
        _ALL_STR = "".join(map(chr, range(0x110000)))
    return _ALL_STR


_class_cache = {}


def class_points(item, state, flags, is_bytes):
    """code points matched by a single-character item under the pattern's flags"""
    key = (repr(item), int(flags), is_bytes)
    if key in _class_cache:
        return _class_cache[key]
    sub = P.SubPattern(state, [item])
    pat = _compiler.compile(sub, flags & ~re.VERBOSE)
    if is_bytes:
        pts = [m.start() for m in pat.finditer(_ALL_BYTES)]
    else:
        pts = [m.start() for m in pat.finditer(_all_str())]
    _class_cache[key] = pts
    return pts


def intervals(pts):
    out = []
    for p in pts:
        if out and out[-1][1] == p - 1:
            out[-1][1] = p
        else:
            out.append([p, p])
    return [(a, b) for a, b in out]


class Unsupported(Exception):
    pass


def lean_cls(ivs):
    return "(.cls [" + ", ".join(f"({a}, {b})" for a, b in ivs) + "])"


def cat_all(parts):
    parts = [p for p in parts if p != ".eps"]
    if not parts:
        return ".eps"
    out = parts[-1]
    for p in reversed(parts[:-1]):
        out = f"(.cat {p} {out})"
    return out


KEEP_GROUPS = False   # set while emitting the `_g` variant: named capturing groups are kept as `.group <index> …`


def tr_seq(items, state, flags, is_bytes, top=False):
    parts = []
    n = len(items)
    for idx, (op, av) in enumerate(items):
        if op is K.AT:
            if av is K.AT_BEGINNING and top and idx == 0:
                continue            # implied by re.match; the library only uses match() / sub() with these
            if av is K.AT_BEGINNING_STRING and top and idx == 0:
                continue
            if av is K.AT_END_STRING and top and idx == n - 1:
                parts.append(".eos")
                continue
            if av is K.AT_END and top and idx == n - 1:
                parts.append(".eosNl")
                continue
            raise Unsupported(f"anchor {av} not at the pattern boundary")
        parts.append(tr_item(op, av, state, flags, is_bytes))
    return cat_all(parts)


def tr_item(op, av, state, flags, is_bytes):
    if op in (K.LITERAL, K.NOT_LITERAL, K.IN, K.ANY):
        return lean_cls(intervals(class_points((op, av), state, flags, is_bytes)))
    if op is K.SUBPATTERN:
        group, add_flags, del_flags, p = av
        if add_flags or del_flags:
            raise Unsupported("inline flags")
        inner = tr_seq(list(p), state, flags, is_bytes)
        # capturing groups do not change what is matched or how the search proceeds; they are dropped so that repeated
        # sub-patterns are syntactically identical terms (the driver compares match positions, not captures);
        # the `_g` variant keeps the NAMED groups (the only ones the library reads), numbered as CPython numbers them
        if KEEP_GROUPS and group is not None and group in state.groupdict.values():
            return f"(.group {group} {inner})"
        return inner
    if op is K.BRANCH:
        _, alts = av
        ts = [tr_seq(list(a), state, flags, is_bytes) for a in alts]
        out = ts[-1]
        for t in reversed(ts[:-1]):
            out = f"(.alt {t} {out})"
        return out
    if op is K.MAX_REPEAT:
        lo, hi, p = av
        body = tr_seq(list(p), state, flags, is_bytes)
        parts = [body] * lo
        if hi is K.MAXREPEAT:
            parts.append(f"(.star {body})")
        else:
            if hi - lo > 8:
                raise Unsupported("large bounded repeat")
            opt = ".eps"
            for _ in range(hi - lo):
                opt = f"(.alt {cat_all([body, opt])} .eps)"
            if hi > lo:
                parts.append(opt)
        return cat_all(parts)
    raise Unsupported(f"construct {op}")


def translate(pattern, flags, keep_groups=False):
    global KEEP_GROUPS
    is_bytes = isinstance(pattern, bytes)
    parsed = P.parse(pattern, flags)
    state = parsed.state
    eff = parsed.state.flags
    KEEP_GROUPS = keep_groups
    try:
        return tr_seq(list(parsed), state, eff, is_bytes, top=True), int(eff)
    finally:
        KEEP_GROUPS = False


def named_groups(pattern, flags):
    """[(name, index)] of the named groups of a pattern, in index order"""
    parsed = P.parse(pattern, flags)
    return sorted(parsed.state.groupdict.items(), key=lambda kv: kv[1])


def capture():
    """import and exercise the library with re._compile wrapped; returns [(name, pattern, flags)]"""
    captured = []
    orig = re._compile

    def wrap(pattern, flags):
        r = orig(pattern, flags)
        f = sys._getframe(1)
        site = None
        # the first frame outside the re package decides: library code itself, or base64 (called by the library with library data)
        while f is not None and os.path.basename(os.path.dirname(f.f_code.co_filename)) == "re":
            f = f.f_back
        via_base64 = False
        if f is not None and os.path.basename(f.f_code.co_filename) == "base64.py":
            via_base64 = True
            while f is not None and "/sansldap/" not in f.f_code.co_filename:
                f = f.f_back
        if f is not None and "/sansldap/" in f.f_code.co_filename:
            site = os.path.basename(f.f_code.co_filename)[:-3].strip("_") + "_" + f.f_code.co_name.strip("_<>") + ("_base64" if via_base64 else "")
        if site is not None:
            captured.append((site, pattern if isinstance(pattern, (str, bytes)) else pattern.pattern, int(flags)))
        return r

    # the library is imported afresh so that its module-level patterns are compiled under the wrapper; the modules the
    # rest of the harness already holds are put back afterwards (two copies of the package in one process would make
    # exception classes and enums of the copies compare unequal)
    saved = {k: v for k, v in sys.modules.items() if k == "sansldap" or k.startswith("sansldap.")}
    for m in saved:
        del sys.modules[m]
    re._compile = wrap
    try:
        re.purge()
        import sansldap
        from sansldap import schema as S

        d = S.ObjectClassDescription("1.2", description="a'b\\", extensions={"a": ["x"]})
        S.ObjectClassDescription.from_string(str(d))
        S.AttributeTypeDescription.from_string("( 1.2 SYNTAX 1.3{5} X-a 'b\\27' )")
        S.DITContentRuleDescription.from_string("( 1.2 )")
        sansldap.LDAPFilter.from_string("(a=\\41*)")
        str(sansldap.FilterEquality("a", b"\x00"))
    finally:
        re._compile = orig
        fresh = {k: v for k, v in sys.modules.items() if k == "sansldap" or k.startswith("sansldap.")}
        for m in fresh:
            del sys.modules[m]
        sys.modules.update(saved)
    # module-level patterns get their attribute names
    names = {}
    for modname, mod in sorted(fresh.items()):
        short = modname.rsplit(".", 1)[-1].strip("_")
        for attr in dir(mod):
            v = getattr(mod, attr, None)
            if isinstance(v, re.Pattern):
                names.setdefault((v.pattern, int(v.flags) & ~re.UNICODE), short + "_" + attr.strip("_"))
    out = []
    seen = {}
    stable = stable_names()
    for site, pat, flags in captured:
        key = (pat, flags)
        if key in seen:
            continue
        # a pattern whose text and flags are unchanged keeps the name its theorems use, wherever the library now compiles it
        # (a helper renamed, a pattern hoisted to a module constant); a changed or new pattern gets a name derived from where it is compiled
        name = stable.get((repr(pat), int(flags)))
        if name is None:
            name = names.get((pat, flags & ~re.UNICODE)) or names.get((pat, re.compile(pat, flags).flags & ~re.UNICODE))
        if name is None:
            name = site
        base = name
        k = 2
        while name in seen.values():
            name = f"{base}_{k}"
            k += 1
        seen[key] = name
        out.append((name, pat, flags))
    return out


NAMES_FILE = os.path.join(os.path.dirname(os.path.abspath(__file__)), "regex_names.json")


def stable_names():
    """{(repr(pattern), flags): name} for the patterns that have theorems (harness/regex_names.json, committed)"""
    import json

    try:
        with open(NAMES_FILE) as fh:
            return {(e["pattern"], int(e["flags"])): e["name"] for e in json.load(fh)}
    except FileNotFoundError:
        return {}


def gen_regexes() -> str:
    pats = sorted(capture(), key=lambda t: t[0])
    w = []
    w.append("/- GENERATED by harness/translate_re.py from /repo's working tree. Do not edit.")
    w.append("   One definition per regular expression the library compiles, named after the module attribute or the")
    w.append("   calling function; `allPatterns` lists every one of them. -/")
    w.append("import Verif.Model.Re")
    w.append("")
    w.append("namespace Verif.Regexes")
    w.append("open Verif")
    w.append("")
    names = []
    gnames = []
    for name, pat, flags in pats:
        try:
            term, eff = translate(pat, flags)
        except Unsupported as e:
            term, eff = ".unsupported", flags
            w.append(f"-- unsupported: {e}")
        src = repr(pat)
        src = src if len(src) < 300 else src[:300] + "…"
        w.append(f"/-- {'bytes' if isinstance(pat, bytes) else 'str'} pattern, flags {eff}: {src.replace('-/', '- /')} -/")
        w.append(f"def {name} : Re :=")
        w.append(f"  {term}")
        w.append("")
        names.append(name)
        groups = named_groups(pat, flags)
        if groups and term != ".unsupported":
            gterm, _ = translate(pat, flags, keep_groups=True)
            w.append(f"/-- `{name}` with its named capturing groups kept (`.group <CPython group index> …`) -/")
            w.append(f"def {name}_g : Re :=")
            w.append(f"  {gterm}")
            w.append("")
            w.append(f"/-- group name → CPython group index of `{name}` -/")
            w.append(f"def {name}_groups : List (String × Nat) := [" + ", ".join(f'("{g}", {i})' for g, i in groups) + "]")
            w.append("")
            gnames.append(name)
    w.append("def allPatterns : List (String × Re) := [" + ", ".join(f'("{n}", {n})' for n in names) + "]")
    w.append("")
    w.append("/-- the patterns with named groups: name, group-keeping translation, group table -/")
    w.append("def allGroupPatterns : List (String × Re × List (String × Nat)) := [" + ", ".join(f'("{n}", {n}_g, {n}_groups)' for n in gnames) + "]")
    w.append("")
    w.append("end Verif.Regexes")
    return "\n".join(w) + "\n"


if __name__ == "__main__":
    sys.stdout.write(gen_regexes())
