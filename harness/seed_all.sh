#!/bin/sh
# evaluate every seeded change against the quick check of the property it targets (run from /verif or a snapshot of it)
# usage: harness/seed_all.sh [name-prefix...]
cd "$(dirname "$0")/.." || exit 2
if [ ! -d lean/.lake ]; then (cd lean && /venv/bin/python ../harness/translate.py && lake build driver Verif) > /tmp/seed_all_build.$$ 2>&1 || { cat /tmp/seed_all_build.$$; exit 2; }; fi
for d in seeded/*/; do
  n=$(basename "$d")
  if [ $# -gt 0 ]; then ok=0; for p in "$@"; do case "$n" in $p*) ok=1;; esac; done; [ $ok = 1 ] || continue; fi
  echo "== $n"
  timeout 1500 /venv/bin/python harness/seed_eval.py run "$n" 2>&1 | grep -v "^WARNING" | cut -c1-200
done
