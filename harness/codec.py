"""JSON <-> sansldap objects, in the canonical form shared with the Lean driver.

Text (`str`) fields travel as the hex of their UTF-8 octets; octet strings as hex.
"""
from __future__ import annotations

import os
import sys

REPO = os.environ.get("VERIF_REPO", "/repo")
if os.path.join(REPO, "src") not in sys.path:
    sys.path.insert(0, os.path.join(REPO, "src"))

import sansldap

from names import NS as M  # library names, wherever the package defines them now (see names.py)

import custom_types as CT

FilterSyntaxError = M.FilterSyntaxError

OID_PAGED = "1.2.840.113556.1.4.319"
OID_DELETED = "1.2.840.113556.1.4.417"
OID_DEACT = "1.2.840.113556.1.4.2065"


# ---- BER primitives through the PUBLIC writer (so that renaming the module's private helpers cannot break the harness)

def _writer():
    from sansldap.asn1 import ASN1Writer
    return ASN1Writer()


def pack_integer(v: int) -> bytes:
    w = _writer()
    w.write_integer(v)
    return bytes(w.get_data())


def pack_boolean(v: bool) -> bytes:
    w = _writer()
    w.write_boolean(v)
    return bytes(w.get_data())


def pack_octets(b: bytes) -> bytes:
    w = _writer()
    w.write_octet_string(b)
    return bytes(w.get_data())


class _LengthOnly:
    """stands in for a content buffer of a given length without allocating it"""

    def __init__(self, n):
        self.n = n

    def __len__(self):
        return self.n

    def __bytes__(self):
        return b""


def pack_header(cls: int, cons: bool, num: int, n: int):
    """identifier + length octets the public writer produces for a value of `n` content octets.  Up to 1 MiB a real buffer
    is written and cut off again; beyond that a length-only stand-in is tried, and None is returned when the writer
    needs a real buffer (a zero-copy writer): the case is then skipped, not judged"""
    if n <= 1 << 20:
        full = pack_tlv(cls, cons, num, bytes(n))
        return full[: len(full) - n]
    try:
        got = pack_tlv(cls, cons, num, _LengthOnly(n))
    except (TypeError, ValueError, BufferError, MemoryError, OverflowError):
        return None
    return got


def pack_tlv(cls: int, cons: bool, num: int, content) -> bytes:
    """identifier + length + content for any tag; `content` may be an object that only has a length (header of a huge value)"""
    from sansldap.asn1 import ASN1Tag, TagClass
    w = _writer()
    w.write_octet_string(content, tag=ASN1Tag(TagClass(cls), num, cons))
    return bytes(w.get_data())


def hx(b) -> str:
    return bytes(b).hex()


def tx(s: str) -> str:
    return s.encode("utf-8", errors="surrogatepass").hex()


def ohx(b):
    return None if b is None else hx(b)


def otx(s):
    return None if s is None else tx(s)


_OCTET_KIND = [None]


class octet_kind:
    """while active, octet-string fields built by the *_from_json functions are objects of another legal kind: 'bytearray' (a fresh one per
    field), 'shared' (ONE bytearray object for all fields with equal content), 'memoryview'.  Default: bytes"""

    def __init__(self, kind):
        self.kind = kind
        self.cache = {}

    def make(self, b: bytes):
        if self.kind == "bytearray":
            return bytearray(b)
        if self.kind == "shared":
            return self.cache.setdefault(b, bytearray(b))
        if self.kind == "memoryview":
            return memoryview(bytearray(b))
        return b

    def __enter__(self):
        self.prev = _OCTET_KIND[0]
        _OCTET_KIND[0] = self
        return self

    def __exit__(self, *a):
        _OCTET_KIND[0] = self.prev


def unhx(s):
    b = bytes.fromhex(s)
    k = _OCTET_KIND[0]
    return b if k is None else k.make(b)


def untx(s):
    return bytes.fromhex(s).decode("utf-8")


def ounhx(s):
    return None if s is None else unhx(s)


def ountx(s):
    return None if s is None else untx(s)


# ---------------------------------------------------------------- filters

def filter_to_json(f) -> dict:
    F = sansldap
    if isinstance(f, F.FilterAnd):
        return {"k": "and", "fs": [filter_to_json(x) for x in f.filters]}
    if isinstance(f, F.FilterOr):
        return {"k": "or", "fs": [filter_to_json(x) for x in f.filters]}
    if isinstance(f, F.FilterNot):
        return {"k": "not", "f": filter_to_json(f.filter)}
    if isinstance(f, F.FilterEquality):
        return {"k": "eq", "a": tx(f.attribute), "v": hx(f.value)}
    if isinstance(f, F.FilterGreaterOrEqual):
        return {"k": "ge", "a": tx(f.attribute), "v": hx(f.value)}
    if isinstance(f, F.FilterLessOrEqual):
        return {"k": "le", "a": tx(f.attribute), "v": hx(f.value)}
    if isinstance(f, F.FilterApproxMatch):
        return {"k": "approx", "a": tx(f.attribute), "v": hx(f.value)}
    if isinstance(f, F.FilterPresent):
        return {"k": "present", "a": tx(f.attribute)}
    if isinstance(f, F.FilterSubstrings):
        return {"k": "substr", "a": tx(f.attribute), "i": ohx(f.initial), "any": [hx(x) for x in f.any], "f": ohx(f.final)}
    if isinstance(f, F.FilterExtensibleMatch):
        return {"k": "ext", "rule": otx(f.rule), "attr": otx(f.attribute), "v": hx(f.value), "dn": bool(f.dn_attributes)}
    if isinstance(f, CT.CustomFilter):
        return {"k": "custom", "v": tx(f.value)}
    raise TypeError(f"unknown filter {type(f)}")


def filter_from_json(j):
    F = sansldap
    k = j["k"]
    if k == "and":
        return F.FilterAnd([filter_from_json(x) for x in j["fs"]])
    if k == "or":
        return F.FilterOr([filter_from_json(x) for x in j["fs"]])
    if k == "not":
        return F.FilterNot(filter_from_json(j["f"]))
    if k == "eq":
        return F.FilterEquality(untx(j["a"]), unhx(j["v"]))
    if k == "ge":
        return F.FilterGreaterOrEqual(untx(j["a"]), unhx(j["v"]))
    if k == "le":
        return F.FilterLessOrEqual(untx(j["a"]), unhx(j["v"]))
    if k == "approx":
        return F.FilterApproxMatch(untx(j["a"]), unhx(j["v"]))
    if k == "present":
        return F.FilterPresent(untx(j["a"]))
    if k == "substr":
        return F.FilterSubstrings(untx(j["a"]), ounhx(j["i"]), [unhx(x) for x in j["any"]], ounhx(j["f"]))
    if k == "ext":
        return F.FilterExtensibleMatch(ountx(j["rule"]), ountx(j["attr"]), unhx(j["v"]), j["dn"])
    if k == "custom":
        return CT.CustomFilter(untx(j["v"]))
    raise ValueError(k)


# ---------------------------------------------------------------- creds / controls

def cred_to_json(c) -> dict:
    if isinstance(c, sansldap.SimpleCredential):
        return {"k": "simple", "pw": tx(c.password)}
    if isinstance(c, sansldap.SaslCredential):
        return {"k": "sasl", "mech": tx(c.mechanism), "creds": ohx(c.credentials)}
    if isinstance(c, CT.CustomAuth):
        return {"k": "custom", "v": tx(c.value)}
    raise TypeError(type(c))


def cred_from_json(j):
    k = j["k"]
    if k == "simple":
        return sansldap.SimpleCredential(untx(j["pw"]))
    if k == "sasl":
        return sansldap.SaslCredential(untx(j["mech"]), ounhx(j["creds"]))
    if k == "custom":
        return CT.CustomAuth(untx(j["v"]))
    raise ValueError(k)


def control_to_json(c) -> dict:
    if isinstance(c, sansldap.PagedResultControl):
        return {"k": "paged", "crit": bool(c.critical), "size": int(c.size), "cookie": hx(c.cookie), "raw": ohx(c.value)}
    if isinstance(c, sansldap.ShowDeletedControl):
        return {"k": "showDeleted", "crit": bool(c.critical), "raw": ohx(c.value)}
    if isinstance(c, sansldap.ShowDeactivatedLinkControl):
        return {"k": "showDeactivated", "crit": bool(c.critical), "raw": ohx(c.value)}
    if isinstance(c, CT.CustomControl):
        return {"k": "custom", "crit": bool(c.critical), "data": hx(c.data), "raw": ohx(c.value)}
    if type(c) is sansldap.LDAPControl:
        return {"k": "generic", "oid": tx(c.control_type), "crit": bool(c.critical), "value": ohx(c.value)}
    raise TypeError(type(c))


def _set_raw(c, raw):
    if raw is not None:
        object.__setattr__(c, "value", raw)
    return c


def control_from_json(j):
    k = j["k"]
    if k == "generic":
        return sansldap.LDAPControl(untx(j["oid"]), j["crit"], ounhx(j["value"]))
    if k == "paged":
        return _set_raw(sansldap.PagedResultControl(critical=j["crit"], size=j["size"], cookie=unhx(j["cookie"])), ounhx(j.get("raw")))
    if k == "showDeleted":
        return _set_raw(sansldap.ShowDeletedControl(critical=j["crit"]), ounhx(j.get("raw")))
    if k == "showDeactivated":
        return _set_raw(sansldap.ShowDeactivatedLinkControl(critical=j["crit"]), ounhx(j.get("raw")))
    if k == "custom":
        return _set_raw(CT.CustomControl(critical=j["crit"], data=unhx(j["data"])), ounhx(j.get("raw")))
    raise ValueError(k)


# ---------------------------------------------------------------- results / ops / messages

def result_to_json(r) -> dict:
    return {
        "code": int(r.result_code),
        "mdn": tx(r.matched_dn),
        "diag": tx(r.diagnostics_message),
        "refs": None if r.referrals is None else [tx(x) for x in r.referrals],
    }


def result_from_json(j):
    return sansldap.LDAPResult(
        result_code=sansldap.LDAPResultCode(j["code"]),
        matched_dn=untx(j["mdn"]),
        diagnostics_message=untx(j["diag"]),
        referrals=None if j.get("refs") is None else [untx(x) for x in j["refs"]],
    )


def msg_to_json(m) -> dict:
    if isinstance(m, M.BindRequest):
        op = {"k": "bindReq", "version": int(m.version), "name": tx(m.name), "cred": cred_to_json(m.authentication)}
    elif isinstance(m, M.BindResponse):
        op = {"k": "bindResp", "res": result_to_json(m.result), "sasl": ohx(m.server_sasl_creds)}
    elif isinstance(m, M.UnbindRequest):
        op = {"k": "unbind"}
    elif isinstance(m, M.SearchRequest):
        op = {
            "k": "searchReq", "base": tx(m.base_object), "scope": int(m.scope), "deref": int(m.deref_aliases),
            "size": int(m.size_limit), "time": int(m.time_limit), "typesOnly": bool(m.types_only),
            "filter": filter_to_json(m.filter), "attrs": [tx(a) for a in m.attributes],
        }
    elif isinstance(m, M.SearchResultEntry):
        op = {"k": "searchEntry", "name": tx(m.object_name),
              "attrs": [{"name": tx(a.name), "vals": [hx(v) for v in a.values]} for a in m.attributes]}
    elif isinstance(m, M.SearchResultDone):
        op = {"k": "searchDone", "res": result_to_json(m.result)}
    elif isinstance(m, M.SearchResultReference):
        op = {"k": "searchRef", "uris": [tx(u) for u in m.uris]}
    elif isinstance(m, M.ExtendedRequest):
        op = {"k": "extReq", "name": tx(m.name), "value": ohx(m.value)}
    elif isinstance(m, M.ExtendedResponse):
        op = {"k": "extResp", "res": result_to_json(m.result), "name": otx(m.name), "value": ohx(m.value)}
    else:
        raise TypeError(type(m))
    return {"id": int(m.message_id), "op": op, "controls": [control_to_json(c) for c in m.controls]}


def msg_from_json(j):
    op = j["op"]
    k = op["k"]
    kw = dict(message_id=j["id"], controls=[control_from_json(c) for c in j.get("controls") or []])
    if k == "bindReq":
        return M.BindRequest(version=op["version"], name=untx(op["name"]), authentication=cred_from_json(op["cred"]), **kw)
    if k == "bindResp":
        return M.BindResponse(result=result_from_json(op["res"]), server_sasl_creds=ounhx(op["sasl"]), **kw)
    if k == "unbind":
        return M.UnbindRequest(**kw)
    if k == "searchReq":
        return M.SearchRequest(
            base_object=untx(op["base"]), scope=M.SearchScope(op["scope"]), deref_aliases=M.DereferencingPolicy(op["deref"]),
            size_limit=op["size"], time_limit=op["time"], types_only=op["typesOnly"],
            filter=filter_from_json(op["filter"]), attributes=[untx(a) for a in op["attrs"]], **kw)
    if k == "searchEntry":
        return M.SearchResultEntry(
            object_name=untx(op["name"]),
            attributes=[M.PartialAttribute(untx(a["name"]), [unhx(v) for v in a["vals"]]) for a in op["attrs"]], **kw)
    if k == "searchDone":
        return M.SearchResultDone(result=result_from_json(op["res"]), **kw)
    if k == "searchRef":
        return M.SearchResultReference(uris=[untx(u) for u in op["uris"]], **kw)
    if k == "extReq":
        return M.ExtendedRequest(name=untx(op["name"]), value=ounhx(op["value"]), **kw)
    if k == "extResp":
        return M.ExtendedResponse(result=result_from_json(op["res"]), name=ountx(op["name"]), value=ounhx(op["value"]), **kw)
    raise ValueError(k)


def err_name(e: BaseException) -> str:
    from sansldap.asn1 import NotEnougData

    if isinstance(e, NotEnougData):
        return "NotEnough"
    if isinstance(e, ValueError):
        return "ValueError"
    if isinstance(e, NotImplementedError):
        return "NotImplemented"
    if isinstance(e, RecursionError):
        return "Recursion"
    return "Other:" + type(e).__name__
