"""Shared machinery for the schema properties C16, C17 (and the schema half of C18):
JSON codec for the three description classes, generators of RFC 4512-valid definitions,
a sentence generator over (definition, layout) walking the RFC 4512 grammars, mutations."""
from __future__ import annotations

import random

from codec import sansldap  # noqa: F401  (sets sys.path)
from sansldap import schema as S

KINDS = ["ABSTRACT", "STRUCTURAL", "AUXILIARY"]
USAGES = ["userApplications", "directoryOperation", "distributedOperation", "dSAOperation"]


def cps(s: str):
    return [ord(c) for c in s]


def uncps(l):
    return "".join(chr(c) for c in l)


def ocps(s):
    return None if s is None else cps(s)


def exts_to_json(d):
    return [[cps(k), [cps(v) for v in vs]] for k, vs in d.items()]


def exts_from_json(j):
    return {uncps(k): [uncps(v) for v in vs] for k, vs in j}


def def_to_json(d):
    if isinstance(d, S.ObjectClassDescription):
        return {"oid": cps(d.oid), "names": [cps(n) for n in d.names], "desc": ocps(d.description), "obsolete": bool(d.obsolete),
                "sup": [cps(x) for x in d.super_types], "kind": KINDS.index(d.kind.value), "must": [cps(x) for x in d.must],
                "may": [cps(x) for x in d.may], "exts": exts_to_json(d.extensions)}
    if isinstance(d, S.AttributeTypeDescription):
        return {"oid": cps(d.oid), "names": [cps(n) for n in d.names], "desc": ocps(d.description), "obsolete": bool(d.obsolete),
                "sup": ocps(d.super_type), "equality": ocps(d.equality), "ordering": ocps(d.ordering), "substr": ocps(d.substrings),
                "syntax": ocps(d.syntax), "syntaxLen": d.syntax_length, "singleValue": bool(d.single_value), "collective": bool(d.collective),
                "noUserMod": bool(d.no_user_modification), "usage": USAGES.index(d.usage.value), "exts": exts_to_json(d.extensions)}
    if isinstance(d, S.DITContentRuleDescription):
        return {"oid": cps(d.oid), "names": [cps(n) for n in d.names], "desc": ocps(d.description), "obsolete": bool(d.obsolete),
                "aux": [cps(x) for x in d.aux], "must": [cps(x) for x in d.must], "may": [cps(x) for x in d.may],
                "never": [cps(x) for x in d.never], "exts": exts_to_json(d.extensions)}
    raise TypeError(type(d))


def def_from_json(kind, j):
    u = lambda x: None if x is None else uncps(x)
    common = dict(oid=uncps(j["oid"]), names=[uncps(n) for n in j["names"]], description=u(j.get("desc")), obsolete=j["obsolete"],
                  extensions=exts_from_json(j["exts"]))
    if kind == "oc":
        return S.ObjectClassDescription(super_types=[uncps(x) for x in j["sup"]], kind=S.ObjectClassKind(KINDS[j["kind"]]),
                                        must=[uncps(x) for x in j["must"]], may=[uncps(x) for x in j["may"]], **common)
    if kind == "at":
        return S.AttributeTypeDescription(super_type=u(j.get("sup")), equality=u(j.get("equality")), ordering=u(j.get("ordering")),
                                          substrings=u(j.get("substr")), syntax=u(j.get("syntax")), syntax_length=j.get("syntaxLen"),
                                          single_value=j["singleValue"], collective=j["collective"], no_user_modification=j["noUserMod"],
                                          usage=S.AttributeTypeUsage(USAGES[j["usage"]]), **common)
    if kind == "dcr":
        return S.DITContentRuleDescription(aux=[uncps(x) for x in j["aux"]], must=[uncps(x) for x in j["must"]],
                                           may=[uncps(x) for x in j["may"]], never=[uncps(x) for x in j["never"]], **common)
    raise KeyError(kind)


CLS = {"oc": S.ObjectClassDescription, "at": S.AttributeTypeDescription, "dcr": S.DITContentRuleDescription}

# ------------------------------------------------------------------ generators of valid definitions

LEAD = "abcxyzABCXYZ"
KEY = LEAD + "0189-"


def g_number(rng):
    return rng.choice(["0", "1", "2", "9", "10", "840", "113556"]) if rng.random() < 0.8 else str(rng.randrange(0, 10**9))


def g_numericoid(rng):
    return ".".join(g_number(rng) for _ in range(rng.choice([2, 2, 3, 5, 9])))


def g_descr(rng):
    if rng.random() < 0.4:
        return rng.choice(["top", "person", "cn", "objectClass", "x-a", "NAME", "MUST", "X-Y", "a", "DESC"])
    return rng.choice(LEAD) + "".join(rng.choice(KEY) for _ in range(rng.choice([0, 1, 3, 8])))


def g_oid(rng):
    return g_descr(rng) if rng.random() < 0.6 else g_numericoid(rng)


def g_oidlist(rng):
    return [g_oid(rng) for _ in range(rng.choice([0, 0, 1, 1, 2, 3, 4]))]


STR_ALPHABET = "ab Z'\\|()$ {}\n\t\x00\x7f-_X5c27é日\U0001f600\ud800"


def g_qdtext(rng):
    r = rng.random()
    if r < 0.3:
        return rng.choice(["a", "'", "\\", "\\27", "\\5c", "a|b", " lead", "trail ", "''", "\\\\", "( x )", "$", "X-FOO 'bar'", "'\\", "a'b\\c"])
    if r < 0.36:
        # long runs of characters that need escaping (sizes around powers of two and above any small fixed cap)
        n = rng.choice([31, 32, 33, 34, 64, 65, 100, 257, 600])
        return "".join(rng.choice("''\\\\ab") for _ in range(n))
    n = rng.choice([1, 2, 3, 6, 15])
    return "".join(rng.choice(STR_ALPHABET) for _ in range(n))


def g_exts(rng):
    d = {}
    for _ in range(rng.choice([0, 0, 1, 1, 2, 3])):
        key = "".join(rng.choice("abzAZ-_") for _ in range(rng.choice([1, 2, 5])))
        if rng.random() < 0.25:
            # names that themselves begin like the X- prefix the writer puts in front of them (the grammar allows any letters, '-' and '_')
            key = rng.choice(["X-", "x-", "X-X-", "X", "x", "X-ORIGIN", "x-" + key, "X-" + key, "X_" + key, "-X-" + key, "XX-"])
        d[key] = [g_qdtext(rng) for _ in range(rng.choice([1, 1, 1, 2, 3, 0]))]
    return d


def g_common(rng):
    return dict(oid=g_numericoid(rng), names=[g_descr(rng) for _ in range(rng.choice([0, 1, 1, 2, 3]))],
                description=g_qdtext(rng) if rng.random() < 0.6 else None, obsolete=rng.random() < 0.3, extensions=g_exts(rng))


def g_def(rng, kind):
    c = g_common(rng)
    if kind == "oc":
        return S.ObjectClassDescription(super_types=g_oidlist(rng), kind=S.ObjectClassKind(rng.choice(KINDS)), must=g_oidlist(rng),
                                        may=g_oidlist(rng), **c)
    if kind == "at":
        syntax = g_numericoid(rng) if rng.random() < 0.6 else None
        o = lambda: g_oid(rng) if rng.random() < 0.4 else None
        return S.AttributeTypeDescription(super_type=o(), equality=o(), ordering=o(), substrings=o(), syntax=syntax,
                                          syntax_length=(rng.choice([0, 1, 64, 32768, 10**12]) if syntax and rng.random() < 0.5 else None),
                                          single_value=rng.random() < 0.4, collective=rng.random() < 0.2, no_user_modification=rng.random() < 0.3,
                                          usage=S.AttributeTypeUsage(rng.choice(USAGES)), **c)
    return S.DITContentRuleDescription(aux=g_oidlist(rng), must=g_oidlist(rng), may=g_oidlist(rng), never=g_oidlist(rng), **c)


# ------------------------------------------------------------------ RFC 4512 sentences over (definition, layout)

def wsp(rng):
    return " " * rng.choice([0, 0, 1, 2, 4])


def sp(rng):
    return " " * rng.choice([1, 1, 1, 2, 3])


def r_qdstring(rng, v):
    out = []
    for ch in v:
        if ch == "\\":
            out.append(rng.choice(["\\5c", "\\5C"]))
        elif ch == "'":
            out.append("\\27")
        else:
            out.append(ch)
    return "'" + "".join(out) + "'"


def r_qdescrs(rng, names):
    if len(names) == 1 and rng.random() < 0.5:
        return "'" + names[0] + "'"
    return "(" + wsp(rng) + sp(rng).join("'" + n + "'" for n in names) + wsp(rng) + ")"


def r_oids(rng, l):
    if len(l) == 1 and rng.random() < 0.5:
        return l[0]
    return "(" + wsp(rng) + (wsp(rng) + "$" + wsp(rng)).join(l) + wsp(rng) + ")"


def r_qdstrings(rng, vs):
    if len(vs) == 1 and rng.random() < 0.5:
        return r_qdstring(rng, vs[0])
    return "(" + wsp(rng) + sp(rng).join(r_qdstring(rng, v) for v in vs) + wsp(rng) + ")"


def r_exts(rng, exts):
    return "".join(sp(rng) + "X-" + k + sp(rng) + r_qdstrings(rng, vs) for k, vs in exts.items())


def render(rng, kind, d) -> str:
    """a sentence of the grammar denoting d, with random layout (every WSP/SP count, bare vs parenthesised lists, escape case, X-/x-)"""
    out = "(" + wsp(rng) + d.oid
    if d.names:
        out += sp(rng) + "NAME" + sp(rng) + r_qdescrs(rng, d.names)
    elif rng.random() < 0.15:
        out += sp(rng) + "NAME" + sp(rng) + "(" + wsp(rng) + ")"       # qdescrlist = [ qdescr *( SP qdescr ) ]: the list may be empty
    if d.description is not None:
        out += sp(rng) + "DESC" + sp(rng) + r_qdstring(rng, d.description)
    if d.obsolete:
        out += sp(rng) + "OBSOLETE"
    if kind == "oc":
        if d.super_types:
            out += sp(rng) + "SUP" + sp(rng) + r_oids(rng, d.super_types)
        if d.kind.value != "STRUCTURAL" or rng.random() < 0.5:
            out += sp(rng) + d.kind.value
        for kw, l in (("MUST", d.must), ("MAY", d.may)):
            if l:
                out += sp(rng) + kw + sp(rng) + r_oids(rng, l)
    elif kind == "at":
        for kw, v in (("SUP", d.super_type), ("EQUALITY", d.equality), ("ORDERING", d.ordering), ("SUBSTR", d.substrings)):
            if v is not None:
                out += sp(rng) + kw + sp(rng) + v
        if d.syntax is not None:
            body = d.syntax + ("{" + str(d.syntax_length) + "}" if d.syntax_length is not None else "")
            out += sp(rng) + "SYNTAX" + sp(rng) + (("'" + body + "'") if rng.random() < 0.3 else body)   # quoted = the Active Directory variant
        for kw, b in (("SINGLE-VALUE", d.single_value), ("COLLECTIVE", d.collective), ("NO-USER-MODIFICATION", d.no_user_modification)):
            if b:
                out += sp(rng) + kw
        if d.usage.value != "userApplications" or rng.random() < 0.3:
            out += sp(rng) + "USAGE" + sp(rng) + d.usage.value
    else:
        for kw, l in (("AUX", d.aux), ("MUST", d.must), ("MAY", d.may), ("NOT", d.never)):
            if l:
                out += sp(rng) + kw + sp(rng) + r_oids(rng, l)
    out += r_exts(rng, d.extensions) + wsp(rng) + ")"
    return out


def valid_for_grammar(d) -> bool:
    """restrict generated definitions to what the grammars can express: non-empty strings, non-empty extension value lists"""
    if d.description is not None and d.description == "":
        return False
    for vs in d.extensions.values():
        if not vs or any(v == "" for v in vs):
            return False
    return True


STRUCT = "()'\\$ {}-XxNAMEDSC.0127|\n\té"


def mutate(rng: random.Random, s: str) -> str:
    if not s:
        return rng.choice(STRUCT)
    i = rng.randrange(len(s))
    c = rng.choice(STRUCT)
    r = rng.random()
    if r < 0.34:
        return s[:i] + c + s[i:]
    if r < 0.67:
        return s[:i] + s[i + 1:]
    return s[:i] + c + s[i + 1:]


FIXED = [
    "", "(", "()", "( )", "( 1 )", "( 1.2 )", "(1.2)", "( 1.2", "( 1.2 ) trailing", "( 01.2 )", "( 1.2. )", "( 1.2 NAME 'a' )", "( 1.2 NAME ( ) )",
    "( 1.2 NAME ( 'a' 'b' ) )", "( 1.2 NAME 'a b' )", "( 1.2 DESC '' )", "( 1.2 DESC 'a|b' )", "( 1.2 DESC 'a\\7cb' )", "( 1.2 DESC '\\27\\5c\\5C' )",
    "( 1.2 DESC 'a\\zz' )", "( 1.2 X-FOO  'bar' )", "( 1.2 X-FOO 'bar'  X-B ( 'a'   'b' ) )", "( 1.2 X-a (  ) )", "( 1.2 X-a () )", "( 1.2 X- 'v' )",
    "( 1.2 x-a 'v' X-a 'w' )", "( 1.2 SUP top STRUCTURAL MUST ( cn $ sn ) MAY x )", "( 1.2 SUP ( top$person ) )", "( 1.2 MUST cn SUP top )",
    "( 1.2 OBSOLETEX )", "( 1.2 ABSTRACTX )", "( 1.2 SYNTAX 1.3.6{64} )", "( 1.2 SYNTAX '1.3.6{64}' )", "( 1.2 SYNTAX 'OctetString' )",
    "( 1.2 SYNTAX 1.3.6{064} )", "( 1.2 SYNTAX 1.3.6{ )", "( 1.2 USAGE dSAOperation )", "( 1.2 USAGE bogus )", "( 1.2 DESC 'unterminated",
    "( 1.2 DESC '" + "a" * 300, "( 1.2" + " X-a (  )" * 40, "( 1.2 NAME (" + " " * 300, "( " + ".".join(["1"] * 200) + " x",
]
