#!/usr/bin/env python3
"""py2lean: syntax-directed translation of the BER primitive functions of sansldap/asn1.py to Lean 4.

Usage:  /venv/bin/python harness/py2lean.py [--check] [--only asn1|filter] [--out FILE] [--src FILE]
                                            [--filter-out FILE] [--filter-src FILE]
        env VERIF_REPO (default /repo): the sources read are $VERIF_REPO/src/sansldap/asn1.py and _filter.py
        (second profile: the filter text parser of _filter.py -> lean/Verif/Generated/FilterGen.lean,
         namespace Verif.FilterGen; see design_notes/py2lean_filter.md)

The source is only PARSED (module `ast`); the library is neither imported nor executed.
Output: lean/Verif/Generated/Asn1Gen.lean (namespace Verif.Asn1Gen), rewritten on every run.
Exit codes: 0 every requested function translated; 3 at least one function is outside the subset
(for it a stub `def <name>_untranslated : String := "<reason>"` is emitted); 1 with --check when the
file on disk differs from what would be generated; 2 a crash (Python traceback).

The subset and the translation scheme are described in design_notes/py2lean.md.  In short:
  * a function body becomes a `do` block in `Except Verif.Err`; every assignment is a (shadowing)
    `let x : T := e`; every operation that can raise is bound with `let x ← op` (A-normal form, in
    Python's left-to-right evaluation order);
  * `if` with a branch that always leaves (raise/return/break/continue) puts the rest of the block in the
    other branch; an `if` without jumps becomes a tuple-valued `if` over the variables it assigns;
    otherwise the continuation is duplicated into both branches;
  * every loop becomes a local structurally recursive function (`<fn>_while<k>` on fuel, `<fn>_for<k>`
    on the iteration count or on the list iterated) whose arguments are the loop-carried variables;
  * named tuples become structures, IntEnum classes become member lists (read from the class AST);
  * (asn1 profile) a plain class with an `__init__` made of `self.f = e` becomes a state record; a method
    `C.m(self, ..)` becomes `C_m (self : C) ..`, `self.f = e` / `self.f.extend(e)` rebind `self`, a method that
    changes `self` returns the new state beside its value; `with x.m(..) as w: BODY` is the derived definition
    `C_with_m .. body` (design_notes/py2lean.md, section "Classes").
"""
from __future__ import annotations

import ast
import os
import sys

HERE = os.path.dirname(os.path.abspath(__file__))
DEFAULT_OUT = os.path.join(HERE, "..", "lean", "Verif", "Generated", "Asn1Gen.lean")
DEFAULT_FILTER_OUT = os.path.join(HERE, "..", "lean", "Verif", "Generated", "FilterGen.lean")

TARGETS = [
    "_pack_asn1_octet_number",
    "_unpack_asn1_octet_number",
    "_pack_asn1",
    "_pack_asn1_integer",
    "_read_asn1_header",
    "_validate_tag",
    "_read_asn1_integer",
    "_read_asn1_boolean",
    "_pack_asn1_boolean",
    # the thin wrappers the message codec calls, and the public reader / writer classes
    "_read_asn1_octet_string",
    "_read_asn1_sequence",
    "_read_asn1_set",
    "_read_asn1_enumerated",
    "_pack_asn1_enumerated",
    "_pack_asn1_octet_string",
    "ASN1Reader.__init__",
    "ASN1Reader.__bool__",
    "ASN1Reader.peek_header",
    "ASN1Reader.skip_value",
    "ASN1Reader.get_remaining_data",
    "ASN1Reader.read_boolean",
    "ASN1Reader.read_enumerated",
    "ASN1Reader.read_integer",
    "ASN1Reader.read_octet_string",
    "ASN1Reader.read_set",
    "ASN1Reader.read_sequence",
    "ASN1Writer.__init__",
    "ASN1Writer.__enter__",
    "ASN1Writer.__exit__",
    "ASN1Writer.push_sequence",
    "ASN1Writer.push_set",
    "ASN1Writer.write_boolean",
    "ASN1Writer.write_enumerated",
    "ASN1Writer.write_integer",
    "ASN1Writer.write_octet_string",
    "ASN1Writer.get_data",
]

FILTER_TARGETS = [
    "_unpack_filter_extensible_header",
    "_unpack_filter_substrings_value",
    "_unpack_simple_filter",
    "_unpack_filter",
    "_unpack_complex_filter",
    "LDAPFilter.from_string",
]


class Profile:
    """what differs between the two source files (see design_notes/py2lean_filter.md)"""

    def __init__(self, name):
        self.name = name
        self.ext = name == "filter"           # the extended subset (strings, lists, recursion, ...)
        if name == "asn1":
            self.file = "asn1.py"
            self.namespace = "Verif.Asn1Gen"
            self.imports = ["Verif.PyRt"]
            self.opens = "Verif Verif.PyRt"
            self.err = "Err"
            self.note = "design_notes/py2lean.md"
            self.targets = TARGETS
        else:
            self.file = "_filter.py"
            self.namespace = "Verif.FilterGen"
            self.imports = ["Verif.FilterRt", "Verif.FilterRtStr"]
            self.opens = "Verif Verif.FilterRt"
            self.err = "GErr"
            self.note = "design_notes/py2lean_filter.md"
            self.targets = FILTER_TARGETS
        # dataclass name -> constructor of the model's `Verif.Filter` (fields in the same order)
        self.ctors = {
            "FilterAnd": "Filter.and", "FilterOr": "Filter.or", "FilterNot": "Filter.not",
            "FilterEquality": "Filter.eq", "FilterSubstrings": "Filter.substr",
            "FilterGreaterOrEqual": "Filter.ge", "FilterLessOrEqual": "Filter.le",
            "FilterPresent": "Filter.present", "FilterApproxMatch": "Filter.approx",
            "FilterExtensibleMatch": "Filter.ext",
        } if self.ext else {}
        self.filter_base = "LDAPFilter" if self.ext else None
        # functions that are NOT translated but mapped to a named function of the runtime / model:
        # python name -> (lean name, [(param, type)] with 'str' = dropped, result type)
        self.externals = {
            "_unpack_filter_value": ("unpack_filter_value",
                                     [("filter", "str"), ("value", "bytes"), ("offset", "int"), ("length", "int")],
                                     "bytes"),
        } if self.ext else {}
        # compiled regular expressions whose `.match(x)` is a named model predicate
        self.patterns = {"_ATTRIBUTE_PATTERN": "validAttr"} if self.ext else {}
        # exception classes with (offset, length) payload
        self.syntax_errors = {"FilterSyntaxError": "GErr.syntax"} if self.ext else {}


LEAN_KEYWORDS = {
    "end", "at", "from", "fun", "open", "in", "do", "then", "else", "match", "with", "let", "have",
    "show", "by", "if", "instance", "structure", "class", "where", "def", "theorem", "namespace",
    "section", "import", "return", "for", "unless", "mut", "try", "catch", "finally", "using", "this",
    "Type", "Prop", "Sort", "deriving", "extends", "export", "local", "private", "protected", "partial",
    "unsafe", "macro", "syntax", "notation", "universe", "variable", "abbrev", "axiom", "example",
    "inductive", "mutual", "infix", "prefix", "postfix", "calc", "nomatch", "nofun", "exists", "forall",
    "fuel", "len", "slice", "attribute", "depth",
}

# ---------------------------------------------------------------------------------------------
# types:  'int' | 'bool' | 'bytes' | 'str' | 'none' | ('opt', T) | ('nt', name) | ('tuple', (T, ...))
#         | 'structB'  (result of struct.unpack("B", x), only usable under [0])


class Unsupported(Exception):
    def __init__(self, node, msg):
        line = getattr(node, "lineno", "?")
        super().__init__(f"line {line}: {msg}")


def lean_name(py: str) -> str:
    if "." in py:                         # Class.method; `__dunder__` methods lose the underscores
        c, m = py.split(".", 1)
        if m.startswith("__") and m.endswith("__") and len(m) > 4:
            m = m[2:-2]
        return f"{c}_{m}"
    n = py.lstrip("_") or py
    if n in LEAN_KEYWORDS:
        n += "_py"
    return n


def lean_type(ty) -> str:
    if ty == "int":
        return "Int"
    if ty == "bool":
        return "Bool"
    if ty == "bytes":
        return "List Nat"
    if ty == "none":
        return "Unit"
    if ty in ("ustr", "cstr"):       # str as its UTF-8 octets / as its code points
        return "List Nat"
    if ty == "char":                 # chr(octet): the code point
        return "Int"
    if ty == "filter":
        return "Filter"
    if isinstance(ty, tuple):
        if ty[0] == "list":
            return f"List {lean_type_atom(ty[1])}"
        if ty[0] == "opt":
            return f"Option {lean_type_atom(ty[1])}"
        if ty[0] == "nt":
            return ty[1]
        if ty[0] == "obj":               # an instance of a translated class: its state record
            return ty[1]
        if ty[0] == "ctor":              # `t.Type[T]`, T a TypeVar bound to int: only ever called, `enum_type(v)`
            return f"{lean_type_atom(ty[1])} → Except Err {lean_type_atom(ty[1])}"
        if ty[0] == "tuple":
            return " × ".join(lean_type_atom(x) for x in ty[1])
    raise ValueError(f"no Lean type for {ty!r}")


def lean_type_atom(ty) -> str:
    s = lean_type(ty)
    return f"({s})" if " " in s else s


def self_root(node):
    """the Name at the root of an attribute chain `a.b.c` (None for anything else)"""
    while isinstance(node, ast.Attribute):
        node = node.value
    return node.id if isinstance(node, ast.Name) else None


def int_lit(v: int) -> str:
    return str(v) if v >= 0 else f"({v})"


class Module:
    """Module-level facts read from the AST: enum classes, named tuples, functions."""

    def __init__(self, tree: ast.Module, profile: "Profile | None" = None):
        self.profile = profile or Profile("asn1")
        self.dcs: dict[str, list[tuple[str, ast.expr]]] = {}      # dataclass -> init fields (name, annotation)
        self.exc_params: dict[str, list[str]] = {}                # exception class -> __init__ parameter names
        self.enums: dict[str, list[tuple[str, int]]] = {}
        self.nts: dict[str, list[tuple[str, object]]] = {}
        self.nt_order: list[str] = []
        self.funcs: dict[str, ast.FunctionDef] = {}      # python qualified name -> def
        self.exceptions: dict[str, str] = {"ValueError": "Err.valueError"}
        if not self.profile.ext:
            self.exceptions["TypeError"] = "Err.notImpl"     # the runtime's class "any other exception"
        self.classes: dict[str, ast.ClassDef] = {}       # plain classes with instance state (asn1 profile)
        self.methods: dict[str, str] = {}                # "Class.method" -> Class
        self.aliases: dict[str, list[tuple[str, str, int]]] = {}   # Class -> [(alias, method, line)]  (`a = m` in the body)
        self.typevars: dict[str, str] = {}               # TypeVar name -> its bound (only `int`)
        pending_nt = []
        for node in tree.body:
            if isinstance(node, ast.FunctionDef):
                self.funcs[node.name] = node
            elif (not self.profile.ext and isinstance(node, ast.Assign) and len(node.targets) == 1
                    and isinstance(node.targets[0], ast.Name) and isinstance(node.value, ast.Call)
                    and ast.unparse(node.value.func) in ("t.TypeVar", "typing.TypeVar", "TypeVar")):
                for kw in node.value.keywords:
                    if kw.arg == "bound" and ast.unparse(kw.value) == "int":
                        self.typevars[node.targets[0].id] = "int"
            elif isinstance(node, ast.ClassDef):
                bases = [ast.unparse(b) for b in node.bases]
                if any(b in ("enum.IntEnum", "IntEnum") for b in bases):
                    members = []
                    for st in node.body:
                        if (isinstance(st, ast.Assign) and len(st.targets) == 1
                                and isinstance(st.targets[0], ast.Name)
                                and isinstance(st.value, ast.Constant) and isinstance(st.value.value, int)):
                            members.append((st.targets[0].id, st.value.value))
                    self.enums[node.name] = members
                elif any(b in ("t.NamedTuple", "typing.NamedTuple", "NamedTuple") for b in bases):
                    pending_nt.append(node)
                elif any(b in ("Exception",) for b in bases) and node.name == "NotEnougData":
                    self.exceptions[node.name] = "Err.notEnough"
                elif self.profile.ext and node.name in self.profile.syntax_errors:
                    for st in node.body:
                        if isinstance(st, ast.FunctionDef) and st.name == "__init__":
                            self.exc_params[node.name] = [a.arg for a in st.args.args[1:]]
                elif self.profile.ext and any("dataclass" in ast.unparse(d) for d in node.decorator_list):
                    fields = []
                    for st in node.body:
                        if isinstance(st, ast.AnnAssign) and isinstance(st.target, ast.Name):
                            if st.value is not None and "init=False" in ast.unparse(st.value):
                                continue
                            fields.append((st.target.id, st.annotation))
                        elif isinstance(st, ast.FunctionDef):
                            if any(ast.unparse(d) == "classmethod" for d in st.decorator_list):
                                self.funcs[f"{node.name}.{st.name}"] = st
                    self.dcs[node.name] = fields
                elif not self.profile.ext and not bases and not node.decorator_list:
                    # a plain class: instance state set up by __init__, methods taking `self`
                    self.classes[node.name] = node
                    self.aliases[node.name] = []
                    for st in node.body:
                        if isinstance(st, ast.FunctionDef) and not st.decorator_list:
                            self.funcs[f"{node.name}.{st.name}"] = st
                            self.methods[f"{node.name}.{st.name}"] = node.name
                    for st in node.body:
                        if (isinstance(st, ast.Assign) and len(st.targets) == 1 and isinstance(st.targets[0], ast.Name)
                                and isinstance(st.value, ast.Name) and f"{node.name}.{st.value.id}" in self.methods):
                            self.aliases[node.name].append((st.targets[0].id, st.value.id, st.lineno))
        for node in pending_nt:
            self.nts[node.name] = []          # so that self references resolve
        for node in pending_nt:
            fields = []
            for st in node.body:
                if isinstance(st, ast.AnnAssign) and isinstance(st.target, ast.Name):
                    fields.append((st.target.id, self.ann_type(st.annotation)))
                elif isinstance(st, ast.FunctionDef):
                    if any(ast.unparse(d) == "classmethod" for d in st.decorator_list):
                        self.funcs[f"{node.name}.{st.name}"] = st
            self.nts[node.name] = fields
            self.nt_order.append(node.name)

    def ann_type(self, a: ast.expr):
        s = ast.unparse(a)
        if s == "int":
            return "int"
        if s == "bool":
            return "bool"
        if s in ("bytes", "bytearray", "memoryview"):
            return "bytes"
        if s == "str":
            return "str"
        if s == "None":
            return "none"
        if s in self.enums:
            return "int"
        if s in self.nts:
            return ("nt", s)
        if s in self.classes:
            return ("obj", s)
        if self.profile.ext and (s == self.profile.filter_base or s in self.profile.ctors):
            return "filter"
        if isinstance(a, ast.Subscript):
            head = ast.unparse(a.value)
            args = a.slice.elts if isinstance(a.slice, ast.Tuple) else [a.slice]
            if self.profile.ext and head in ("t.List", "typing.List", "List", "list"):
                return ("list", self.ann_type(args[0]))
            if head in ("t.Optional", "typing.Optional", "Optional"):
                return ("opt", self.ann_type(args[0]))
            if head in ("t.Type", "typing.Type", "Type", "type") and len(args) == 1 \
                    and ast.unparse(args[0]) in self.typevars:
                return ("ctor", self.typevars[ast.unparse(args[0])])
            if head in ("t.Union", "typing.Union", "Union"):
                tys = {self.ann_type(x) for x in args}
                if len(tys) == 1:
                    return tys.pop()
                raise Unsupported(a, f"union of different kinds: {s}")
            if head in ("t.Tuple", "typing.Tuple", "Tuple", "tuple"):
                return ("tuple", tuple(self.ann_type(x) for x in args))
        raise Unsupported(a, f"annotation outside the subset: {s}")


# ---------------------------------------------------------------------------------------------
# syntactic helpers


def always_leaves(stmts) -> bool:
    """every path through the block ends in return / raise / break / continue"""
    for st in stmts:
        if isinstance(st, (ast.Return, ast.Raise, ast.Break, ast.Continue)):
            return True
        if isinstance(st, ast.If) and st.orelse and always_leaves(st.body) and always_leaves(st.orelse):
            return True
    return False


def has_jump(stmts) -> bool:
    """a return anywhere, or a break/continue that belongs to an enclosing loop"""
    for st in stmts:
        if isinstance(st, (ast.Return, ast.Break, ast.Continue)):
            return True
        if isinstance(st, ast.If) and (has_jump(st.body) or has_jump(st.orelse)):
            return True
        if isinstance(st, (ast.While, ast.For)) and has_return(st.body):
            return True
    return False


def has_return(stmts) -> bool:
    for st in stmts:
        for n in ast.walk(st):
            if isinstance(n, ast.Return):
                return True
    return False


def assigned_names(stmts) -> list[str]:
    """names (re)bound or mutated in place by the block, in order of first occurrence"""
    out: list[str] = []

    def add(n):
        if n not in out:
            out.append(n)

    def target(t):
        if isinstance(t, ast.Name):
            add(t.id)
        elif isinstance(t, (ast.Tuple, ast.List)):
            for e in t.elts:
                target(e)
        elif isinstance(t, ast.Subscript) and isinstance(t.value, ast.Name):
            add(t.value.id)
        elif isinstance(t, ast.Attribute) and self_root(t) is not None:
            add(self_root(t))                   # `self.x = e` rebinds (the record) `self`

    def pops(st):
        # `x.pop(0)` anywhere inside a simple statement mutates x
        for n in ast.walk(st):
            if isinstance(n, ast.Call) and isinstance(n.func, ast.Attribute) and n.func.attr == "pop" \
                    and isinstance(n.func.value, ast.Name):
                add(n.func.value.id)

    def visit(st):
        if isinstance(st, (ast.Assign, ast.AugAssign, ast.AnnAssign, ast.Expr)):
            pops(st)
        if isinstance(st, ast.Try):
            for s in st.body:
                visit(s)
            return
        if isinstance(st, ast.Assign):
            for t in st.targets:
                target(t)
        elif isinstance(st, (ast.AugAssign, ast.AnnAssign)):
            target(st.target)
        elif isinstance(st, ast.Expr) and isinstance(st.value, ast.Call):
            f = st.value.func
            if (isinstance(f, ast.Attribute) and isinstance(f.value, ast.Name)
                    and f.attr in ("append", "extend", "reverse")):
                add(f.value.id)
            elif (isinstance(f, ast.Attribute) and isinstance(f.value, ast.Attribute)
                    and f.attr in ("append", "extend", "reverse") and self_root(f.value) is not None):
                add(self_root(f.value))         # `self.x.extend(e)`
        elif isinstance(st, ast.If):
            for s in st.body + st.orelse:
                visit(s)
        elif isinstance(st, (ast.While, ast.For)):
            if isinstance(st, ast.For):
                target(st.target)
            for s in st.body + st.orelse:
                visit(s)

    for st in stmts:
        visit(st)
    return out


def mutated_in_place(stmts) -> dict[str, set[str]]:
    """name -> kinds of in-place mutation ('store', 'append', 'extend', 'reverse') in the block"""
    out: dict[str, set[str]] = {}
    for st in stmts:
        for n in ast.walk(st):
            if isinstance(n, (ast.Assign, ast.AugAssign)):
                ts = n.targets if isinstance(n, ast.Assign) else [n.target]
                for t in ts:
                    if isinstance(t, ast.Subscript) and isinstance(t.value, ast.Name):
                        out.setdefault(t.value.id, set()).add("store")
            elif isinstance(n, ast.Call) and isinstance(n.func, ast.Attribute) and isinstance(n.func.value, ast.Name):
                if n.func.attr in ("append", "extend", "reverse"):
                    out.setdefault(n.func.value.id, set()).add(n.func.attr)
    return out


def loaded_names(nodes) -> list[str]:
    """names occurring in the nodes, in source order of their first occurrence"""
    occ = []
    for st in nodes:
        for n in ast.walk(st):
            if isinstance(n, ast.Name):
                occ.append((n.lineno, n.col_offset, n.id))
    out: list[str] = []
    for _, _, name in sorted(occ):
        if name not in out:
            out.append(name)
    return out


# ---------------------------------------------------------------------------------------------


class Ctx:
    """where control goes from the statement being translated"""

    def __init__(self, brk=None, cont=None, in_loop=False):
        self.brk = brk        # env -> lines   (break)
        self.cont = cont      # env -> lines   (continue)
        self.in_loop = in_loop


class FuncTranslator:
    def __init__(self, mod: Module, gen: "Generator", pyname: str, node: ast.FunctionDef):
        self.mod = mod
        self.gen = gen
        self.pyname = pyname
        self.node = node
        self.cls = mod.methods.get(pyname)          # the class, when this is a method taking `self`
        self.lname = lean_name(pyname) if self.cls else lean_name(pyname.replace(".", "_"))
        self.is_init = self.cls is not None and node.name == "__init__"
        self.self_name = None                       # the name of the first parameter of a method
        self.mutates_self = False                   # the method stores into / mutates the state of `self`
        self.init_fields: dict[str, tuple[str, object]] = {}    # __init__: field -> (local variable, type)
        self.aux: list[str] = []          # loop functions, emitted before the main def
        self.tmp = 0
        self.loops = 0
        self.ret_type = None
        self.uses_fuel = False
        self.mutated = mutated_in_place(node.body)
        self.params: list[tuple[str, object, ast.expr | None]] = []   # (name, type, default)
        self.prof = mod.profile
        self.declared: dict[str, object] = {}     # local variables with an annotated declaration
        self.loop_depth = 0                       # > 0 while the text of a loop function is being produced
        self.uses_depth = False                   # takes the recursion-depth budget
        self.scc = gen.scc_of.get(pyname)         # members of the recursive group this function is in
        self.scc_head = gen.head_of.get(pyname)   # its entry function (the one that consumes depth)
        self.is_head = self.scc_head == pyname
        self.ret_annot = None

    # ---- utilities

    def fresh(self) -> str:
        self.tmp += 1
        return f"t{self.tmp}_"

    def var(self, name: str) -> str:
        n = name if name not in LEAN_KEYWORDS else name + "_py"
        return n

    def lookup(self, node, env, name):
        if name not in env:
            raise Unsupported(node, f"variable {name!r} is not definitely bound here")
        return env[name]

    # ---- signature

    def signature(self):
        a = self.node.args
        if a.vararg or a.kwarg or a.posonlyargs:
            raise Unsupported(self.node, "*args/**kwargs/positional-only parameters")
        args = list(a.args)
        defaults = [None] * (len(args) - len(a.defaults)) + list(a.defaults)
        if "." in self.pyname:            # classmethod: drop cls
            if self.cls:
                if not args:
                    raise Unsupported(self.node, "method without self")
                self.self_name = args[0].arg
                if not self.is_init:
                    self.gen.class_fields_of(self.cls, self.node)      # translates __init__ first
                    self.params.append((self.self_name, ("obj", self.cls), None))
                    self.mutates_self = self.find_self_mutation()
            args, defaults = args[1:], defaults[1:]
        for p, d in list(zip(args, defaults)) + list(zip(a.kwonlyargs, a.kw_defaults)):
            if p.annotation is None:
                raise Unsupported(p, f"parameter {p.arg} has no annotation")
            if self.cls:
                try:
                    ty = self.mod.ann_type(p.annotation)
                except Unsupported:
                    # a parameter the body never mentions cannot influence it: dropped (`__exit__(exc_type, ..)`)
                    if any(isinstance(n, ast.Name) and n.id == p.arg for st in self.node.body for n in ast.walk(st)):
                        raise
                    ty = "unused"
            else:
                ty = self.mod.ann_type(p.annotation)
            if self.prof.ext and ty == "str":
                ty = self.gen.str_param_kind(self.pyname, p.arg)
            self.params.append((p.arg, ty, d))
        if self.prof.ext and self.node.returns is not None:
            try:
                self.ret_annot = self.mod.ann_type(self.node.returns)
            except Unsupported:
                self.ret_annot = None

    def kept_params(self):
        return [(n, ty, d) for (n, ty, d) in self.params if ty != "str" and ty != ("opt", "str") and ty != "unused"]

    def find_self_mutation(self) -> bool:
        s = self.self_name
        for st in self.node.body:
            for n in ast.walk(st):
                if isinstance(n, ast.Attribute) and isinstance(n.ctx, ast.Store) and self_root(n) == s:
                    return True
                if isinstance(n, ast.Call) and isinstance(n.func, ast.Attribute) \
                        and n.func.attr in ("append", "extend", "reverse") \
                        and isinstance(n.func.value, ast.Attribute) and self_root(n.func.value) == s:
                    return True
        return False

    def self_type(self):
        return ("obj", self.cls)

    def narrow_binder(self, key: str) -> str:
        """the local variable that holds `self.f` once it is known not to be None"""
        return self.var(key) if "." not in key else key.replace(".", "_").replace("__", "_")

    def translate_init(self) -> str:
        """`__init__`: a sequence of `self.f = e`; becomes the constructor function of the state record.
        Fields that no other method of the class mentions are not part of the record."""
        env = {n: ty for n, ty, _ in self.params}
        lines = []
        for st in self.node.body:
            if isinstance(st, ast.Expr) and isinstance(st.value, ast.Constant) and isinstance(st.value.value, str):
                continue
            if not (isinstance(st, ast.Assign) and len(st.targets) == 1 and isinstance(st.targets[0], ast.Attribute)
                    and isinstance(st.targets[0].value, ast.Name) and st.targets[0].value.id == self.self_name):
                raise Unsupported(st, "__init__ statement other than `self.f = e`")
            f = st.targets[0].attr
            if f in self.init_fields:
                raise Unsupported(st, f"field {f} assigned twice in __init__")
            pre, term, ty = self.expr(st.value, env)
            if ty in ("none", "str", "structB", "unused"):
                raise Unsupported(st, f"cannot type the field {f} from {ast.unparse(st.value)}")
            lv = lean_name(f) + "_"
            lines += pre + [f"let {lv} : {lean_type(ty)} := {term}"]
            self.init_fields[f] = (lv, ty)
        live = self.gen.live_fields(self.cls)
        fields = [(f, lean_name(f), ty) for f, (_, ty) in self.init_fields.items() if f in live]
        self.gen.class_fields[self.cls] = fields
        lit = "({ " + ", ".join(f"{lf} := {self.init_fields[f][0]}" for f, lf, _ in fields) + " } : " + self.cls + ")"
        lines.append(f"Except.ok {lit}")
        self.ret_type = self.self_type()
        rec = any(self.cls in repr(ty) for _, _, ty in fields)
        struct = [f"/-- the state of an `{self.cls}` instance: the fields its `__init__` sets and its methods use -/",
                  f"structure {self.cls} where"]
        struct += [f"  {lf} : {lean_type(ty)}" for _, lf, ty in fields]
        struct += ["  deriving Repr" if rec else "  deriving DecidableEq, Repr"]
        ps = "".join(f" ({self.var(n)} : {lean_type(ty)})" for n, ty, _ in self.kept_params())
        fuel = " (fuel : Nat)" if self.uses_fuel else ""
        doc = f"/-- `{self.pyname}` ({self.prof.file} line {self.node.lineno}): the constructor `{self.cls}(..)` -/"
        head = f"def {self.lname}{fuel}{ps} : Except {self.prof.err} {lean_type_atom(self.ret_type)} := do"
        return "\n\n".join(["\n".join(struct)] + self.aux + [doc + "\n" + head + "\n" + indent(lines, 1)])

    # ---- whole function

    def translate(self) -> str:
        self.signature()
        if self.is_init:
            return self.translate_init()
        env = {}
        for n, ty, _ in self.params:
            env[n] = ty               # message-only (str) parameters stay in env so that they type-check, but
            if n in self.mutated:     # nothing is emitted for them
                raise Unsupported(self.node, f"parameter {n!r} is mutated in place")
        if self.scc_head:
            self.uses_fuel = self.gen.scc_uses_fuel(self.scc_head, self.node)
            self.uses_depth = True
        body = self.block(self.node.body, env, Ctx(), self.fall_off_end)
        if self.ret_type is None:
            self.ret_type = "none"
        if self.scc_head and self.is_head and self.ret_annot != self.ret_type:
            raise Unsupported(self.node, f"recursive function returns {self.ret_type}, annotated {self.ret_annot}")
        ps = "".join(f" ({self.var(n)} : {lean_type(ty)})" for n, ty, _ in self.kept_params())
        fuel = " (fuel : Nat)" if self.uses_fuel else ""
        err = self.prof.err
        doc = f"/-- `{self.pyname}` ({self.prof.file} line {self.node.lineno}) -/"
        if self.scc_head and self.is_head:
            # the entry of a recursive group: structural recursion on the depth budget
            kp = self.kept_params()
            tys = " → ".join(["Nat"] + [lean_type_atom(ty) for _, ty, _ in kp])
            head = [f"def {self.lname}{fuel} : {tys} → Except {err} {lean_type_atom(self.ret_type)}",
                    "  | " + ", ".join(["0"] + ["_"] * len(kp)) + " => Except.error recursionError",
                    "  | " + ", ".join(["depth + 1"] + [self.var(n) for n, _, _ in kp]) + " => do"]
            return "\n\n".join(self.aux + [doc + "\n" + "\n".join(head) + "\n" + indent(body, 2)])
        rec = f" ({self.rec_param()} : {self.gen.rec_type(self.scc_head)})" if self.scc_head else ""
        depth = " (depth : Nat)" if self.uses_depth and not self.scc_head else ""
        head = f"def {self.lname}{rec}{fuel}{depth}{ps} : Except {err} {lean_type_atom(self.ret_type)} := do"
        return "\n\n".join(self.aux + [doc + "\n" + head + "\n" + indent(body, 1)])

    def rec_param(self) -> str:
        return "rec_" + lean_name(self.scc_head.replace(".", "_"))

    def rec_term(self) -> str:
        """the entry function of the recursive group, one level down"""
        if self.is_head and self.loop_depth == 0:
            return f"({self.lname}{' fuel' if self.uses_fuel else ''} depth)"
        return self.rec_param()

    def fall_off_end(self, env):
        if self.mutates_self:
            self.note_return(self.node, self.self_type())
            return [f"Except.ok {self.var(self.self_name)}"]
        self.note_return(self.node, "none")
        return ["Except.ok ()"]

    def note_return(self, node, ty):
        if self.ret_type is None:
            self.ret_type = ty
        elif self.ret_type != ty:
            raise Unsupported(node, f"return types differ: {self.ret_type} vs {ty}")

    # ---- blocks and statements

    def block(self, stmts, env, ctx: Ctx, k):
        """lines of a do-sequence for `stmts` followed by the continuation `k(env)`"""
        env = dict(env)
        lines: list[str] = []
        for pos, st in enumerate(stmts):
            rest = stmts[pos + 1:]
            if isinstance(st, ast.Expr) and isinstance(st.value, ast.Constant) and isinstance(st.value.value, str):
                continue                                  # docstring
            if isinstance(st, ast.Pass):
                continue
            if isinstance(st, ast.If):
                lines += self.if_stmt(st, rest, env, ctx, k)
                return lines
            if isinstance(st, ast.Return):
                lines += self.return_stmt(st, env)
                return lines
            if isinstance(st, ast.Raise):
                lines += self.raise_stmt(st, env)
                return lines
            if isinstance(st, ast.Try) and self.prof.ext:
                lines += self.try_stmt(st, env, ctx)
                continue
            if isinstance(st, ast.Break):
                if ctx.brk is None:
                    raise Unsupported(st, "break outside a loop")
                lines += ctx.brk(env)
                return lines
            if isinstance(st, ast.Continue):
                if ctx.cont is None:
                    raise Unsupported(st, "continue outside a loop")
                lines += ctx.cont(env)
                return lines
            if isinstance(st, ast.While):
                lines += self.while_stmt(st, env)
                continue
            if isinstance(st, ast.For):
                lines += self.for_stmt(st, env)
                continue
            lines += self.simple_stmt(st, env)
        lines += k(env)
        return lines

    def simple_stmt(self, st, env) -> list[str]:
        decl_ann = None
        if isinstance(st, ast.AnnAssign) and st.value is not None and isinstance(st.target, ast.Name):
            decl_ann = st.annotation if self.prof.ext else None
            st = ast.copy_location(ast.Assign(targets=[st.target], value=st.value), st)
        if isinstance(st, ast.Assign):
            if len(st.targets) != 1:
                raise Unsupported(st, "chained assignment")
            tgt = st.targets[0]
            if isinstance(tgt, ast.Name):
                if isinstance(st.value, ast.Name) and (st.value.id in self.mutated or tgt.id in self.mutated) \
                        and env.get(st.value.id) == "bytes":
                    raise Unsupported(st, f"aliasing of a mutated bytearray: {tgt.id} = {st.value.id}")
                pre, term, ty = self.expr(st.value, env)
                if decl_ann is not None:
                    # an annotated declaration fixes the type of the variable for the whole function
                    self.declared[tgt.id] = self.resolve_str(self.mod.ann_type(decl_ann), ty)
                if tgt.id in self.declared:
                    term = self.coerce(st, term, ty, self.declared[tgt.id])
                    ty = self.declared[tgt.id]
                if ty in ("str", ("opt", "str")):
                    env[tgt.id] = "str"
                    return []                          # message text: dropped
                if ty == "structB":
                    raise Unsupported(st, "struct.unpack result used other than under [0]")
                if self.prof.ext and ty in ("none", "emptylist"):
                    raise Unsupported(st, f"cannot type the variable {tgt.id!r} from {ast.unparse(st.value)}")
                env[tgt.id] = ty
                r = rebind(pre, term, self.var(tgt.id))
                if r is not None:
                    return r
                return pre + [f"let {self.var(tgt.id)} : {lean_type(ty)} := {term}"]
            if isinstance(tgt, ast.Tuple) and all(isinstance(e, ast.Name) for e in tgt.elts):
                pre, term, ty = self.expr(st.value, env)
                names = [e.id for e in tgt.elts]
                if isinstance(ty, tuple) and ty[0] == "tuple" and len(ty[1]) == len(names):
                    post = []
                    pnames = []
                    for n, t_ in zip(names, ty[1]):
                        if n in self.declared and self.declared[n] != t_:
                            tmp = self.fresh()
                            post.append(f"let {self.var(n)} : {lean_type(self.declared[n])} := "
                                        f"{self.coerce(st, tmp, t_, self.declared[n])}")
                            env[n] = self.declared[n]
                            pnames.append(tmp)
                        else:
                            env[n] = t_
                            pnames.append(self.var(n))
                    if post:
                        pat = ", ".join(pnames)
                        r = rebind(pre, term, f"({pat})")
                        if r is not None:
                            return r + post
                        return pre + [f"let ({pat}) : {lean_type(ty)} := {term}"] + post
                    pat = ", ".join(self.var(n) for n in names)
                    r = rebind(pre, term, f"({pat})")
                    if r is not None:
                        return r
                    return pre + [f"let ({pat}) : {lean_type(ty)} := {term}"]
                if isinstance(ty, tuple) and ty[0] == "nt" and len(self.mod.nts[ty[1]]) == len(names):
                    out = list(pre)
                    if not is_atom(term):
                        t = self.fresh()
                        out.append(f"let {t} : {lean_type(ty)} := {term}")
                        term = t
                    for n, (f, fty) in zip(names, self.mod.nts[ty[1]]):
                        env[n] = fty
                        out.append(f"let {self.var(n)} : {lean_type(fty)} := {term}.{f}")
                    return out
                raise Unsupported(st, f"cannot unpack a value of type {ty} into {len(names)} names")
            if isinstance(tgt, ast.Subscript) and isinstance(tgt.value, ast.Name):
                return self.store(st, tgt, None, st.value, env)
            if isinstance(tgt, ast.Attribute) and self.cls and self_root(tgt) == self.self_name:
                # `self.f = e`: the record `self` is rebound with the field replaced
                _, fty, setter = self.place(tgt, env)
                pre, term, ty = self.expr(st.value, env)
                out = pre + setter(self.coerce(st, term, ty, fty))
                env.pop(ast.unparse(tgt), None)          # a narrowing of the old value is gone
                return out
            raise Unsupported(st, "assignment target outside the subset")
        if isinstance(st, ast.AugAssign):
            if isinstance(st.target, ast.Name):
                name = st.target.id
                load = ast.copy_location(ast.Name(id=name, ctx=ast.Load()), st)
                val = ast.copy_location(ast.BinOp(left=load, op=st.op, right=st.value), st)
                pre, term, ty = self.expr(val, env)
                env[name] = ty
                return pre + [f"let {self.var(name)} : {lean_type(ty)} := {term}"]
            if isinstance(st.target, ast.Subscript) and isinstance(st.target.value, ast.Name):
                return self.store(st, st.target, st.op, st.value, env)
            raise Unsupported(st, "augmented assignment target outside the subset")
        if isinstance(st, ast.Expr) and isinstance(st.value, ast.Call):
            f = st.value.func
            if self.cls and isinstance(f, ast.Attribute) and isinstance(f.value, ast.Attribute) \
                    and f.attr in ("append", "extend", "reverse") and self_root(f.value) == self.self_name:
                # `self.x.extend(e)`, `self.p.x.extend(e)`: the bytearray is a field of a state record
                get, pty, setter = self.place(f.value, env)
                if pty != "bytes":
                    raise Unsupported(st, f".{f.attr} on a non-bytearray")
                args = st.value.args
                if st.value.keywords:
                    raise Unsupported(st, f"keyword argument of .{f.attr}")
                if f.attr == "reverse" and not args:
                    return setter(f"{atom(get)}.reverse")
                if f.attr == "append" and len(args) == 1:
                    pre, term, ty = self.expr(args[0], env)
                    self.want(st, ty, "int")
                    t = self.fresh()
                    return pre + [f"let {t} ← baAppend {atom(get)} {atom(term)}"] + setter(t)
                if f.attr == "extend" and len(args) == 1:
                    pre, term, ty = self.expr(args[0], env)
                    self.want(st, ty, "bytes")
                    return pre + setter(f"{atom(get)} ++ {atom(term)}")
                raise Unsupported(st, f"arguments of .{f.attr}")
            if self.prof.ext and isinstance(f, ast.Attribute) and f.attr == "pop":
                pre, _, _ = self.expr(st.value, env)      # the value popped is discarded
                return pre
            if isinstance(f, ast.Attribute) and isinstance(f.value, ast.Name) and f.attr in ("append", "extend", "reverse"):
                name = f.value.id
                lty = self.lookup(st, env, name)
                if self.prof.ext and isinstance(lty, tuple) and lty[0] == "list" and f.attr == "append" \
                        and len(st.value.args) == 1:
                    pre, term, ty = self.expr(st.value.args[0], env)
                    term = self.coerce(st, term, ty, lty[1])
                    return pre + [f"let {self.var(name)} : {lean_type(lty)} := {self.var(name)} ++ [{term}]"]
                if lty != "bytes":
                    raise Unsupported(st, f".{f.attr} on a non-bytearray")
                v = self.var(name)
                args = st.value.args
                if f.attr == "reverse" and not args:
                    return [f"let {v} : List Nat := {v}.reverse"]
                if f.attr == "append" and len(args) == 1:
                    pre, term, ty = self.expr(args[0], env)
                    self.want(st, ty, "int")
                    return pre + [f"let {v} ← baAppend {v} {atom(term)}"]
                if f.attr == "extend" and len(args) == 1:
                    pre, term, ty = self.expr(args[0], env)
                    self.want(st, ty, "bytes")
                    return pre + [f"let {v} : List Nat := {v} ++ {atom(term)}"]
        raise Unsupported(st, f"statement outside the subset: {type(st).__name__}")

    def store(self, st, tgt, op, value, env) -> list[str]:
        name = tgt.value.id
        if self.lookup(st, env, name) != "bytes":
            raise Unsupported(st, "subscript store on a non-bytearray")
        if isinstance(tgt.slice, ast.Slice):
            raise Unsupported(st, "slice assignment")
        v = self.var(name)
        out, idx, ity = self.expr(tgt.slice, env)
        self.want(st, ity, "int")
        if op is not None:
            if not is_atom(idx):
                t = self.fresh()
                out.append(f"let {t} : Int := {idx}")
                idx = t
            cur = self.fresh()
            out.append(f"let {cur} ← getItem {v} {atom(idx)}")
            pre, term, ty = self.expr(value, env)
            self.want(st, ty, "int")
            out += pre
            term = self.int_binop(st, op, cur, term, pre_out=out)
        else:
            pre, term, ty = self.expr(value, env)
            self.want(st, ty, "int")
            out += pre
        out.append(f"let {v} ← setItem {v} {atom(idx)} {atom(term)}")
        return out

    def place(self, node, env):
        """(term, type, setter) for an assignable place `self.f` / `self.f.g` / a narrowed `self.f`;
        `setter(new)` gives the lines that rebind `self` (and the narrowed local) with the place replaced"""
        if isinstance(node, ast.Name):
            ty = self.lookup(node, env, node.id)
            v = self.var(node.id)
            return v, ty, (lambda new: [f"let {v} : {lean_type(ty)} := {new}"])
        if not isinstance(node, ast.Attribute):
            raise Unsupported(node, "assignment through something other than an attribute chain")
        key = ast.unparse(node)
        if key in env and isinstance(node.value, ast.Name) and node.value.id == self.self_name:
            # `self.f` narrowed to a local: the local changes and is written back as `some local`
            b = self.narrow_binder(key)
            ty = env[key]
            _, oty, oset = self.place_field(node, env)
            return b, ty, (lambda new: [f"let {b} : {lean_type(ty)} := {new}"] + oset(f"some {b}"))
        return self.place_field(node, env)

    def place_field(self, node, env):
        g, oty, oset = self.place(node.value, env)
        if not (isinstance(oty, tuple) and oty[0] == "obj"):
            raise Unsupported(node, f"attribute .{node.attr} of a {oty} as an assignment target")
        for f, lf, fty in self.gen.class_fields_of(oty[1], node):
            if f == node.attr:
                return f"{atom(g)}.{lf}", fty, (lambda new: oset(f"{{ {g} with {lf} := {new} }}"))
        raise Unsupported(node, f"{oty[1]} has no field {node.attr} (fields are those set by __init__)")

    def want(self, node, ty, expected):
        if ty != expected:
            raise Unsupported(node, f"expected {expected}, got {ty}")

    def return_stmt(self, st, env):
        if self.mutates_self:
            # a method that changes the state of `self` returns the new state (beside its value, if any)
            sv = self.var(self.self_name)
            if st.value is None or (isinstance(st.value, ast.Constant) and st.value.value is None):
                self.note_return(st, self.self_type())
                return [f"Except.ok {sv}"]
            pre, term, ty = self.expr(st.value, env)
            self.note_return(st, ("tuple", (ty, self.self_type())))
            return pre + [f"Except.ok ({term}, {sv})"]
        if st.value is None:
            self.note_return(st, "none")
            return ["Except.ok ()"]
        pre, term, ty = self.expr(st.value, env)
        self.note_return(st, ty)
        if pre and pre[-1].startswith(f"let {term} ← "):
            return pre[:-1] + [pre[-1][len(f"let {term} ← "):]]          # tail call
        return pre + [f"Except.ok {atom(term)}"]

    def raise_stmt(self, st, env=None):
        if st.exc is None:
            raise Unsupported(st, "bare raise")
        exc = st.exc.func if isinstance(st.exc, ast.Call) else st.exc
        if isinstance(exc, ast.Name) and exc.id in self.prof.syntax_errors and isinstance(st.exc, ast.Call) \
                and exc.id in self.mod.exc_params:
            # FilterSyntaxError(msg, filter=…, offset=…, length=…): message and filter dropped, offset and length kept
            names = self.mod.exc_params[exc.id]
            given = dict(zip(names, st.exc.args))
            for kw in st.exc.keywords:
                if kw.arg is None or kw.arg in given or kw.arg not in names:
                    raise Unsupported(st, f"bad argument {kw.arg} of {exc.id}")
                given[kw.arg] = kw.value
            if "offset" not in given or "length" not in given:
                raise Unsupported(st, f"{exc.id} without offset/length")
            pre = []
            vals = []
            order = [n for n in names if n in given and n in ("offset", "length")]
            order.sort(key=lambda n: (given[n].lineno, given[n].col_offset))    # evaluation order as written
            terms = {}
            for n in order:
                p, t_, ty = self.expr(given[n], env)
                self.want(st, ty, "int")
                pre += p
                terms[n] = t_
            return pre + [f"Except.error ({self.prof.syntax_errors[exc.id]} {atom(terms['offset'])} {atom(terms['length'])})"]
        if isinstance(exc, ast.Name) and exc.id in self.mod.exceptions and not self.prof.ext:
            return [f"Except.error {self.mod.exceptions[exc.id]}"]      # message arguments are dropped
        raise Unsupported(st, f"raise of {ast.unparse(exc)}")

    def try_stmt(self, st, env, ctx):
        """try: <assignments/calls>  except RecursionError: raise …   (env is updated in place)"""
        if st.orelse or st.finalbody or len(st.handlers) != 1:
            raise Unsupported(st, "try with else/finally/several handlers")
        h = st.handlers[0]
        if not (isinstance(h.type, ast.Name) and h.type.id == "RecursionError" and h.name is None):
            raise Unsupported(st, "except clause other than `except RecursionError:`")
        if not (len(h.body) == 1 and isinstance(h.body[0], ast.Raise)):
            raise Unsupported(st, "RecursionError handler other than a single raise")
        if has_jump(st.body) or has_return(st.body):
            raise Unsupported(st, "jump inside try")
        names = [n for n in assigned_names(st.body)]
        box = {}

        def capture(env2):
            box["env"] = env2
            live = [n for n in names if env2.get(n) not in (None, "str")]
            box["names"] = live
            return [f"Except.ok {self.tuple_of(live)}"]

        body = self.block(st.body, env, ctx, capture)
        handler = self.raise_stmt(h.body[0], env)
        live = box["names"]
        for n in live:
            env[n] = box["env"][n]
        out = [f"let {self.tuple_of(live) if live else '_'} ← tryRecursion"]
        out += indent_lines(["(" + do_block(body)[0]] + do_block(body)[1:-1] + [do_block(body)[-1] + ")"]
                            if len(do_block(body)) > 1 else ["(" + do_block(body)[0] + ")"], 2)
        hb = do_block(handler)
        out += indent_lines(["(" + hb[0]] + hb[1:-1] + [hb[-1] + ")"] if len(hb) > 1 else ["(" + hb[0] + ")"], 2)
        return out

    # ---- if

    def narrowing(self, test, env):
        """(name, truthy_means_some) when the test is `v` / `not v` for an Optional named tuple"""
        neg = False
        while isinstance(test, ast.UnaryOp) and isinstance(test.op, ast.Not):
            neg = not neg
            test = test.operand
        if self.prof.ext and isinstance(test, ast.Compare) and len(test.ops) == 1 \
                and isinstance(test.ops[0], (ast.Is, ast.IsNot)) and isinstance(test.left, ast.Name) \
                and isinstance(test.comparators[0], ast.Constant) and test.comparators[0].value is None:
            ty = env.get(test.left.id)
            if isinstance(ty, tuple) and ty[0] == "opt":
                is_none = isinstance(test.ops[0], ast.Is)
                return test.left.id, (is_none == neg)
            return None
        if isinstance(test, ast.Name):
            ty = env.get(test.id)
            if isinstance(ty, tuple) and ty[0] == "opt":
                if not self.always_truthy(ty[1]):
                    raise Unsupported(test, f"truth value of Optional[{ty[1]}]")
                return test.id, not neg
        if self.cls and not self.is_init and isinstance(test, ast.Attribute) and isinstance(test.value, ast.Name) \
                and test.value.id == self.self_name and ast.unparse(test) not in env:
            # `self.f` / `not self.f` for an Optional field: the key is the text `self.f`
            for f, lf, fty in self.gen.class_fields_of(self.cls, test):
                if f == test.attr and isinstance(fty, tuple) and fty[0] == "opt":
                    if not self.always_truthy(fty[1]):
                        raise Unsupported(test, f"truth value of Optional[{fty[1]}]")
                    return ast.unparse(test), not neg
        return None

    def always_truthy(self, ty) -> bool:
        """instances are always true: a non-empty named tuple, or a class without __bool__ / __len__"""
        if isinstance(ty, tuple) and ty[0] == "nt":
            return bool(self.mod.nts[ty[1]])
        if isinstance(ty, tuple) and ty[0] == "obj":
            return not any(isinstance(st, ast.FunctionDef) and st.name in ("__bool__", "__len__")
                           for st in self.mod.classes[ty[1]].body)
        return False

    def narrow_info(self, key, env):
        """(scrutinee term, type) of a narrowing key (a variable name or the text `self.f`)"""
        if "." not in key:
            return self.var(key), env[key]
        attr = key.split(".", 1)[1]
        for f, lf, fty in self.gen.class_fields_of(self.cls, self.node):
            if f == attr:
                return f"{self.var(self.self_name)}.{lf}", fty
        raise Unsupported(self.node, f"no field {attr}")

    def if_stmt(self, st, rest, env, ctx, k):
        def after(env2):
            return self.block(rest, env2, ctx, k)

        if self.cls and isinstance(st.test, ast.BoolOp) and isinstance(st.test.op, ast.Or) and not st.orelse \
                and always_leaves(st.body) and any(self.narrowing(v, env) for v in st.test.values):
            # `if A or B: <leaves>` is `if A: <leaves>` followed by `if B: <leaves>` (short circuit), which lets
            # each operand narrow an Optional for the statements that follow
            vals = st.test.values
            first = ast.copy_location(ast.If(test=vals[0], body=st.body, orelse=[]), st)
            more = vals[1] if len(vals) == 2 else ast.copy_location(ast.BoolOp(op=ast.Or(), values=vals[1:]), st.test)
            second = ast.copy_location(ast.If(test=more, body=st.body, orelse=[]), st)
            return self.if_stmt(first, [second] + list(rest), env, ctx, k)
        nar = self.narrowing(st.test, env)
        if nar:
            name, truthy_some = nar
            scrut, oty = self.narrow_info(name, env)
            binder = self.narrow_binder(name)
            env_some = dict(env)
            env_some[name] = oty[1]
            some_body, none_body = (st.body, st.orelse) if truthy_some else (st.orelse, st.body)
            arms = [("none", none_body, env), (f"some {binder}", some_body, env_some)]
            pre = []

            def wrap(parts):
                out = [f"match {scrut} with"]
                for (pat, _, _), lines in zip(arms, parts):
                    out.append(f"| {pat} =>")
                    out += indent_lines(lines, 1)
                return out

            def wrap_expr(parts):
                return "(" + f"match {scrut} with " + " ".join(
                    f"| {pat} => {p}" for (pat, _, _), p in zip(arms, parts)) + ")"
        else:
            pre, c = self.cond(st.test, env)
            arms = [("then", st.body, env), ("else", st.orelse, env)]

            def wrap(parts):
                return ([f"if {c} then"] + indent_lines(parts[0], 1) + ["else"] + indent_lines(parts[1], 1))

            def wrap_expr(parts):
                return f"(if {c} then {parts[0]} else {parts[1]})"

        leaves = [always_leaves(b) for _, b, _ in arms]
        jumps = [has_jump(b) for _, b, _ in arms]

        if any(leaves) or any(jumps):
            # a branch that always leaves does not need the continuation; otherwise it is duplicated
            parts = []
            for (_, body, e), lv in zip(arms, leaves):
                parts.append(do_block(self.block(body, e, ctx, (lambda env2: ["unreachable"]) if lv else after)))
            return pre + wrap(parts)

        # no jumps: merge the variables assigned by either branch (two passes: the first learns the types)
        snap = self.snapshot()
        envs = []
        for _, body, e in arms:
            box = {}

            def capture(env2, box=box):
                box["env"] = env2
                return ["<<MERGE>>"]

            self.block(body, e, ctx, capture)
            envs.append(box["env"])
        self.restore(snap)
        cands = []
        for _, body, _ in arms:
            for n in assigned_names(body):
                if n not in cands:
                    cands.append(n)
        merged = []
        for n in cands:
            tys = [envb.get(n) for envb in envs]
            if any(t_ is None for t_ in tys):
                continue                       # bound on one path only: local to that branch
            if tys[0] != tys[1]:
                raise Unsupported(st, f"variable {n!r} has type {tys[0]} on one branch and {tys[1]} on the other")
            if tys[0] == "str":
                continue
            merged.append((n, tys[0]))
        new_env = dict(env)
        for n, ty in merged:
            new_env[n] = ty
        if not merged:
            tup, tup_ty = "()", "Unit"
        else:
            tup = ", ".join(self.var(n) for n, _ in merged)
            tup = f"({tup})" if len(merged) > 1 else tup
            tup_ty = " × ".join(lean_type_atom(ty) for _, ty in merged)
        final = f"Except.ok {tup}"
        results = [self.block(body, e, ctx, lambda env2: [final]) for _, body, e in arms]
        pure = all(lines[-1] == final and lines_pure(lines[:-1]) for lines in results)
        if pure:
            if not merged:
                return pre + after(new_env)
            heads = [f"match {scrut} with", None] if nar else [f"if {c} then", "else"]
            if nar:
                heads = [f"| {pat} =>" for pat, _, _ in arms]
                text = [f"let {tup} : {tup_ty} := match {scrut} with"]
            else:
                heads = [f"if {c} then", "else"]
                text = [f"let {tup} : {tup_ty} :="]
            for h, lines in zip(heads, results):
                body_lines = lines[:-1]
                if body_lines:
                    text.append("  " + h)
                    text += indent_lines(body_lines + [tup], 2)
                else:
                    text.append(f"  {h} {tup}")
            return pre + text + after(new_env)
        parts = [do_block(lines) for lines in results]
        w = wrap(parts)
        binder = tup if merged else "_"
        w[0] = f"let {binder} ← (" + w[0]
        w[-1] = w[-1] + ")"
        return pre + [w[0]] + indent_lines(w[1:], 1) + after(new_env)

    def snapshot(self):
        return (len(self.aux), self.loops, self.tmp)

    def restore(self, snap):
        del self.aux[snap[0]:]
        self.loops, self.tmp = snap[1], snap[2]

    # ---- loops

    def loop_vars(self, st, env, extra_nodes=()):
        body_assigned = assigned_names(st.body)
        carried = [n for n in body_assigned if n in env and env[n] != "str"]
        # read-only variables of the loop, in the order in which the loop text first mentions them (so that
        # the parameter order does not depend on the order of the statements before the loop)
        names = loaded_names(list(extra_nodes) + list(st.body))
        fixed = [n for n in names if n in env and n not in carried and env[n] != "str" and env[n] != ("opt", "str")]
        return carried, fixed

    def tuple_of(self, names):
        if not names:
            return "()"
        s = ", ".join(self.var(n) for n in names)
        return f"({s})" if len(names) > 1 else s

    def tuple_type(self, names, env):
        if not names:
            return "Unit"
        return " × ".join(lean_type_atom(env[n]) for n in names)

    def check_stable(self, st, carried, env, env2):
        for n in carried:
            if env2.get(n) != env[n]:
                if self.prof.ext and env[n] == ("opt", env2.get(n)):
                    continue                # narrowed inside the body: re-wrapped by carried_args
                raise Unsupported(st, f"loop-carried variable {n!r} changes type ({env[n]} → {env2.get(n)})")

    def carried_terms(self, carried, env, env2):
        """the carried variables as terms of their loop types (a variable narrowed to T is `some v` again)"""
        return [self.var(n) if env2.get(n) == env[n] else f"(some {self.var(n)})" for n in carried]

    def carried_result(self, carried, env, env2):
        ts = self.carried_terms(carried, env, env2)
        if not ts:
            return "()"
        return "(" + ", ".join(ts) + ")" if len(ts) > 1 else ts[0]

    def while_stmt(self, st, env):
        if st.orelse:
            raise Unsupported(st, "while … else")
        if has_return(st.body):
            raise Unsupported(st, "return inside a loop")
        self.uses_fuel = True
        self.loops += 1
        fname = f"{self.lname}_while{self.loops}"
        carried, fixed = self.loop_vars(st, env, [st.test])
        res = self.tuple_of(carried)
        res_ty = self.tuple_type(carried, env)
        fixed_args = "".join(f" {self.var(n)}" for n in fixed)

        rec_outer = f" {self.rec_term()}" if self.scc_head else ""
        rec_inner = f" {self.rec_param()}" if self.scc_head else ""
        rec_sig = f" ({self.rec_param()} : {self.gen.rec_type(self.scc_head)})" if self.scc_head else ""

        def again(env2):
            self.check_stable(st, carried, env, env2)
            return [f"{fname}{rec_inner}{fixed_args} fuel" + "".join(f" {t_}" for t_ in self.carried_terms(carried, env, env2))]

        def done(env2):
            self.check_stable(st, carried, env, env2)
            return [f"Except.ok {self.carried_result(carried, env, env2)}"]

        ctx = Ctx(brk=done, cont=again, in_loop=True)
        self.loop_depth += 1
        body = self.block(st.body, env, ctx, again)
        always = isinstance(st.test, ast.Constant) and st.test.value is True
        if always:
            lines = body
        else:
            pre, c = self.cond(st.test, env)
            lines = pre + [f"if {c} then"] + indent_lines(do_block(body), 1) + ["else"] + indent_lines(done(env), 1)
        self.loop_depth -= 1
        sig = rec_sig + "".join(f" ({self.var(n)} : {lean_type(env[n])})" for n in fixed)
        tys = " → ".join(["Nat"] + [lean_type_atom(env[n]) for n in carried])
        wild = ", ".join(["0"] + ["_"] * len(carried))
        pat = ", ".join(["fuel + 1"] + [self.var(n) for n in carried])
        text = [f"/-- the `while` loop at {self.prof.file} line {st.lineno} of `{self.pyname}`; carried: {', '.join(carried) or '-'} -/",
                f"def {fname}{sig} : {tys} → Except {self.prof.err} {paren(res_ty) if carried else 'Unit'}",
                f"  | {wild} => Except.error fuelError",
                f"  | {pat} => do"] + indent_lines(lines, 2)
        self.aux.append("\n".join(text))
        call = f"{fname}{rec_outer}{fixed_args} fuel" + "".join(f" {self.var(n)}" for n in carried)
        return [f"let {res if carried else '_'} ← {call}"]

    def for_stmt(self, st, env):
        if st.orelse:
            raise Unsupported(st, "for … else")
        if has_return(st.body):
            raise Unsupported(st, "return inside a loop")
        it = st.iter
        # loop targets
        if isinstance(st.target, ast.Name):
            targets = [st.target.id]
        elif isinstance(st.target, ast.Tuple) and all(isinstance(e, ast.Name) for e in st.target.elts):
            targets = [e.id for e in st.target.elts]
        else:
            raise Unsupported(st, "for target outside the subset")
        for tname in targets:
            if tname in assigned_names(st.body):
                raise Unsupported(st, f"loop variable {tname!r} is assigned in the loop body")
        self.loops += 1
        fname = f"{self.lname}_for{self.loops}"
        pre: list[str] = []
        kind = None
        if isinstance(it, ast.Call) and isinstance(it.func, ast.Name) and it.func.id == "range" and not it.keywords:
            if len(targets) != 1:
                raise Unsupported(st, "tuple target over range")
            args = it.args
            step = 1
            if len(args) == 3:
                s = args[2]
                if isinstance(s, ast.UnaryOp) and isinstance(s.op, ast.USub) and isinstance(s.operand, ast.Constant) \
                        and s.operand.value == 1:
                    step = -1
                elif isinstance(s, ast.Constant) and s.value == 1:
                    step = 1
                else:
                    raise Unsupported(st, "range step other than 1 / -1")
                args = args[:2]
            if len(args) == 1:
                start_t = "0"
                p2, stop_t, ty2 = self.expr(args[0], env)
                self.want(st, ty2, "int")
                pre += p2
            elif len(args) == 2:
                p1, start_t, ty1 = self.expr(args[0], env)
                self.want(st, ty1, "int")
                p2, stop_t, ty2 = self.expr(args[1], env)
                self.want(st, ty2, "int")
                pre += p1 + p2
            else:
                raise Unsupported(st, "range() arity")
            kind = "range"
            count = f"({'rangeLen' if step == 1 else 'rangeLenDown'} {atom(start_t)} {atom(stop_t)})"
            idx_name = targets[0]
        else:
            enum = False
            src = it
            if isinstance(it, ast.Call) and isinstance(it.func, ast.Name) and it.func.id == "enumerate" \
                    and len(it.args) == 1 and not it.keywords:
                enum = True
                src = it.args[0]
                if len(targets) != 2:
                    raise Unsupported(st, "enumerate needs a pair target")
            elif len(targets) != 1:
                raise Unsupported(st, "tuple target over a byte sequence")
            p, src_t, sty = self.expr(src, env)
            elem_ty = "int"
            if self.prof.ext and isinstance(sty, tuple) and sty[0] == "list":
                elem_ty = sty[1]
            else:
                self.want(st, sty, "bytes")
            pre += p
            muts = set()
            if isinstance(src, ast.Name):
                muts = mutated_in_place(st.body).get(src.id, set())
                if src.id in [n for n in assigned_names(st.body)] and not muts:
                    muts = set()        # rebinding the name does not touch the object being iterated
            if muts - {"store"}:
                raise Unsupported(st, f"the sequence iterated is resized/reordered in the loop body ({sorted(muts)})")
            kind = "live" if muts else "list"
            if kind == "live" and elem_ty != "int":
                raise Unsupported(st, "the list iterated is stored into by the loop body")
            val_name = targets[-1]
            idx_name = targets[0] if enum else None

        env_body = dict(env)
        if kind == "range":
            env_body[idx_name] = "int"
        else:
            env_body[val_name] = elem_ty
            if idx_name:
                env_body[idx_name] = "int"
        carried, fixed = self.loop_vars(st, env, [])
        fixed = [n for n in fixed if n not in targets]
        res = self.tuple_of(carried)
        res_ty = self.tuple_type(carried, env)
        uses_fuel_before = self.uses_fuel
        self.uses_fuel = False
        rec_outer = f" {self.rec_term()}" if self.scc_head else ""
        rec_inner = f" {self.rec_param()}" if self.scc_head else ""
        rec_sig = f" ({self.rec_param()} : {self.gen.rec_type(self.scc_head)})" if self.scc_head else ""
        self.loop_depth += 1
        # body first, to learn whether it needs fuel
        pos = "pos_" if kind == "live" else None

        def again_args(env2):
            self.check_stable(st, carried, env, env2)
            return "".join(f" {t_}" for t_ in self.carried_terms(carried, env, env2))

        def again(env2):
            a = again_args(env2)
            fx = rec_inner + "".join(f" {self.var(n)}" for n in fixed)
            fl = " fuel" if self.uses_fuel else ""
            if kind == "range":
                nxt = f"({self.var(idx_name)} {'+' if step == 1 else '-'} 1)"
                return [f"{fname}{fl}{fx} n_ {nxt}{a}"]
            if kind == "list":
                i = f" ({self.var(idx_name)} + 1)" if idx_name else ""
                return [f"{fname}{fl}{fx} rest_{i}{a}"]
            return [f"{fname}{fl}{fx} n_ (pos_ + 1){a}"]

        def done(env2):
            self.check_stable(st, carried, env, env2)
            return [f"Except.ok {self.carried_result(carried, env, env2)}"]

        ctx = Ctx(brk=done, cont=again, in_loop=True)
        snap = self.snapshot()
        body = self.block(st.body, env_body, ctx, again)
        if self.uses_fuel:
            # the recursive calls were rendered before we knew: re-render
            self.restore(snap)
            body = self.block(st.body, env_body, ctx, again)
        self.loop_depth -= 1
        body_fuel = self.uses_fuel
        self.uses_fuel = uses_fuel_before or body_fuel
        fl_sig = " (fuel : Nat)" if body_fuel else ""
        fl_arg = " fuel" if body_fuel else ""
        sig = rec_sig + fl_sig + "".join(f" ({self.var(n)} : {lean_type(env[n])})" for n in fixed)
        fixed_args = "".join(f" {self.var(n)}" for n in fixed)
        ctys = [lean_type_atom(env[n]) for n in carried]
        cpat = [self.var(n) for n in carried]
        ret = f"Except {self.prof.err} {paren(res_ty) if carried else 'Unit'}"
        doc = f"/-- the `for` loop at {self.prof.file} line {st.lineno} of `{self.pyname}`; carried: {', '.join(carried) or '-'} -/"
        if kind == "range":
            tys = " → ".join(["Nat", "Int"] + ctys)
            text = [doc, f"def {fname}{sig} : {tys} → {ret}",
                    "  | " + ", ".join(["0", "_"] + cpat) + f" => Except.ok {res}",
                    "  | " + ", ".join(["n_ + 1", self.var(idx_name)] + cpat) + " => do"] + indent_lines(body, 2)
            call = f"{fname}{rec_outer}{fl_arg}{fixed_args} {count} {atom(start_t)}" + "".join(f" {c}" for c in cpat)
        elif kind == "list":
            tys = " → ".join([("List Nat" if elem_ty == "int" else f"List {lean_type_atom(elem_ty)}")]
                             + (["Int"] if idx_name else []) + ctys)
            bind = (f"    let {self.var(val_name)} : Int := (b_ : Int)" if elem_ty == "int"
                    else f"    let {self.var(val_name)} : {lean_type(elem_ty)} := b_")
            ip = [self.var(idx_name)] if idx_name else []
            text = [doc, f"def {fname}{sig} : {tys} → {ret}",
                    "  | " + ", ".join(["[]"] + (["_"] if idx_name else []) + cpat) + f" => Except.ok {res}",
                    "  | " + ", ".join(["b_ :: rest_"] + ip + cpat) + " => do",
                    bind] + indent_lines(body, 2)
            call = f"{fname}{rec_outer}{fl_arg}{fixed_args} {atom(src_t)}" + (" 0" if idx_name else "") + "".join(f" {c}" for c in cpat)
        else:
            tys = " → ".join(["Nat", "Int"] + ctys)
            lines = [f"let {self.var(val_name)} ← getItem {atom(src_t)} pos_"]
            if idx_name:
                lines.append(f"let {self.var(idx_name)} : Int := pos_")
            text = [doc + "\n/- the bytearray iterated is stored into by the body (its length is unchanged): the iterator\n"
                    "   re-reads the live object at each position, as CPython's bytearray iterator does -/",
                    f"def {fname}{sig} : {tys} → {ret}",
                    "  | " + ", ".join(["0", "_"] + cpat) + f" => Except.ok {res}",
                    "  | " + ", ".join(["n_ + 1", "pos_"] + cpat) + " => do"] + indent_lines(lines + body, 2)
            call = f"{fname}{rec_outer}{fl_arg}{fixed_args} {atom(src_t)}.length 0" + "".join(f" {c}" for c in cpat)
        self.aux.append("\n".join(text))
        return pre + [f"let {res if carried else '_'} ← {call}"]

    # ---- conditions (Lean Props, decidable)

    def cond(self, node, env):
        """(pre, prop) for the truth value of `node`"""
        if isinstance(node, ast.UnaryOp) and isinstance(node.op, ast.Not):
            pre, c = self.cond(node.operand, env)
            return pre, f"¬ {atom(c)}"
        if isinstance(node, ast.BoolOp):
            is_and = isinstance(node.op, ast.And)
            pre, acc = self.cond(node.values[0], env)
            for v in node.values[1:]:
                p2, c2 = self.cond(v, env)
                if p2:
                    # short circuit: the right operand is evaluated only when needed
                    t = self.fresh()
                    inner = do_block(p2 + [f"Except.ok (decide {atom(c2)})"])
                    if is_and:
                        pre = pre + [f"let {t} : Bool ← (if {acc} then"] + indent_lines(inner, 1) + \
                            ["  else Except.ok false)"]
                    else:
                        pre = pre + [f"let {t} : Bool ← (if {acc} then Except.ok true else"] + \
                            indent_lines(inner[:-1] + [inner[-1] + ")"], 1)
                    acc = f"{t} = true"
                else:
                    acc = f"{atom(acc)} {'∧' if is_and else '∨'} {atom(c2)}"
            return pre, acc
        if isinstance(node, ast.Compare) and self.prof.ext and len(node.ops) == 1:
            r = self.cond_ext(node, env)
            if r is not None:
                return r
        if isinstance(node, ast.Call) and self.prof.ext and isinstance(node.func, ast.Attribute) \
                and node.func.attr == "match" and isinstance(node.func.value, ast.Name) \
                and node.func.value.id in self.prof.patterns and node.func.value.id not in env \
                and len(node.args) == 1 and not node.keywords:
            # truth value of `PATTERN.match(x)`: the named model predicate
            pre, a, ty = self.expr(node.args[0], env)
            self.want(node, ty, "ustr")
            return pre, f"{self.prof.patterns[node.func.value.id]} {atom(a)} = true"
        if isinstance(node, ast.Compare):
            if len(node.ops) != 1:
                raise Unsupported(node, "chained comparison")
            p1, a, ta = self.expr(node.left, env)
            p2, b, tb = self.expr(node.comparators[0], env)
            op = node.ops[0]
            if isinstance(op, (ast.Lt, ast.LtE, ast.Gt, ast.GtE)):
                self.want(node, ta, "int")
                self.want(node, tb, "int")
                sym = {ast.Lt: "<", ast.LtE: "≤", ast.Gt: ">", ast.GtE: "≥"}[type(op)]
            elif isinstance(op, (ast.Eq, ast.NotEq)):
                if ta != tb or ta in ("str", "structB", "none") or (isinstance(ta, tuple) and ta[0] == "opt"):
                    raise Unsupported(node, f"comparison of {ta} with {tb}")
                sym = "=" if isinstance(op, ast.Eq) else "≠"
            else:
                raise Unsupported(node, f"comparison operator {type(op).__name__}")
            return p1 + p2, f"{a} {sym} {b}"
        if isinstance(node, ast.Constant) and isinstance(node.value, bool):
            return [], "True" if node.value else "False"
        if isinstance(node, ast.Call) and isinstance(node.func, ast.Name) and node.func.id == "bool" \
                and len(node.args) == 1 and not node.keywords:
            return self.cond(node.args[0], env)
        pre, term, ty = self.expr(node, env)
        if ty == "int":
            return pre, f"{term} ≠ 0"
        if ty == "bool":
            return pre, f"{term} = true"
        if ty == "bytes":
            return pre, f"{term} ≠ []"
        if ty in ("ustr", "cstr"):
            return pre, f"{term} ≠ []"
        if isinstance(ty, tuple) and ty[0] == "list":
            return pre, f"{atom(term)}.isEmpty = false"
        if ty == "char":
            return pre, "True"                      # a one-character string
        if ty == ("opt", "char"):
            return pre, f"{atom(term)}.isSome = true"
        if isinstance(ty, tuple) and ty[0] == "nt" and self.mod.nts[ty[1]]:
            return pre, "True"
        if isinstance(ty, tuple) and ty[0] == "opt" and isinstance(ty[1], tuple) and ty[1][0] == "nt" \
                and self.mod.nts[ty[1][1]]:
            return pre, f"{atom(term)}.isSome = true"
        if isinstance(ty, tuple) and ty[0] == "obj" and self.always_truthy(ty):
            return pre, "True"
        if isinstance(ty, tuple) and ty[0] == "opt" and isinstance(ty[1], tuple) and ty[1][0] == "obj" \
                and self.always_truthy(ty[1]):
            return pre, f"{atom(term)}.isSome = true"
        raise Unsupported(node, f"truth value of a {ty}")

    def str_literal(self, node, value: str, ty):
        """the Lean term for a str literal compared with a value of type `ty`"""
        if ty in ("char", ("opt", "char")):
            if len(value) != 1:
                raise Unsupported(node, f"one-character string compared with {value!r}")
            t_ = str(ord(value))
            return t_ if ty == "char" else f"some {t_}"
        if ty == "ustr":
            return "[" + ", ".join(str(x) for x in value.encode("utf-8", errors="surrogateescape")) + "]"
        if ty == "cstr":
            return "[" + ", ".join(str(ord(c)) for c in value) + "]"
        raise Unsupported(node, f"string literal compared with a {ty}")

    def cond_ext(self, node, env):
        """comparisons of the extended subset; None when the comparison is not one of them"""
        op = node.ops[0]
        left, right = node.left, node.comparators[0]

        def is_strc(n):
            return isinstance(n, ast.Constant) and isinstance(n.value, str)

        if isinstance(op, (ast.Is, ast.IsNot)) and isinstance(right, ast.Constant) and right.value is None:
            pre, a, ty = self.expr(left, env)
            if not (isinstance(ty, tuple) and ty[0] == "opt"):
                raise Unsupported(node, f"`is None` on a {ty}")
            return pre, f"{atom(a)}.isSome = {'false' if isinstance(op, ast.Is) else 'true'}"
        if isinstance(op, (ast.In, ast.NotIn)):
            neg = isinstance(op, ast.NotIn)
            if isinstance(right, (ast.List, ast.Tuple)) and right.elts and all(is_strc(e) for e in right.elts):
                pre, a, ty = self.expr(left, env)
                alts = [f"{atom(a)} = {self.str_literal(node, e.value, ty)}" for e in right.elts]
                c = "(" + " ∨ ".join(alts) + ")"
                return pre, (f"¬ {c}" if neg else c)
            if isinstance(left, ast.Constant) and isinstance(left.value, bytes) and len(left.value) == 1:
                pre, a, ty = self.expr(right, env)
                self.want(node, ty, "bytes")
                c = f"{left.value[0]} ∈ {atom(a)}"
                return pre, (f"¬ ({c})" if neg else c)
            raise Unsupported(node, "`in` other than `x in [\"c\", …]` / `b\"c\" in bytes`")
        if isinstance(op, (ast.Eq, ast.NotEq)) and (is_strc(left) or is_strc(right)):
            lit, other = (left, right) if is_strc(left) else (right, left)
            if is_strc(other):
                raise Unsupported(node, "comparison of two string literals")
            pre, a, ty = self.expr(other, env)
            sym = "=" if isinstance(op, ast.Eq) else "≠"
            return pre, f"{a} {sym} {self.str_literal(node, lit.value, ty)}"
        return None

    # ---- expressions

    def int_binop(self, node, op, a, b, pre_out):
        if isinstance(op, ast.Add):
            return f"{atom(a)} + {atom(b)}"
        if isinstance(op, ast.Sub):
            return f"{atom(a)} - {atom(b)}"
        if isinstance(op, ast.Mult):
            return f"{atom(a)} * {atom(b)}"
        if isinstance(op, ast.BitAnd):
            return f"pyAnd {atom(a)} {atom(b)}"
        if isinstance(op, ast.BitOr):
            return f"pyOr {atom(a)} {atom(b)}"
        if isinstance(op, (ast.LShift, ast.RShift)):
            left = isinstance(op, ast.LShift)
            if b.isdigit():
                return f"{'pyShl' if left else 'pyShr'} {atom(a)} {b}"
            t = self.fresh()
            pre_out.append(f"let {t} ← {'pyShlE' if left else 'pyShrE'} {atom(a)} {atom(b)}")
            return t
        raise Unsupported(node, f"int operator {type(op).__name__}")

    def expr(self, node, env):
        """(pre_lines, lean_term, type); pre_lines bind the operations that can raise, in evaluation order"""
        if isinstance(node, ast.Constant):
            v = node.value
            if isinstance(v, bool):
                return [], "true" if v else "false", "bool"
            if isinstance(v, int):
                return [], int_lit(v), "int"
            if isinstance(v, bytes):
                return [], "[" + ", ".join(str(x) for x in v) + "]", "bytes"
            if isinstance(v, str):
                return [], '""', "str"
            if v is None:
                return [], "none", "none"
            raise Unsupported(node, f"constant {v!r}")
        if isinstance(node, ast.JoinedStr):
            return [], '""', "str"
        if isinstance(node, ast.Name):
            return [], self.var(node.id), self.lookup(node, env, node.id)
        if isinstance(node, ast.UnaryOp):
            if isinstance(node.op, ast.USub):
                pre, a, ty = self.expr(node.operand, env)
                self.want(node, ty, "int")
                if a.isdigit():
                    return pre, f"(-{a})", "int"
                return pre, f"-{atom(a)}", "int"
            if isinstance(node.op, ast.Not):
                pre, c = self.cond(node, env)
                return pre, f"decide ({c})", "bool"
            raise Unsupported(node, f"unary operator {type(node.op).__name__}")
        if isinstance(node, ast.BinOp):
            p1, a, ta = self.expr(node.left, env)
            p2, b, tb = self.expr(node.right, env)
            pre = p1 + p2
            if ta == "bytes" and tb == "bytes" and isinstance(node.op, ast.Add):
                return pre, f"{atom(a)} ++ {atom(b)}", "bytes"
            if ta == "int" and tb == "int":
                return pre, self.int_binop(node, node.op, a, b, pre), "int"
            raise Unsupported(node, f"operator {type(node.op).__name__} on {ta} and {tb}")
        if self.prof.ext and isinstance(node, ast.List) and not node.elts:
            return [], "[]", "emptylist"
        if self.prof.ext and isinstance(node, ast.BoolOp) and isinstance(node.op, ast.Or) and len(node.values) == 2:
            # `a or b` as a value, both ints
            snap = self.snapshot()
            p1, a, ta = self.expr(node.values[0], env)
            p2, b, tb = self.expr(node.values[1], env)
            if ta == "int" and tb == "int" and not p2:
                return p1, f"(if {a} ≠ 0 then {a} else {b} : Int)", "int"
            self.restore(snap)
        if not self.prof.ext and isinstance(node, ast.BoolOp) and isinstance(node.op, ast.Or) \
                and len(node.values) == 2 and isinstance(node.values[0], ast.Name):
            # `v or e` as a value, v an Optional whose instances are always true: v if it is not None, else e
            ty0 = env.get(node.values[0].id)
            if isinstance(ty0, tuple) and ty0[0] == "opt" and self.always_truthy(ty0[1]):
                v = self.var(node.values[0].id)
                p2, b, tb = self.expr(node.values[1], env)
                if tb != ty0[1]:
                    raise Unsupported(node, f"`or` of {ty0} and {tb}")
                if not p2:
                    return [], f"(match {v} with | none => {b} | some {v} => {v})", tb
                t = self.fresh()
                pre = [f"let {t} : {lean_type(tb)} ← (match {v} with",
                       "  | none =>"] + indent_lines(do_block(p2 + [f"Except.ok {atom(b)}"]), 2) + \
                      [f"  | some {v} =>", f"    Except.ok {v})"]
                return pre, t, tb
        if isinstance(node, (ast.Compare, ast.BoolOp)):
            pre, c = self.cond(node, env)
            return pre, f"decide ({c})", "bool"
        if isinstance(node, ast.IfExp):
            return self.ifexp(node, env)
        if isinstance(node, ast.Tuple):
            pre, terms, tys = [], [], []
            for e in node.elts:
                p, t_, ty = self.expr(e, env)
                pre += p
                terms.append(t_)
                tys.append(ty)
            return pre, "(" + ", ".join(terms) + ")", ("tuple", tuple(tys))
        if isinstance(node, ast.Attribute):
            if isinstance(node.value, ast.Name) and node.value.id in self.mod.enums and node.value.id not in env:
                for mname, mval in self.mod.enums[node.value.id]:
                    if mname == node.attr:
                        return [], int_lit(mval), "int"
                raise Unsupported(node, f"{node.value.id} has no member {node.attr}")
            if self.cls and isinstance(node.value, ast.Name) and node.value.id == self.self_name:
                if self.is_init:
                    if node.attr not in self.init_fields:
                        raise Unsupported(node, f"self.{node.attr} read before it is set")
                    return [], self.init_fields[node.attr][0], self.init_fields[node.attr][1]
                key = ast.unparse(node)
                if key in env:                      # narrowed: known not to be None here
                    return [], self.narrow_binder(key), env[key]
            pre, a, ty = self.expr(node.value, env)
            if isinstance(ty, tuple) and ty[0] == "nt":
                for f, fty in self.mod.nts[ty[1]]:
                    if f == node.attr:
                        return pre, f"{atom(a)}.{f}", fty
            if isinstance(ty, tuple) and ty[0] == "obj":
                for f, lf, fty in self.gen.class_fields_of(ty[1], node):
                    if f == node.attr:
                        return pre, f"{atom(a)}.{lf}", fty
                raise Unsupported(node, f"{ty[1]} has no field {node.attr} (fields are those set by __init__)")
            raise Unsupported(node, f"attribute .{node.attr} of a {ty}")
        if isinstance(node, ast.Subscript):
            pre, a, ty = self.expr(node.value, env)
            if ty == "structB":
                if isinstance(node.slice, ast.Constant) and node.slice.value == 0:
                    t = self.fresh()
                    return pre + [f"let {t} ← unpackB {atom(a)}"], t, "int"
                raise Unsupported(node, "struct.unpack(\"B\", …) result used other than under [0]")
            if self.prof.ext and isinstance(ty, tuple) and ty[0] == "list" and not isinstance(node.slice, ast.Slice):
                p, i, ti = self.expr(node.slice, env)
                self.want(node, ti, "int")
                t = self.fresh()
                return pre + p + [f"let {t} ← getItemL {atom(a)} {atom(i)}"], t, ty[1]
            if ty != "bytes":
                raise Unsupported(node, f"subscript on a {ty}")
            sl = node.slice
            if isinstance(sl, ast.Slice):
                if sl.step is not None:
                    raise Unsupported(node, "slice step")
                lo = hi = None
                if sl.lower is not None:
                    p, lo, tl = self.expr(sl.lower, env)
                    self.want(node, tl, "int")
                    pre += p
                if sl.upper is not None:
                    p, hi, th = self.expr(sl.upper, env)
                    self.want(node, th, "int")
                    pre += p
                if lo is None and hi is None:
                    return pre, a, "bytes"
                if lo is None:
                    return pre, f"sliceTo {atom(a)} {atom(hi)}", "bytes"
                if hi is None:
                    return pre, f"sliceFrom {atom(a)} {atom(lo)}", "bytes"
                return pre, f"slice {atom(a)} {atom(lo)} {atom(hi)}", "bytes"
            p, i, ti = self.expr(sl, env)
            self.want(node, ti, "int")
            t = self.fresh()
            return pre + p + [f"let {t} ← getItem {atom(a)} {atom(i)}"], t, "int"
        if isinstance(node, ast.Call):
            return self.call(node, env)
        raise Unsupported(node, f"expression outside the subset: {type(node).__name__}")

    def is_str(self, node, env) -> bool:
        if isinstance(node, ast.JoinedStr):
            return True
        if isinstance(node, ast.Constant):
            return isinstance(node.value, str)
        if isinstance(node, ast.Name):
            return env.get(node.id) in ("str", ("opt", "str"))
        if isinstance(node, ast.IfExp):
            return self.is_str(node.body, env) and self.is_str(node.orelse, env)
        return False

    def ifexp(self, node, env):
        if self.is_str(node, env):
            return [], '""', "str"                 # message text: dropped
        nar = self.narrowing(node.test, env)
        if nar:
            name, truthy_some = nar
            scrut, oty = self.narrow_info(name, env)
            env_some = dict(env)
            env_some[name] = oty[1]
            some_e, none_e = (node.body, node.orelse) if truthy_some else (node.orelse, node.body)
            p_none, t_none, ty_none = self.expr(none_e, env)
            p_some, t_some, ty_some = self.expr(some_e, env_some)
            if ty_none != ty_some:
                raise Unsupported(node, f"conditional expression of types {ty_some} / {ty_none}")
            if ty_none == "str":
                return [], '""', "str"
            v = self.narrow_binder(name)
            if not p_none and not p_some:
                return [], f"(match {scrut} with | none => {t_none} | some {v} => {t_some})", ty_none
            t = self.fresh()
            pre = [f"let {t} : {lean_type(ty_none)} ← (match {scrut} with",
                   "  | none =>"] + indent_lines(do_block(p_none + [f"Except.ok {atom(t_none)}"]), 2) + \
                  [f"  | some {v} =>"] + indent_lines(do_block(p_some + [f"Except.ok {atom(t_some)}"]), 2)
            pre[-1] += ")"
            return pre, t, ty_none
        pc, c = self.cond(node.test, env)
        p1, a, ta = self.expr(node.body, env)
        p2, b, tb = self.expr(node.orelse, env)
        if ta != tb:
            raise Unsupported(node, f"conditional expression of types {ta} / {tb}")
        if ta == "str":
            return [], '""', "str"
        if not p1 and not p2:
            return pc, f"(if {c} then {a} else {b} : {lean_type(ta)})", ta
        t = self.fresh()
        pre = pc + [f"let {t} : {lean_type(ta)} ← (if {c} then"] + \
            indent_lines(do_block(p1 + [f"Except.ok {atom(a)}"]), 1) + ["  else"] + \
            indent_lines(do_block(p2 + [f"Except.ok {atom(b)}"]), 1)
        pre[-1] += ")"
        return pre, t, ta

    def call(self, node, env):
        f = node.func
        if isinstance(f, ast.Name) and isinstance(env.get(f.id), tuple) and env[f.id][0] == "ctor":
            # `enum_type(v)` for a parameter `enum_type: t.Type[T]`: the conversion is the caller's function
            if len(node.args) != 1 or node.keywords:
                raise Unsupported(node, f"call of the type parameter {f.id} with other than one argument")
            pre, a, ty = self.expr(node.args[0], env)
            self.want(node, ty, env[f.id][1])
            t = self.fresh()
            return pre + [f"let {t} ← {self.var(f.id)} {atom(a)}"], t, env[f.id][1]
        if isinstance(f, ast.Name) and f.id not in env and f.id in self.mod.classes:
            q = f"{f.id}.__init__"
            if q not in self.mod.funcs:
                raise Unsupported(node, f"class {f.id} has no __init__")
            return self.fn_call(node, q, env)
        # builtins
        if isinstance(f, ast.Name) and f.id not in env:
            if f.id == "len" and len(node.args) == 1 and not node.keywords:
                pre, a, ty = self.expr(node.args[0], env)
                if not (self.prof.ext and (ty in ("ustr",) or (isinstance(ty, tuple) and ty[0] == "list"))):
                    self.want(node, ty, "bytes")
                return pre, f"len {atom(a)}", "int"
            if self.prof.ext and f.id == "chr" and len(node.args) == 1 and not node.keywords:
                arg = node.args[0]
                pre, a, ty = self.expr(arg, env)
                # only on an element of a bytes-like value (0..255): chr cannot raise there
                if not (ty == "int" and isinstance(arg, ast.Subscript) and not isinstance(arg.slice, ast.Slice)):
                    raise Unsupported(node, "chr() of anything but an element of a bytes-like value")
                return pre, a, "char"
            if self.prof.ext and f.id == "list" and len(node.args) == 1 and not node.keywords:
                pre, a, ty = self.expr(node.args[0], env)
                if not (isinstance(ty, tuple) and ty[0] == "list"):
                    raise Unsupported(node, f"list() of a {ty}")
                return pre, a, ty                  # a fresh list: a copy
            if f.id in self.prof.externals:
                return self.external_call(node, f.id, env)
            if f.id in self.prof.ctors and f.id in self.mod.dcs:
                return self.dc_construct(node, f.id, env)
            if f.id == "bool" and len(node.args) == 1 and not node.keywords:
                pre, c = self.cond(node.args[0], env)
                return pre, f"decide ({c})", "bool"
            if f.id in ("bytes", "bytearray", "memoryview") and not node.keywords:
                if not node.args and f.id != "memoryview":
                    return [], "[]", "bytes"
                if len(node.args) == 1:
                    pre, a, ty = self.expr(node.args[0], env)
                    self.want(node, ty, "bytes")
                    if f.id == "memoryview" and isinstance(node.args[0], ast.Name) and node.args[0].id in self.mutated:
                        raise Unsupported(node, "memoryview of a bytearray that is mutated (aliasing)")
                    return pre, a, "bytes"            # a copy (bytes/bytearray) or a read-only view
            if f.id in self.mod.enums and len(node.args) == 1 and not node.keywords:
                pre, a, ty = self.expr(node.args[0], env)
                self.want(node, ty, "int")
                t = self.fresh()
                return pre + [f"let {t} ← enumOf {f.id}_members {atom(a)}"], t, "int"
            if f.id in self.mod.nts:
                return self.nt_construct(node, f.id, env)
            if f.id in self.mod.funcs:
                return self.fn_call(node, f.id, env)
            raise Unsupported(node, f"call of {f.id}")
        if isinstance(f, ast.Attribute):
            # struct.unpack("B", x)
            if isinstance(f.value, ast.Name) and f.value.id == "struct" and f.attr == "unpack" and "struct" not in env:
                if len(node.args) == 2 and isinstance(node.args[0], ast.Constant) and node.args[0].value == "B":
                    pre, a, ty = self.expr(node.args[1], env)
                    self.want(node, ty, "bytes")
                    return pre, a, "structB"
                raise Unsupported(node, "struct.unpack with a format other than \"B\"")
            # Class.classmethod(...)
            if isinstance(f.value, ast.Name) and f.value.id in self.mod.nts and f.value.id not in env:
                q = f"{f.value.id}.{f.attr}"
                if q in self.mod.funcs:
                    return self.fn_call(node, q, env)
                raise Unsupported(node, f"call of {q}")
            if f.attr == "tobytes" and not node.args and not node.keywords:
                pre, a, ty = self.expr(f.value, env)
                self.want(node, ty, "bytes")
                return pre, a, "bytes"
            if self.prof.ext:
                r = self.method_call(node, env)
                if r is not None:
                    return r
        raise Unsupported(node, f"call outside the subset: {ast.unparse(f)}")

    def is_codec_args(self, node) -> bool:
        """("utf-8", errors="surrogateescape")"""
        return (len(node.args) == 1 and isinstance(node.args[0], ast.Constant) and node.args[0].value == "utf-8"
                and len(node.keywords) == 1 and node.keywords[0].arg == "errors"
                and isinstance(node.keywords[0].value, ast.Constant)
                and node.keywords[0].value.value == "surrogateescape")

    def method_call(self, node, env):
        f = node.func
        if f.attr == "pop":
            if not (isinstance(f.value, ast.Name) and len(node.args) == 1 and isinstance(node.args[0], ast.Constant)
                    and node.args[0].value == 0 and not node.keywords):
                raise Unsupported(node, "pop other than `name.pop(0)`")
            ty = self.lookup(node, env, f.value.id)
            if not (isinstance(ty, tuple) and ty[0] == "list"):
                raise Unsupported(node, f".pop on a {ty}")
            t = self.fresh()
            v = self.var(f.value.id)
            return [f"let ({t}, {v}) ← popFront {v}"], t, ty[1]
        pre, a, ty = self.expr(f.value, env)
        if f.attr == "decode" and ty == "bytes" and self.is_codec_args(node):
            return pre, a, "ustr"                  # the string IS its octets (see the note)
        if f.attr == "encode" and ty in ("ustr", "cstr") and self.is_codec_args(node):
            return pre, (a if ty == "ustr" else f"utf8Encode {atom(a)}"), "bytes"
        if f.attr == "strip" and ty == "cstr" and not node.args and not node.keywords:
            return pre, f"pyStrip {atom(a)}", "cstr"
        if f.attr == "lower" and ty == "ustr" and not node.args and not node.keywords:
            return pre, f"strLower {atom(a)}", "ustr"
        if f.attr == "split" and len(node.args) == 1 and not node.keywords and isinstance(node.args[0], ast.Constant):
            sep = node.args[0].value
            if ty == "bytes" and isinstance(sep, bytes) and len(sep) == 1:
                return pre, f"pySplit {sep[0]} {atom(a)}", ("list", "bytes")
            if ty == "ustr" and isinstance(sep, str) and len(sep) == 1 and ord(sep) < 128:
                return pre, f"pySplit {ord(sep)} {atom(a)}", ("list", "ustr")
        return None

    def bind_args(self, node, names, what):
        """[(parameter, argument expr)] in evaluation order (positional, then keywords as written)"""
        if len(node.args) > len(names):
            raise Unsupported(node, f"too many arguments for {what}")
        pairs = list(zip(names, node.args))
        seen = {n for n, _ in pairs}
        for kw in node.keywords:
            if kw.arg is None or kw.arg in seen or kw.arg not in names:
                raise Unsupported(node, f"bad keyword argument {kw.arg} for {what}")
            seen.add(kw.arg)
            pairs.append((kw.arg, kw.value))
        if seen != set(names):
            raise Unsupported(node, f"missing argument for {what}")
        return pairs

    def external_call(self, node, pyname, env):
        lname, params, rty = self.prof.externals[pyname]
        kinds = dict(params)
        pre, vals = [], {}
        for n, e in self.bind_args(node, [n for n, _ in params], pyname):
            if kinds[n] == "str":
                continue
            p, t_, ty = self.expr(e, env)
            pre += p
            vals[n] = self.coerce(node, t_, ty, kinds[n])
        t = self.fresh()
        args = "".join(f" {atom(vals[n])}" for n, k in params if k != "str")
        return pre + [f"let {t} ← {lname}{args}"], t, rty

    def dc_construct(self, node, cname, env):
        """one of the filter dataclasses: the constructor of the model's `Filter` with the same fields"""
        fields = self.mod.dcs[cname]
        pre, vals = [], {}
        for n, e in self.bind_args(node, [n for n, _ in fields], cname):
            want = self.resolve_str(self.mod.ann_type(dict(fields)[n]), None)
            p, t_, ty = self.expr(e, env)
            pre += p
            vals[n] = self.coerce(node, t_, ty, want)
        return pre, self.prof.ctors[cname] + "".join(f" {atom(vals[n])}" for n, _ in fields), "filter"

    def nt_construct(self, node, cname, env):
        fields = self.mod.nts[cname]
        given = {}
        pre = []
        for (fname, _), a in zip(fields, node.args):
            given[fname] = a
        for kw in node.keywords:
            if kw.arg is None or kw.arg in given:
                raise Unsupported(node, "bad keyword in named tuple construction")
            given[kw.arg] = kw.value
        parts = []
        # evaluation order: positional then keywords, as written
        order = [n for (n, _), _ in zip(fields, node.args)] + [kw.arg for kw in node.keywords]
        vals = {}
        for n in order:
            fty = dict(fields).get(n)
            if fty is None:
                raise Unsupported(node, f"{cname} has no field {n}")
            p, t_, ty = self.expr(given[n], env)
            t_ = self.coerce(node, t_, ty, fty)
            pre += p
            vals[n] = t_
        for n, _ in fields:
            if n not in vals:
                raise Unsupported(node, f"{cname}: field {n} not given")
            parts.append(f"{n} := {vals[n]}")
        return pre, "({ " + ", ".join(parts) + " } : " + cname + ")", ("nt", cname)

    def resolve_str(self, ann, vty):
        """an annotation that mentions `str`, for a variable whose first value has type `vty`"""
        kind = "ustr"
        if vty in ("char", ("opt", "char")):
            kind = "char"
        elif vty in ("cstr", ("opt", "cstr")):
            kind = "cstr"

        def go(t_):
            if t_ == "str":
                return kind
            if isinstance(t_, tuple) and t_[0] in ("opt", "list"):
                return (t_[0], go(t_[1]))
            if isinstance(t_, tuple) and t_[0] == "tuple":
                return ("tuple", tuple(go(x) for x in t_[1]))
            return t_
        return go(ann)

    def coerce(self, node, term, ty, want):
        if ty == want:
            return term
        if ty == "emptylist" and isinstance(want, tuple) and want[0] == "list":
            return "[]"
        if isinstance(want, tuple) and want[0] == "opt":
            if ty == "none":
                return "none"
            if ty == want[1]:
                return f"(some {atom(term)})"
        raise Unsupported(node, f"argument of type {ty} where {want} is expected")

    def fn_call(self, node, pyname, env):
        callee = self.gen.require(pyname, node)
        params = callee.kept_params()
        dropped = {n for n, ty, _ in callee.params} - {n for n, _, _ in params}
        all_names = [n for n, _, _ in callee.params]
        given = {}
        order = []
        if len(node.args) > len(all_names):
            raise Unsupported(node, "too many arguments")
        for n, a in zip(all_names, node.args):
            given[n] = a
            order.append(n)
        for kw in node.keywords:
            if kw.arg is None or kw.arg in given or kw.arg not in all_names:
                raise Unsupported(node, f"bad keyword argument {kw.arg}")
            given[kw.arg] = kw.value
            order.append(kw.arg)
        pre = []
        vals = {}
        for n in order:
            if n in dropped:
                continue                     # hint strings
            want = next(ty for m, ty, _ in params if m == n)
            p, t_, ty = self.expr(given[n], env)
            pre += p
            vals[n] = self.coerce(node, t_, ty, want)
        args = []
        for n, want, d in params:
            if n in vals:
                args.append(atom(vals[n]))
            elif d is not None:
                p, t_, ty = self.expr(d, {})      # defaults are constants
                if p:
                    raise Unsupported(node, "default value that can raise")
                args.append(atom(self.coerce(node, t_, ty, want)))
            else:
                raise Unsupported(node, f"missing argument {n}")
        fname = callee.lname
        rt = callee.ret_type
        if self.scc_head is not None and pyname == self.scc_head:
            # a recursive call of the entry of the group: one level down (the depth and the fuel are inside the term)
            fname = self.rec_term()
            rt = callee.ret_annot
        elif self.scc_head is not None and pyname in self.scc:
            # another member of the group: it takes the entry one level down as its first argument
            fname = f"{callee.lname} {self.rec_term()}"
            if callee.uses_fuel:
                args = ["fuel"] + args
        else:
            if callee.uses_depth:
                self.uses_depth = True
                args = ["depth"] + args
            if callee.uses_fuel:
                self.uses_fuel = True
                args = ["fuel"] + args
        t = self.fresh()
        return pre + [f"let {t} ← {fname}" + "".join(f" {a}" for a in args)], t, rt


# ---------------------------------------------------------------------------------------------
# text helpers


def indent_lines(lines, n):
    return [("  " * n + l) if l else l for l in lines]


def indent(lines, n):
    return "\n".join(indent_lines(lines, n))


def do_block(lines):
    """lines of a nested do block (`do` on its own line would be fine too; we inline the keyword)"""
    if len(lines) == 1 and not lines[0].startswith("let ") and not lines[0].startswith("if ") \
            and not lines[0].startswith("match "):
        return lines
    return ["do"] + indent_lines(lines, 1)


def is_atom(t: str) -> bool:
    if t.startswith("(") and t.endswith(")"):
        depth = 0
        for i, ch in enumerate(t):
            depth += ch == "("
            depth -= ch == ")"
            if depth == 0 and i < len(t) - 1:
                return False
        return True
    if t.startswith("[") and t.endswith("]"):
        return True
    return all(ch.isalnum() or ch in "_.'" for ch in t)


def rebind(pre, term, target):
    """`let t ← op` directly followed by `let x := t` is emitted as `let x ← op`"""
    if not pre:
        return None
    for i in range(len(pre) - 1, -1, -1):
        if not pre[i].startswith(" "):
            break
    head = pre[i]
    for pfx in (f"let {term} ← ", f"let {term} : "):
        if head.startswith(pfx):
            tail = head[len(pfx):]
            if pfx.endswith(": "):
                if " ← " not in tail:
                    return None
                tail = tail.split(" ← ", 1)[1]
            return pre[:i] + [f"let {target} ← {tail}"] + pre[i + 1:]
    return None


def paren(s: str) -> str:
    return f"({s})" if " " in s else s


def atom(t: str) -> str:
    return t if is_atom(t) else f"({t})"


def lines_pure(lines) -> bool:
    """only (possibly multi-line) `let x : T := e` items, nothing that can raise"""
    for l in lines:
        if "←" in l or "Except." in l:
            return False
        if not l.startswith(" ") and not l.startswith("let "):
            return False
    return True


# ---------------------------------------------------------------------------------------------


def callees_of(mod: Module, node: ast.FunctionDef) -> list[str]:
    """module functions (and classmethods `Class.m`) called in the body, in source order"""
    out = []
    for n in ast.walk(node):
        if isinstance(n, ast.Call):
            q = None
            if isinstance(n.func, ast.Name) and n.func.id in mod.funcs:
                q = n.func.id
            elif isinstance(n.func, ast.Attribute) and isinstance(n.func.value, ast.Name):
                q2 = f"{n.func.value.id}.{n.func.attr}"
                if q2 in mod.funcs:
                    q = q2
            if q is not None and q not in out:
                out.append(q)
    return out


class Generator:
    def __init__(self, mod: Module):
        self.mod = mod
        self.done: dict[str, FuncTranslator] = {}
        self.failed: dict[str, str] = {}
        self.order: list[str] = []
        self.stack: list[str] = []
        self.inprogress: dict[str, FuncTranslator] = {}
        self.scc_of: dict[str, frozenset] = {}      # function -> its recursive group (absent: not recursive)
        self.head_of: dict[str, str] = {}           # function -> entry function of its recursive group
        self.scc_problem: dict[str, str] = {}
        self.class_fields: dict[str, list[tuple[str, str, object]]] = {}   # class -> [(field, lean field, type)]
        if mod.profile.ext:
            self.find_recursive_groups()

    # ---- recursion: strongly connected components of the call graph

    def find_recursive_groups(self):
        graph = {f: callees_of(self.mod, node) for f, node in self.mod.funcs.items()}
        index, low, onstack, stack, comps = {}, {}, set(), [], []
        counter = [0]

        def strong(v):
            index[v] = low[v] = counter[0]
            counter[0] += 1
            stack.append(v)
            onstack.add(v)
            for w in graph[v]:
                if w not in index:
                    strong(w)
                    low[v] = min(low[v], low[w])
                elif w in onstack:
                    low[v] = min(low[v], index[w])
            if low[v] == index[v]:
                comp = []
                while True:
                    w = stack.pop()
                    onstack.discard(w)
                    comp.append(w)
                    if w == v:
                        break
                comps.append(comp)

        for v in graph:
            if v not in index:
                strong(v)
        for comp in comps:
            if len(comp) == 1 and comp[0] not in graph[comp[0]]:
                continue
            members = frozenset(comp)
            # the entry: the member that is called from outside the group
            entries = [m for m in sorted(members)
                       if any(m in graph[f] for f in graph if f not in members)]
            for m in members:
                self.scc_of[m] = members
            if len(entries) != 1:
                for m in members:
                    self.scc_problem[m] = f"recursive group {sorted(members)} has {len(entries)} entry functions"
                continue
            head = entries[0]
            # without the entry the group must be acyclic
            sub = {m: [w for w in graph[m] if w in members and w != head] for m in members if m != head}
            state = {}

            def cyclic(v):
                state[v] = 1
                for w in sub[v]:
                    if state.get(w) == 1 or (w not in state and cyclic(w)):
                        return True
                state[v] = 2
                return False

            if any(cyclic(m) for m in sub if m not in state):
                for m in members:
                    self.scc_problem[m] = f"recursive group {sorted(members)} has a cycle that avoids {head}"
                continue
            for m in members:
                self.head_of[m] = head

    def live_fields(self, cls: str) -> set[str]:
        """attribute names mentioned by the methods of the class other than __init__"""
        out = set()
        for st in self.mod.classes[cls].body:
            if isinstance(st, ast.FunctionDef) and st.name != "__init__":
                for n in ast.walk(st):
                    if isinstance(n, ast.Attribute):
                        out.add(n.attr)
        return out

    def class_fields_of(self, cls: str, at):
        """the fields of the state record of `cls` (its __init__ is translated on demand)"""
        if cls not in self.class_fields:
            q = f"{cls}.__init__"
            if q in self.stack:
                raise Unsupported(at, f"state of {cls} used inside its own __init__")
            if q not in self.mod.funcs:
                raise Unsupported(at, f"class {cls} has no __init__")
            self.require(q, at)
        return self.class_fields[cls]

    def scc_uses_fuel(self, head: str, at) -> bool:
        """does any member of the group contain a `while`, or call a function outside that takes fuel?"""
        members = self.scc_of[head]
        for m in sorted(members):
            node = self.mod.funcs[m]
            if any(isinstance(n, ast.While) for n in ast.walk(node)):
                return True
        for m in sorted(members):
            for c in callees_of(self.mod, self.mod.funcs[m]):
                if c not in members and self.require(c, at).uses_fuel:
                    return True
        return False

    def rec_type(self, head: str) -> str:
        ft = self.inprogress.get(head) or self.done[head]
        tys = [lean_type_atom(ty) for _, ty, _ in ft.kept_params()]
        return " → ".join(tys + [f"Except {self.mod.profile.err} {lean_type_atom(ft.ret_annot)}"])

    # ---- str parameters: message only (dropped) or data

    def str_param_kind(self, pyname: str, pname: str, seen=None) -> str:
        """'str' when the parameter only flows into exception arguments (dropped from the Lean text),
        'cstr' (code points) when `.strip()` / `.encode(..)` is applied to it, 'ustr' (UTF-8 octets) otherwise"""
        seen = seen or set()
        if (pyname, pname) in seen:
            return "str"                       # coinductively dead
        seen = seen | {(pyname, pname)}
        node = self.mod.funcs[pyname]
        dead_nodes = set()
        methods = set()
        for n in ast.walk(node):
            if isinstance(n, ast.Raise):
                for m in ast.walk(n):
                    dead_nodes.add(id(m))
            if isinstance(n, ast.Call):
                q = None
                if isinstance(n.func, ast.Name):
                    q = n.func.id
                elif isinstance(n.func, ast.Attribute) and isinstance(n.func.value, ast.Name):
                    q = f"{n.func.value.id}.{n.func.attr}"
                    if isinstance(n.func.value, ast.Name) and n.func.value.id == pname:
                        methods.add(n.func.attr)
                names = None
                if q in self.mod.profile.externals:
                    names = [(a, t_) for a, t_ in self.mod.profile.externals[q][1]]
                elif q in self.mod.funcs:
                    cn = self.mod.funcs[q]
                    cargs = list(cn.args.args)
                    if "." in q:
                        cargs = cargs[1:]
                    names = []
                    for a in cargs + list(cn.args.kwonlyargs):
                        try:
                            t_ = self.mod.ann_type(a.annotation)
                        except Exception:
                            t_ = None
                        if t_ == "str":
                            t_ = self.str_param_kind(q, a.arg, seen)
                        names.append((a.arg, t_))
                if names is not None:
                    pairs = list(zip([a for a, _ in names], n.args)) + [(kw.arg, kw.value) for kw in n.keywords]
                    kinds = dict(names)
                    for a, v in pairs:
                        if isinstance(v, ast.Name) and v.id == pname and kinds.get(a) == "str":
                            dead_nodes.add(id(v))
        live = [n for n in ast.walk(node)
                if isinstance(n, ast.Name) and n.id == pname and isinstance(n.ctx, ast.Load) and id(n) not in dead_nodes]
        if not live:
            return "str"
        if methods & {"strip", "encode"}:
            return "cstr"
        return "ustr"

    def require(self, pyname: str, at) -> FuncTranslator:
        if pyname in self.done:
            return self.done[pyname]
        if pyname in self.failed:
            raise Unsupported(at, f"calls {pyname}, which is untranslated")
        if pyname in self.stack:
            if self.head_of.get(pyname) == pyname:
                return self.inprogress[pyname]          # a recursive call of the entry of the group
            raise Unsupported(at, f"recursion through {pyname}")
        if pyname in self.scc_problem:
            self.failed[pyname] = self.scc_problem[pyname]
            self.order.append(pyname)
            raise Unsupported(at, f"calls {pyname}, which is untranslated ({self.scc_problem[pyname]})")
        head = self.head_of.get(pyname)
        if head is not None and head != pyname and head not in self.stack:
            # the members of a recursive group are produced while its entry is being translated
            try:
                self.require(head, at)
            except Unsupported:
                pass
            if pyname in self.done:
                return self.done[pyname]
            if pyname not in self.failed:
                self.failed[pyname] = f"its recursive group (entry {head}) is untranslated"
                self.order.append(pyname)
            raise Unsupported(at, f"calls {pyname}, which is untranslated")
        node = self.mod.funcs[pyname]
        self.stack.append(pyname)
        try:
            ft = FuncTranslator(self.mod, self, pyname, node)
            self.inprogress[pyname] = ft
            try:
                ft.text = ft.translate()
            except Unsupported as e:
                self.failed[pyname] = str(e)
                self.order.append(pyname)
                raise Unsupported(at, f"calls {pyname}, which is untranslated ({e})")
            self.done[pyname] = ft
            self.order.append(pyname)
            return ft
        finally:
            self.stack.pop()

    def run(self, targets):
        for tname in targets:
            if tname not in self.mod.funcs:
                self.failed[tname] = "function not found in the source"
                self.order.append(tname)
                continue
            if tname in self.done or tname in self.failed:
                continue
            try:
                self.require(tname, self.mod.funcs[tname])
            except Unsupported:
                pass
        if not self.mod.profile.ext:
            self.derive_class_defs()

    # ---- definitions derived from class-level facts: method aliases, the `with` protocol

    def owner_field(self, q: str):
        """for a method `q` whose body ends in `return C(.., p=self, ..)`: (C, the field of C in which __init__
        stores p), i.e. the returned object refers to the object the method was called on"""
        ft = self.done[q]
        last = ft.node.body[-1]
        if not (isinstance(last, ast.Return) and isinstance(last.value, ast.Call)
                and isinstance(last.value.func, ast.Name) and last.value.func.id in self.mod.classes):
            return None
        cname = last.value.func.id
        init = self.mod.funcs.get(f"{cname}.__init__")
        if init is None or any(isinstance(n, ast.Return) for st in ft.node.body[:-1] for n in ast.walk(st)):
            return None
        names = [a.arg for a in init.args.args[1:]]
        given = list(zip(names, last.value.args)) + [(kw.arg, kw.value) for kw in last.value.keywords]
        for pname, v in given:
            if isinstance(v, ast.Name) and v.id == ft.self_name:
                for st in init.body:
                    if (isinstance(st, ast.Assign) and isinstance(st.targets[0], ast.Attribute)
                            and isinstance(st.value, ast.Name) and st.value.id == pname):
                        return cname, st.targets[0].attr
        return None

    def derive_class_defs(self):
        err = self.mod.profile.err
        self.extra: dict[str, str] = {}
        for cname, cnode in self.mod.classes.items():
            withs = {}
            enter, exit_ = self.done.get(f"{cname}.__enter__"), self.done.get(f"{cname}.__exit__")
            enter_is_self = (enter is not None and len([st for st in enter.node.body if not isinstance(st, ast.Expr)]) == 1
                             and isinstance(enter.node.body[-1], ast.Return)
                             and isinstance(enter.node.body[-1].value, ast.Name)
                             and enter.node.body[-1].value.id == enter.self_name)
            if enter_is_self and exit_ is not None and len(exit_.kept_params()) == 1:
                # `with <obj>.m(args) as w: BODY` for every method m that returns a fresh `cname` referring to <obj>
                for q, ft in list(self.done.items()):
                    if not ft.cls or ft.is_init or ft.mutates_self or ft.ret_type != ("obj", cname):
                        continue
                    own = self.owner_field(q)
                    if own is None or own[0] != cname:
                        continue
                    lf = next((lf for f, lf, fty in self.class_fields[cname]
                               if f == own[1] and fty == ("opt", ("obj", ft.cls))), None)
                    if lf is None:
                        continue
                    kp = ft.kept_params()
                    sv = ft.var(ft.self_name)
                    fuel = ft.uses_fuel or enter.uses_fuel or exit_.uses_fuel
                    ps = "".join(f" ({ft.var(n)} : {lean_type(ty)})" for n, ty, _ in kp)
                    args = "".join(f" {ft.var(n)}" for n, _, _ in kp)
                    name = f"{ft.cls}_with_{ft.node.name}"
                    fl = lambda t: " fuel" if t.uses_fuel else ""
                    lines = [
                        f"/-- `with {sv}.{ft.node.name}(..) as w: BODY` — the context manager protocol of `{cname}`",
                        f"    (`__enter__` line {enter.node.lineno}, which returns the manager itself; `__exit__` line {exit_.node.lineno}):",
                        f"    `w = {sv}.{ft.node.name}(..)`, BODY as a function of the state of `w`, `w.__exit__(None, None, None)`.",
                        f"    `w.{own[1]}` refers to the object `{sv}`, so the state of `{sv}` afterwards is read back from",
                        f"    there (BODY is assumed to reach `{sv}` only through `w`).  Result: the state of `{sv}` after the statement. -/",
                        f"def {name}{' (fuel : Nat)' if fuel else ''}{ps} (body : {cname} → Except {err} {cname}) : Except {err} {ft.cls} := do",
                        f"  let w_ ← {ft.lname}{fl(ft)}{args}",
                        f"  let w_ ← {enter.lname}{fl(enter)} w_",
                        f"  let w_ ← body w_",
                        (f"  let w_ ← {exit_.lname}{fl(exit_)} w_" if exit_.mutates_self
                         else f"  let _ ← {exit_.lname}{fl(exit_)} w_"),
                        f"  match w_.{lf} with",
                        f"  | none =>",
                        f"    Except.ok {sv}",
                        f"  | some {sv} =>",
                        f"    Except.ok {sv}",
                    ]
                    pseudo = f"{ft.cls}.with_{ft.node.name}"
                    self.extra[pseudo] = "\n".join(lines)
                    self.order.append(pseudo)
                    withs[ft.node.name] = name
            for alias, meth, line in self.mod.aliases[cname]:
                q = f"{cname}.{meth}"
                pseudo = f"{cname}.{alias}"
                if q in self.done:
                    self.extra[pseudo] = (
                        f"/-- `{cname}.{alias}` ({self.mod.profile.file} line {line}): the class attribute `{alias} = {meth}` -/\n"
                        f"def {lean_name(pseudo)} := @{self.done[q].lname}")
                    if meth in withs:
                        self.extra[pseudo] += (
                            f"\n\n/-- `with x.{alias}(..) as w: BODY` (`{alias} = {meth}`) -/\n"
                            f"def {cname}_with_{alias} := @{withs[meth]}")
                    self.order.append(pseudo)
                elif q in self.failed:
                    self.failed[pseudo] = f"alias of {q}, which is untranslated"
                    self.order.append(pseudo)

    def render(self, src_label: str) -> str:
        out = []
        w = out.append
        prof = self.mod.profile
        w("/- GENERATED by harness/py2lean.py from the AST of " + src_label + ". Do not edit.")
        w(f"   One Lean definition per Python function / loop; see {prof.note}. -/")
        for imp in prof.imports:
            w(f"import {imp}")
        w("")
        w("set_option linter.unusedVariables false")
        w("")
        w(f"namespace {prof.namespace}")
        w("")
        w(f"open {prof.opens}")
        w("")
        for ename, members in self.mod.enums.items():
            w(f"/-- values of the members of `{ename}` (an `enum.IntEnum`), in source order -/")
            w(f"def {ename}_members : List Int := [" + ", ".join(int_lit(v) for _, v in members) + "]")
            w("")
        for nt in self.mod.nt_order:
            w(f"/-- `{nt}` (a `typing.NamedTuple`) -/")
            w(f"structure {nt} where")
            for f, ty in self.mod.nts[nt]:
                w(f"  {f} : {lean_type(ty)}")
            w("  deriving DecidableEq, Repr")
            w("")
        for pyname in self.order:
            if pyname in self.done:
                w(self.done[pyname].text)
            elif pyname in getattr(self, "extra", {}):
                w(self.extra[pyname])
            else:
                lname = lean_name(pyname) if pyname.split(".")[0] in self.mod.classes else lean_name(pyname.replace(".", "_"))
                reason = self.failed[pyname].replace("\\", "\\\\").replace('"', '\\"')
                w(f"/-- `{pyname}` is outside the translated subset -/")
                w(f'def {lname}_untranslated : String := "{reason}"')
            w("")
        if getattr(self, "printer", None) is not None:
            for b in self.printer.blocks:
                w(b)
                w("")
        w(f"end {prof.namespace}")
        return "\n".join(out) + "\n"


# ---------------------------------------------------------------------------------------------
# the PRINTER half of _filter.py (profile `filter`): `__str__` of the filter dataclasses and
# `_serialize_filter_value`.  Pure functions (nothing raises); `str` = its UTF-8 octets.
# See the last section of design_notes/py2lean_filter.md.

PRINTER_SERIALIZER = "_serialize_filter_value"
# compiled patterns that are ONE character class: name -> the octets the class matches (Generated/Facts)
OCTET_CLASSES = {"_STRING_ESCAPE_PATTERN": "Facts.escapedBytes"}
# model constructors without a class in _filter.py: the value the dispatcher gives them
PRINTER_EXTRA_CTORS = [("Filter.custom _", "[]", "no class of _filter.py (the harness' registered custom filter): no text form")]

LN = "List Nat"
LLN = "List (List Nat)"


def octets(b: bytes) -> str:
    return "[" + ", ".join(str(x) for x in b) + "]"


class PrinterTranslator:
    def __init__(self, tree: ast.Module, mod: Module):
        self.tree = tree
        self.mod = mod
        self.prof = mod.profile
        self.failed: dict[str, str] = {}
        self.blocks: list[str] = []          # rendered definitions, in order
        self.count = 0
        self.str_methods: dict[str, ast.FunctionDef] = {}
        self.consts: dict[str, ast.expr] = {}
        for node in tree.body:
            if isinstance(node, ast.ClassDef) and node.name in self.prof.ctors:
                for st in node.body:
                    if isinstance(st, ast.FunctionDef) and st.name == "__str__":
                        self.str_methods[node.name] = st
            elif isinstance(node, ast.Assign) and len(node.targets) == 1 and isinstance(node.targets[0], ast.Name):
                self.consts[node.targets[0].id] = node.value

    # ---- types: 'ustr' | 'bytes' | 'bool' | 'filter' | ('opt', T) | ('list', T)

    def field_type(self, ann):
        ty = self.mod.ann_type(ann)
        def fix(t):
            if t == "str":
                return "ustr"
            if isinstance(t, tuple) and t[0] in ("opt", "list"):
                return (t[0], fix(t[1]))
            return t
        ty = fix(ty)
        ok = ("ustr", "bytes", "bool", "filter", ("opt", "ustr"), ("opt", "bytes"),
              ("list", "bytes"), ("list", "ustr"), ("list", "filter"))
        if ty not in ok:
            raise Unsupported(ann, f"field type outside the printer subset: {ast.unparse(ann)}")
        return ty

    # ---- `_serialize_filter_value`

    def body_of(self, fn):
        body = list(fn.body)
        if body and isinstance(body[0], ast.Expr) and isinstance(body[0].value, ast.Constant) \
                and isinstance(body[0].value.value, str):
            body = body[1:]
        return body

    def is_utf8_arg(self, call) -> bool:
        return (len(call.args) == 1 and not call.keywords and isinstance(call.args[0], ast.Constant)
                and str(call.args[0].value).lower().replace("_", "-") in ("utf-8", "utf8"))

    def single_class(self, pname, at) -> str:
        """the pattern `pname` must be `re.compile(<literal>.encode("utf-8"))` / a bytes literal whose source is one
        bracket expression; the octets it matches are a table of Generated/Facts"""
        import re as _re
        if pname not in OCTET_CLASSES or pname not in self.consts:
            raise Unsupported(at, f"`{pname}.sub`: not a known one-class pattern")
        v = self.consts[pname]
        src = None
        if isinstance(v, ast.Call) and ast.unparse(v.func) == "re.compile" and len(v.args) == 1 and not v.keywords:
            a = v.args[0]
            if isinstance(a, ast.Constant) and isinstance(a.value, bytes):
                src = a.value.decode("latin-1")
            elif (isinstance(a, ast.Call) and isinstance(a.func, ast.Attribute) and a.func.attr == "encode"
                    and isinstance(a.func.value, ast.Constant) and isinstance(a.func.value.value, str)
                    and self.is_utf8_arg(a)):
                src = a.func.value.value
        if src is None or not _re.fullmatch(r"\[(?:\\.|[^\]\\])+\]", src, _re.S):
            raise Unsupported(v, f"`{pname}` is not re.compile of ONE character class")
        return OCTET_CLASSES[pname]

    def translate_serializer(self):
        pyname = PRINTER_SERIALIZER
        fn = self.mod.funcs.get(pyname)
        if fn is None:
            raise Unsupported(self.tree, f"{pyname} not found in the source")
        lname = lean_name(pyname)
        params = [a.arg for a in fn.args.args]
        body = self.body_of(fn)
        if len(params) != 1 or self.mod.ann_type(fn.args.args[0].annotation) != "bytes" or len(body) != 2 \
                or not isinstance(body[0], ast.FunctionDef) or not isinstance(body[1], ast.Return):
            raise Unsupported(fn, "shape: one bytes parameter, a nested callback, one return")
        cb, ret = body
        # return PATTERN.sub(cb, value).decode("utf-8")
        r = ret.value
        if not (isinstance(r, ast.Call) and isinstance(r.func, ast.Attribute) and r.func.attr == "decode"
                and self.is_utf8_arg(r)):
            raise Unsupported(ret, "expected `<bytes>.decode(\"utf-8\")`")
        s = r.func.value
        if not (isinstance(s, ast.Call) and isinstance(s.func, ast.Attribute) and s.func.attr == "sub"
                and isinstance(s.func.value, ast.Name) and len(s.args) == 2 and not s.keywords
                and isinstance(s.args[0], ast.Name) and s.args[0].id == cb.name
                and isinstance(s.args[1], ast.Name) and s.args[1].id == params[0]):
            raise Unsupported(ret, "expected `PATTERN.sub(<callback>, <parameter>)`")
        cls = self.single_class(s.func.value.id, s)
        # the callback: return f"...{ord(m.group(0)):02x}...".encode("utf-8")
        cbody = self.body_of(cb)
        if len(cb.args.args) != 1 or len(cbody) != 1 or not isinstance(cbody[0], ast.Return):
            raise Unsupported(cb, "callback shape: one parameter, one return")
        m = cb.args.args[0].arg
        e = cbody[0].value
        if not (isinstance(e, ast.Call) and isinstance(e.func, ast.Attribute) and e.func.attr == "encode"
                and self.is_utf8_arg(e) and isinstance(e.func.value, ast.JoinedStr)):
            raise Unsupported(cb, "callback: expected `f\"...\".encode(\"utf-8\")`")
        parts = []
        for p in e.func.value.values:
            if isinstance(p, ast.Constant) and isinstance(p.value, str):
                parts.append(octets(p.value.encode("utf-8")))
                continue
            v = p.value
            is_ord = (isinstance(v, ast.Call) and isinstance(v.func, ast.Name) and v.func.id == "ord"
                      and len(v.args) == 1 and isinstance(v.args[0], ast.Call)
                      and isinstance(v.args[0].func, ast.Attribute) and v.args[0].func.attr == "group"
                      and isinstance(v.args[0].func.value, ast.Name) and v.args[0].func.value.id == m
                      and len(v.args[0].args) == 1 and isinstance(v.args[0].args[0], ast.Constant)
                      and v.args[0].args[0].value == 0)
            spec = p.format_spec
            spec_s = (spec.values[0].value if spec is not None and len(spec.values) == 1
                      and isinstance(spec.values[0], ast.Constant) else None)
            if not (is_ord and p.conversion == -1 and spec_s == "02x"):
                raise Unsupported(p, "callback: only `{ord(m.group(0)):02x}` is in the subset")
            parts.append("fmtHex02 m_")
        cb_l = f"{lname}_{cb.name}"
        self.blocks.append(
            f"/-- the `re.sub` callback `{cb.name}` of `{pyname}` ({self.prof.file} line {cb.lineno}) as a function of\n"
            f"    the matched octet `m_ = ord({m}.group(0))` (the pattern is one character class: a match is one octet) -/\n"
            f"def {cb_l} (m_ : Nat) : {LN} :=\n  " + " ++ ".join(parts))
        self.blocks.append(
            f"/-- `{pyname}` ({self.prof.file} line {fn.lineno}): `{s.func.value.id}.sub({cb.name}, {params[0]}).decode(\"utf-8\")` -/\n"
            f"def {lname} ({lean_name(params[0])} : {LN}) : {LN} :=\n"
            f"  decodeUtf8 (reSubOctetClass {cls} {cb_l} {lean_name(params[0])})")
        self.count += 2
        self.serializer = lname

    # ---- expressions

    def ltype(self, ty):
        return lean_type({"ustr": "ustr"}.get(ty, ty)) if ty != "filter" else "Filter"

    def expr(self, node, env, st):
        """-> (term, type).  `st` = per-method state (dict): 'rec' set when str() of a sub-filter is used"""
        if isinstance(node, ast.Constant):
            if isinstance(node.value, str):
                return octets(node.value.encode("utf-8")), "ustr"
            if isinstance(node.value, bytes):
                return octets(node.value), "bytes"
            raise Unsupported(node, "constant outside the printer subset")
        if isinstance(node, ast.Name):
            if node.id in env:
                return env[node.id]
            raise Unsupported(node, f"unknown name {node.id}")
        if isinstance(node, ast.Attribute) and isinstance(node.value, ast.Name) and node.value.id == st["self"]:
            key = "self." + node.attr
            if key in env:
                return env[key]
            raise Unsupported(node, f"unknown field {node.attr}")
        if isinstance(node, ast.JoinedStr):
            parts = []
            for p in node.values:
                if isinstance(p, ast.Constant):
                    parts.append(octets(p.value.encode("utf-8")))
                    continue
                if p.format_spec is not None or p.conversion not in (-1, 115):
                    raise Unsupported(p, "f-string field with a format spec / conversion other than !s")
                t_, ty = self.expr(p.value, env, st)
                if ty == "filter":
                    st["rec"] = True
                    parts.append(f"Filter_str {atom(t_)}")
                elif ty == "ustr":
                    parts.append(t_ if is_atom(t_) or " ++ " not in t_ else paren(t_))
                else:
                    raise Unsupported(p, f"f-string field of type {ty} (str() of it is not its content)")
            return " ++ ".join(parts) if parts else "[]", "ustr"
        if isinstance(node, ast.BoolOp) and isinstance(node.op, ast.Or) and len(node.values) == 2:
            a, aty = self.expr(node.values[0], env, st)
            d, dty = self.expr(node.values[1], env, st)
            if isinstance(aty, tuple) and aty[0] == "opt" and aty[1] == dty and dty in ("ustr", "bytes"):
                return f"pyOr {atom(a)} {atom(d)}", dty
            raise Unsupported(node, "`x or d` only for an Optional[bytes|str] x and a bytes|str d")
        if isinstance(node, ast.List):
            if len(node.elts) == 0:
                raise Unsupported(node, "empty list literal without a type")
            terms, tys = zip(*(self.expr(e, env, st) for e in node.elts))
            if len(set(tys)) != 1 or tys[0] not in ("ustr", "bytes"):
                raise Unsupported(node, "list literal of mixed / unsupported element type")
            return "[" + ", ".join(terms) + "]", ("list", tys[0])
        if isinstance(node, ast.Call):
            f = node.func
            if isinstance(f, ast.Name) and f.id == PRINTER_SERIALIZER and len(node.args) == 1 and not node.keywords:
                a, aty = self.expr(node.args[0], env, st)
                if aty != "bytes":
                    raise Unsupported(node, f"{PRINTER_SERIALIZER} of a non-bytes value")
                if not getattr(self, "serializer", None):
                    raise Unsupported(node, f"calls {PRINTER_SERIALIZER}, which is untranslated")
                return f"{self.serializer} {atom(a)}", "ustr"
            if isinstance(f, ast.Name) and f.id == "str" and len(node.args) == 1 and not node.keywords:
                a, aty = self.expr(node.args[0], env, st)
                if aty == "filter":
                    st["rec"] = True
                    return f"Filter_str {atom(a)}", "ustr"
                if aty == "ustr":
                    return a, "ustr"
                raise Unsupported(node, f"str() of a value of type {aty}")
            if (isinstance(f, ast.Attribute) and f.attr == "join" and isinstance(f.value, ast.Constant)
                    and isinstance(f.value.value, str) and len(node.args) == 1 and not node.keywords):
                sep = octets(f.value.value.encode("utf-8"))
                arg = node.args[0]
                if isinstance(arg, ast.GeneratorExp):
                    # sep.join(str(f) for f in <list of filters>)
                    if len(arg.generators) != 1 or arg.generators[0].ifs or arg.generators[0].is_async \
                            or not isinstance(arg.generators[0].target, ast.Name):
                        raise Unsupported(arg, "comprehension outside the subset")
                    g = arg.generators[0]
                    it, ity = self.expr(g.iter, env, st)
                    v = g.target.id
                    e = arg.elt
                    if ity == ("list", "filter") and isinstance(e, ast.Call) and isinstance(e.func, ast.Name) \
                            and e.func.id == "str" and len(e.args) == 1 and isinstance(e.args[0], ast.Name) \
                            and e.args[0].id == v and not e.keywords:
                        st["rec"] = True
                        return f"strJoin {sep} (Filter_str_map {atom(it)})", "ustr"
                    raise Unsupported(arg, "only `str(f) for f in <list of filters>`")
                a, aty = self.expr(arg, env, st)
                if aty == ("list", "ustr"):
                    return f"strJoin {sep} {atom(a)}", "ustr"
                raise Unsupported(node, f"join of a value of type {aty}")
        raise Unsupported(node, f"expression outside the printer subset: {ast.unparse(node)[:60]}")

    # ---- statements: straight-line `let`s; returns the lines and the final term

    def assigned(self, stmts):
        out = []
        for s in stmts:
            if isinstance(s, ast.Assign) and len(s.targets) == 1 and isinstance(s.targets[0], ast.Name):
                n = s.targets[0].id
            elif (isinstance(s, ast.Expr) and isinstance(s.value, ast.Call) and isinstance(s.value.func, ast.Attribute)
                    and s.value.func.attr == "append" and isinstance(s.value.func.value, ast.Name)):
                n = s.value.func.value.id
            elif isinstance(s, ast.If):
                for n2 in self.assigned(s.body) + self.assigned(s.orelse):
                    if n2 not in out:
                        out.append(n2)
                continue
            else:
                raise Unsupported(s, "statement outside the printer subset")
            if n not in out:
                out.append(n)
        return out

    def tup(self, names, env):
        return env[names[0]][0] if len(names) == 1 else "(" + ", ".join(env[n][0] for n in names) + ")"

    def stmts(self, body, env, st, ind, cls_name):
        """translate straight-line statements; returns lines (indented by `ind`) and updates env"""
        out = []
        pad = " " * ind
        for s in body:
            if isinstance(s, ast.Assign) and len(s.targets) == 1 and isinstance(s.targets[0], ast.Name):
                t_, ty = self.expr(s.value, env, st)
                n = s.targets[0].id
                if n in env and env[n][1] != ty:
                    raise Unsupported(s, f"{n} changes type")
                env[n] = (lean_name(n), ty)
                out.append(f"{pad}let {lean_name(n)} : {lean_type(ty)} := {t_}")
            elif (isinstance(s, ast.Expr) and isinstance(s.value, ast.Call) and isinstance(s.value.func, ast.Attribute)
                    and s.value.func.attr == "append" and isinstance(s.value.func.value, ast.Name)
                    and len(s.value.args) == 1 and not s.value.keywords):
                n = s.value.func.value.id
                if n not in env or not (isinstance(env[n][1], tuple) and env[n][1][0] == "list"):
                    raise Unsupported(s, f"append on a non-list {n}")
                t_, ty = self.expr(s.value.args[0], env, st)
                if ty != env[n][1][1]:
                    raise Unsupported(s, f"append of a {ty} to a list of {env[n][1][1]}")
                out.append(f"{pad}let {env[n][0]} : {lean_type(env[n][1])} := {env[n][0]} ++ [{t_}]")
            elif isinstance(s, ast.If) and not s.orelse:
                carried = self.assigned(s.body)
                for n in carried:
                    if n not in env:
                        raise Unsupported(s, f"{n} is first assigned under an `if`")
                before = self.tup(carried, env)
                tty = " × ".join(lean_type_atom(env[n][1]) for n in carried)
                test = s.test
                env2 = dict(env)
                narrowed = None
                if (isinstance(test, ast.Compare) and len(test.ops) == 1 and isinstance(test.ops[0], ast.IsNot)
                        and isinstance(test.comparators[0], ast.Constant) and test.comparators[0].value is None):
                    t_, ty = self.expr(test.left, env, st)
                    if not (isinstance(ty, tuple) and ty[0] == "opt" and is_atom(t_)):
                        raise Unsupported(test, "`is not None` on a non-Optional")
                    key = "self." + test.left.attr if isinstance(test.left, ast.Attribute) else test.left.id
                    env2[key] = (t_, ty[1])
                    narrowed = t_
                else:
                    t_, ty = self.expr(test, env, st)
                    if ty != "bool":
                        raise Unsupported(test, f"condition of type {ty}")
                inner = self.stmts(s.body, env2, st, ind + 6, cls_name)
                after = self.tup(carried, env2)
                inner[0] = " " * (ind + 5) + "(" + inner[0].lstrip()
                inner.append(" " * (ind + 6) + after + ")")
                if narrowed:
                    out.append(f"{pad}let {before} : {tty} := (match {narrowed} with")
                    out.append(f"{pad}  | none => {before}")
                    out.append(f"{pad}  | some {narrowed} =>")
                    out += inner
                    out[-1] += ")"
                else:
                    out.append(f"{pad}let {before} : {tty} := (if {t_} = true then")
                    out += inner
                    out.append(f"{pad}  else")
                    out.append(f"{pad}    {before})")
            elif isinstance(s, ast.For) and not s.orelse and isinstance(s.target, ast.Name):
                it, ity = self.expr(s.iter, env, st)
                if not (isinstance(ity, tuple) and ity[0] == "list" and ity[1] in ("bytes", "ustr")):
                    raise Unsupported(s, f"`for` over a value of type {ity}")
                carried = self.assigned(s.body)
                for n in carried:
                    if n not in env:
                        raise Unsupported(s, f"{n} is first assigned in a loop")
                st["loops"] = st.get("loops", 0) + 1
                lname = f"{cls_name}_str_for{st['loops']}"
                used = loaded_names(s.body)
                extra = [k for k in env if k not in carried and k != s.target.id
                         and ((k.startswith("self.") and any(isinstance(n, ast.Attribute) and isinstance(n.value, ast.Name)
                                                                 and n.value.id == st["self"] and "self." + n.attr == k
                                                                 for b in s.body for n in ast.walk(b)))
                              or (not k.startswith("self.") and k in used))]
                env2 = dict(env)
                env2[s.target.id] = (lean_name(s.target.id), ity[1])
                st2 = dict(st)
                inner = self.stmts(s.body, env2, st2, 4, cls_name)
                if st2.get("rec") and not st.get("rec"):
                    raise Unsupported(s, "str() of a sub-filter inside a loop")
                cty = " → ".join(lean_type_atom(env[n][1]) for n in carried)
                rty = " × ".join(lean_type_atom(env[n][1]) for n in carried)
                ps = "".join(f" ({env[k][0]} : {lean_type(env[k][1])})" for k in extra)
                pa = "".join(f" {env[k][0]}" for k in extra)
                cn = ", ".join(env[n][0] for n in carried)
                blk = [f"/-- the `for` loop at {self.prof.file} line {s.lineno} of `{cls_name}.__str__`; carried: {', '.join(carried)} -/",
                       f"def {lname}{ps} : {lean_type(ity)} → {cty} → {rty}",
                       f"  | [], {cn} => {self.tup(carried, env)}",
                       f"  | b_ :: rest_, {cn} =>",
                       f"    let {lean_name(s.target.id)} : {lean_type(ity[1])} := b_"]
                blk += inner
                blk.append(f"    {lname}{pa} rest_ " + " ".join(env2[n][0] for n in carried))
                st["pre"].append("\n".join(blk))
                out.append(f"{pad}let {self.tup(carried, env)} : {rty} := {lname}{pa} {atom(it)} "
                           + " ".join(env[n][0] for n in carried))
            else:
                raise Unsupported(s, f"statement outside the printer subset: {ast.unparse(s)[:50]}")
        return out

    def method(self, cname):
        """-> (pre-definitions, params [(lean, type)], body lines at indent 4, final term, recursive?)"""
        fn = self.str_methods[cname]
        if len(fn.args.args) != 1 or fn.args.kwonlyargs or fn.args.vararg or fn.args.kwarg or fn.decorator_list:
            raise Unsupported(fn, "__str__ signature")
        st = {"self": fn.args.args[0].arg, "pre": []}
        env = {}
        params = []
        for f, ann in self.mod.dcs[cname]:
            ty = self.field_type(ann)
            env["self." + f] = (lean_name(f), ty)
            params.append((lean_name(f), ty))
        body = self.body_of(fn)
        if not body or not isinstance(body[-1], ast.Return) or body[-1].value is None \
                or any(isinstance(n, ast.Return) for s in body[:-1] for n in ast.walk(s)):
            raise Unsupported(fn, "__str__ must end in its only `return`")
        lines = self.stmts(body[:-1], env, st, 4, cname)
        t_, ty = self.expr(body[-1].value, env, st)
        if ty != "ustr":
            raise Unsupported(body[-1], f"__str__ returns a {ty}")
        if st.get("rec") and st["pre"]:
            raise Unsupported(fn, "a loop in a __str__ that prints sub-filters")
        return st["pre"], params, lines, t_, bool(st.get("rec")), fn.lineno

    def run(self):
        try:
            self.translate_serializer()
        except Unsupported as e:
            self.failed[PRINTER_SERIALIZER] = str(e)
            self.blocks.append(self.stub(lean_name(PRINTER_SERIALIZER), PRINTER_SERIALIZER, str(e)))
        arms = []
        ok = True
        order = [n.name for n in self.tree.body if isinstance(n, ast.ClassDef) and n.name in self.prof.ctors]
        for cname in order:
            q = f"{cname}.__str__"
            try:
                if cname not in self.str_methods:
                    raise Unsupported(self.tree, "the class defines no __str__")
                pre, params, lines, final, rec, lineno = self.method(cname)
            except Unsupported as e:
                self.failed[q] = str(e)
                self.blocks.append(self.stub(lean_name(q), q, str(e)))
                ok = False
                continue
            self.count += 1 + len(pre)
            pat = self.prof.ctors[cname] + "".join(f" {p}" for p, _ in params)
            if rec:
                arms.append([f"  | {pat} =>   -- `{q}` ({self.prof.file} line {lineno})"] + lines + [f"    {final}"])
            else:
                self.blocks += pre
                ps = "".join(f" ({p} : {lean_type(ty)})" for p, ty in params)
                self.blocks.append("\n".join(
                    [f"/-- `{q}` ({self.prof.file} line {lineno}), as a function of the fields -/",
                     f"def {lean_name(q)}{ps} : {LN} :="] + [ln[2:] for ln in lines] + [f"  {final}"]))
                arms.append([f"  | {pat} => {lean_name(q)}" + "".join(f" {p}" for p, _ in params)])
        if not ok or PRINTER_SERIALIZER in self.failed:
            if "Filter.__str__" not in self.failed:
                self.failed["str(LDAPFilter)"] = "a __str__ method (or the serializer) is untranslated"
                self.blocks.append(self.stub("Filter_str", "str(LDAPFilter)", self.failed["str(LDAPFilter)"]))
            return
        blk = ["mutual",
               "/-- `str(f)` for a filter object: dispatch on the class; the arm of a class whose `__str__` prints sub-filters",
               "    is the body of that `__str__`, the others call the definition above -/",
               "def Filter_str : Filter → List Nat"]
        for a in arms:
            blk += a
        for pat, val, why in PRINTER_EXTRA_CTORS:
            blk.append(f"  | {pat} => {val}   -- {why}")
        blk += ["/-- `str(f) for f in filters` -/",
                "def Filter_str_map : List Filter → List (List Nat)",
                "  | [] => []",
                "  | f_ :: rest_ => Filter_str f_ :: Filter_str_map rest_",
                "end"]
        self.blocks.append("\n".join(blk))
        self.count += 1

    def stub(self, lname, pyname, reason):
        reason = reason.replace("\\", "\\\\").replace('"', '\\"')
        return (f"/-- `{pyname}` is outside the translated subset -/\n"
                f'def {lname}_untranslated : String := "{reason}"')

    def text(self) -> str:
        return "".join(b + "\n\n" for b in self.blocks)


def main(argv):
    repo = os.environ.get("VERIF_REPO", "/repo")
    srcs = {"asn1": os.path.join(repo, "src", "sansldap", "asn1.py"),
            "filter": os.path.join(repo, "src", "sansldap", "_filter.py")}
    outs = {"asn1": DEFAULT_OUT, "filter": DEFAULT_FILTER_OUT}
    only = None
    check = False
    i = 0
    while i < len(argv):
        if argv[i] == "--check":
            check = True
        elif argv[i] == "--out":
            i += 1
            outs["asn1"] = argv[i]
        elif argv[i] == "--src":
            i += 1
            srcs["asn1"] = argv[i]
        elif argv[i] == "--filter-out":
            i += 1
            outs["filter"] = argv[i]
        elif argv[i] == "--filter-src":
            i += 1
            srcs["filter"] = argv[i]
        elif argv[i] == "--only":
            i += 1
            only = argv[i]
            if only not in srcs:
                print(__doc__)
                return 2
        else:
            print(__doc__)
            return 2
        i += 1
    any_failed = False
    stale = False
    for pname in ("asn1", "filter"):
        if only is not None and only != pname:
            continue
        prof = Profile(pname)
        src, out_path = srcs[pname], outs[pname]
        with open(src, "r", encoding="utf-8") as fh:
            tree = ast.parse(fh.read(), filename=src)
        mod = Module(tree, prof)
        gen = Generator(mod)
        gen.run(prof.targets)
        if prof.ext:                      # the printer half: __str__ of the filter classes, _serialize_filter_value
            gen.printer = PrinterTranslator(tree, mod)
            gen.printer.run()
            gen.failed.update(gen.printer.failed)
        text = gen.render("src/sansldap/" + prof.file)
        for pyname, reason in gen.failed.items():
            print(f"py2lean: {pyname}: untranslated: {reason}", file=sys.stderr)
        any_failed = any_failed or bool(gen.failed)
        if check:
            try:
                with open(out_path, "r", encoding="utf-8") as fh:
                    same = fh.read() == text
            except FileNotFoundError:
                same = False
            if not same:
                print(f"py2lean: {out_path} differs from what the source generates now", file=sys.stderr)
                stale = True
        else:
            os.makedirs(os.path.dirname(out_path) or ".", exist_ok=True)
            with open(out_path, "w", encoding="utf-8") as fh:
                fh.write(text)
            print(f"py2lean: wrote {os.path.normpath(out_path)} ({len(gen.done) + (gen.printer.count if getattr(gen, "printer", None) else 0)} functions, {len(gen.failed)} untranslated)")
    if stale:
        return 1
    return 3 if any_failed else 0


if __name__ == "__main__":
    try:
        code = main(sys.argv[1:])
    except Exception:            # a crash of the translator is not a statement about the source
        import traceback

        traceback.print_exc()
        code = 2
    sys.exit(code)
