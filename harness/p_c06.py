"""C06 — no complete protocol data unit is ever silently discarded."""
from __future__ import annotations

import collections
import json

import ber
import codec as C
import drive
import gen
import guard
import impl as IMPL
import p_recv as PR
from codec import M, sansldap

LEAN_TARGETS = ["Verif.Props.C06"]
LEVEL = "proof"
ASSUMPTIONS = [
    "a unit whose own header is incomplete counts as incomplete; a unit is 'bad' once its header is complete and is not a definite-length SEQUENCE",
]


def accounting(prep, chunks, how="bytes"):
    """after every error-free receive call: messages returned so far == complete outer units delivered so far
    (counted by the harness' own framing).  Returns a violation or None.
    `how`: the chunk is handed over as fresh bytes, as a memoryview, or in ONE receive buffer (a bytearray) that the caller refills for every
    read, the normal life of a socket buffer"""
    im, s = PR.fresh(prep)
    delivered = b""
    returned = 0
    shared = bytearray()
    for idx, ch in enumerate(chunks):
        delivered += ch
        try:
            if how == "reused-bytearray":
                shared[:] = ch
                ms = s.receive(shared)
            elif how.startswith("memoryview"):
                ms = guard.guarded(lambda: s.receive(IMPL.input_object(bytes(ch), how)), 20.0)
            else:
                ms = guard.guarded(lambda: s.receive(bytes(ch)), 20.0)
        except sansldap.ProtocolError:
            return None            # accounted for by an error
        except BaseException as e:  # noqa: BLE001
            return {"key": None, "what": f"receive raised {type(e).__name__}", "call": idx}
        returned += len(ms)
        n, pos, status = ber.count_frames(delivered)
        if returned != n:
            return {"key": None, "what": f"{n} complete unit(s) delivered but {returned} message(s) returned and no error raised "
                                         f"(a complete protocol data unit was silently discarded or held back)", "call": idx}
        if status == "bad":
            return {"key": None, "what": "a complete unit that cannot be an LDAPMessage (not a SEQUENCE), or a header of indefinite length, is held back instead of raising", "call": idx}
    return None


def run(ctx):
    rng = ctx.rng
    violations = []
    hist = collections.Counter()
    distinct = set()
    evaluations = 0
    reqs = []
    samples = []
    hid = 0
    cases = []
    fixed = [bytes.fromhex(x) for x in PR.FIXED_BAD] + [PR.paged_without_value()]
    valid_tail = C.msg_from_json({"id": 20, "op": {"k": "extReq", "name": C.tx("1.2"), "value": None}, "controls": []}).pack(M.PackingOptions())
    for f in fixed:
        cases.append(("server_fresh", f + valid_tail, "fixed"))
        cases.append(("client_mid", f, "fixed"))
    for _ in range(ctx.scale(400, 20000)):
        prep = rng.choice(PR.PREPS)
        good = PR.pack_all(PR.valid_stream(rng, prep) or [gen.g_msg(rng, depth=2)])
        k = rng.randrange(len(good))
        bad = PR.corrupt_interior(rng, good[k])
        if bad is None:
            continue
        try:
            if ber.count_frames(bad)[0] != 1:
                hist["corruption-changed-envelope"] += 1
        except Exception:  # noqa: BLE001
            continue
        cases.append((prep, b"".join(good[:k]) + bad + b"".join(good[k + 1:]), "interior"))
        alt = PR.reencode_lenforms(rng, good[k])
        if alt is not None:
            cases.append((prep, b"".join(good[:k]) + alt + b"".join(good[k + 1:]), "length-forms"))
            bad2 = PR.corrupt_interior(rng, alt)
            if bad2 is not None and rng.random() < 0.5:
                cases.append((prep, bad2 + b"".join(good[k + 1:]), "interior+length-forms"))
    for prep, data, kind in cases:
        parts = [[data]] + ber.chunkings(rng, data, ctx.scale(3, 10))
        if len(data) <= 60:
            parts += [[data[:i], data[i:]] for i in range(len(data) + 1)]
        for chunks in parts:
            evaluations += 1
            how = ("bytes", "reused-bytearray", "bytes", "memoryview", "memoryview-bytearray", "bytes", "reused-bytearray", "memoryview")[evaluations % 8]
            hist["input-object:" + how] += 1
            v = accounting(prep, chunks, how)
            if v:
                v["input_object"] = how
            hist[kind] += 1
            distinct.add((data, tuple(len(c) for c in chunks)))
            if v:
                v.update({"prep": prep, "stream": data.hex(), "chunks": [c.hex() for c in chunks]})
                violations.append(v)
        if hid < ctx.scale(600, 6000) and len(data) < 4000:
            for chunks in parts[:2]:
                reqs.extend(PR.history_requests(prep, f"h{hid}", chunks))
                hid += 1
    samples.append({"prep": cases[3][0], "stream": cases[3][1].hex()[:120]})
    samples.append({"prep": cases[-1][0], "stream": cases[-1][1].hex()[:200]})
    disagreements = []
    if ctx.driver_ok:
        bad, a, b = drive.correspond(reqs)
        for i, q, x, y in bad[:10]:
            disagreements.append({"request": q, "impl": x, "model": y})
    return {
        "evaluations": evaluations,
        "distinct_nontrivial": len(distinct),
        "rule": "byte streams made of complete outer TLVs whose interior is malformed (an inner length pushed past the envelope or shrunk, a mandatory "
                "component dropped, a primitive truncated or emptied, a tag changed; known controls without value; fixed past witnesses) between valid "
                "messages, in every single cut for short streams and random chunkings; after every error-free receive the number of messages returned so "
                "far must equal the number of complete outer units delivered so far (independent Python framing); a sample is replayed on the Lean model; "
                "distinct = (stream, partition)",
        "samples": samples,
        "histogram": dict(sorted(hist.items())),
        "requests": len(reqs),
        "violations": violations,
        "disagreements": disagreements,
    }


def replay(ctx, payload):
    print(json.dumps({k: v for k, v in payload.items() if k not in ("chunks",)}, indent=1)[:2000])
    if "chunks" in payload:
        print("re-run:", accounting(payload["prep"], [bytes.fromhex(c) for c in payload["chunks"]], payload.get("input_object", "bytes")))
    return 0
