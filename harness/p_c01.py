"""C01 — every LDAP message survives encode -> decode unchanged.  (Also hosts the shared
message-level machinery used by C03.)"""
from __future__ import annotations

import collections
import copy
import json

import codec as C
import drive
import gen
from codec import M
from sansldap.asn1 import ASN1Reader

LEAN_TARGETS = ["Verif.Props.C01", "Verif.Props.SmallMore"]
LEVEL = "proof"
ASSUMPTIONS = [
    "text fields are surrogate-free str (valid UTF-8 in the model)",
    "a generic LDAPControl does not carry the OID of a library-known control (Msg.WF)",
]


def strip_raw(j):
    """drop the raw value octets of library-known controls: the one permitted difference"""
    j = copy.deepcopy(j)
    for c in j.get("controls", []):
        if c["k"] != "generic":
            c.pop("raw", None)
    return j


def corpus_messages():
    """hand-picked messages that run first (past failures and corner cases)"""
    t = C.tx
    res = lambda code, refs=None: {"code": code, "mdn": t(""), "diag": t(""), "refs": refs}
    return [
        {"id": 1, "op": {"k": "searchDone", "res": res(127)}, "controls": []},                     # unknown result code (fixed 68208a6)
        {"id": 1, "op": {"k": "searchDone", "res": res(-8388608)}, "controls": []},                # carry chain (fixed 0a2704b)
        {"id": -8388608, "op": {"k": "unbind"}, "controls": []},
        {"id": 2**64, "op": {"k": "bindReq", "version": -65536, "name": t("é"), "cred": {"k": "sasl", "mech": t(""), "creds": ""}}, "controls": []},
        {"id": 0, "op": {"k": "extResp", "res": res(2, []), "name": t(""), "value": ""}, "controls": []},
        {"id": 0, "op": {"k": "extResp", "res": res(0), "name": None, "value": None},
         "controls": [{"k": "paged", "crit": True, "size": -256, "cookie": "", "raw": None},
                      {"k": "showDeleted", "crit": False, "raw": None}, {"k": "generic", "oid": t(""), "crit": False, "value": ""}]},
        {"id": 3, "op": {"k": "searchReq", "base": t(""), "scope": 2, "deref": 3, "size": 0, "time": 0, "typesOnly": True,
                         "filter": {"k": "and", "fs": []}, "attrs": []}, "controls": []},
        {"id": 3, "op": {"k": "searchReq", "base": t(""), "scope": 0, "deref": 0, "size": 1, "time": 2, "typesOnly": False,
                         "filter": {"k": "not", "f": {"k": "substr", "a": t("cn"), "i": "", "any": [""], "f": ""}}, "attrs": [t("")]}, "controls": []},
        {"id": 3, "op": {"k": "searchReq", "base": t(""), "scope": 0, "deref": 0, "size": 1, "time": 2, "typesOnly": False,
                         "filter": {"k": "ext", "rule": None, "attr": None, "v": "", "dn": False}, "attrs": []}, "controls": []},
    ]


def direct_roundtrip(j):
    """the property statement, tested directly on the implementation; returns a violation dict or None"""
    opts = M.PackingOptions()
    m = C.msg_from_json(j)
    data = m.pack(opts)
    trailer = b"\x30\x03\x02\x01"
    r = ASN1Reader(data + trailer)
    try:
        back = M.unpack_ldap_message(r, opts)
    except BaseException as e:  # noqa: BLE001
        return {"key": None, "what": f"decoding the library's own encoding raised {type(e).__name__}: {e}"[:300], "msg": j, "hex": data.hex()}
    rest = r.get_remaining_data()
    jb = C.msg_to_json(back)
    if strip_raw(jb) != strip_raw(j):
        return {"key": None, "what": "decode(encode(m)) differs from m", "msg": j, "decoded": jb, "hex": data.hex()}
    jm = copy.deepcopy(j)
    for cm, cb in zip(jm["controls"], jb["controls"]):
        if cm["k"] != "generic":
            cm["raw"] = cb.get("raw")
    if back != C.msg_from_json(jm):
        return {"key": None, "what": "decoded message is not == to the original although every canonical field agrees", "msg": j, "hex": data.hex()}
    if rest != trailer:
        return {"key": None, "what": "decoder did not consume exactly the message's bytes", "msg": j, "hex": data.hex(), "rest": rest.hex()}
    again = back.pack(opts)
    if again != data:
        return {"key": None, "what": "re-encoding the decoded message gives different bytes", "msg": j, "hex": data.hex(), "again": again.hex()}
    return None


def _decoded_equals(data, j, opts):
    r = ASN1Reader(data + b"\x30\x03")
    try:
        back = M.unpack_ldap_message(r, opts)
    except BaseException as e:  # noqa: BLE001
        return f"decoding raised {type(e).__name__}"
    if strip_raw(C.msg_to_json(back)) != strip_raw(j):
        return "decode(encode(m)) differs from m"
    if r.get_remaining_data() != b"\x30\x03":
        return "decoder did not consume exactly the message's bytes"
    return None


def argument_kinds(j, kind):
    """the same round trip with the octet-string fields handed over as bytearray / one shared bytearray / memoryview objects (all legal
    for the writer): the message given to pack is the message that comes back, pack does not change its argument, and packing twice
    gives the same bytes"""
    opts = M.PackingOptions()
    want = C.msg_from_json(j).pack(opts)
    with C.octet_kind(kind):
        m = C.msg_from_json(j)
    try:
        data = bytes(m.pack(opts))
        after = C.msg_to_json(m)
        data2 = bytes(m.pack(opts))
    except BaseException as e:  # noqa: BLE001
        return {"key": None, "what": f"packing a message whose octet-string fields are {kind} objects raised {type(e).__name__}: {e}"[:300], "msg": j}
    if after != j:
        return {"key": None, "what": f"packing changed the message it was given (octet-string fields are {kind} objects)", "msg": j, "after_pack": after,
                "octets": kind}
    if data != want or data2 != want:
        return {"key": None, "what": f"a message whose octet-string fields are {kind} objects does not encode like the same message with bytes fields "
                "(or differently the second time)", "msg": j, "hex": data.hex(), "second": data2.hex(), "bytes_fields": want.hex(), "octets": kind}
    w = _decoded_equals(data, j, opts)
    if w:
        return {"key": None, "what": w + f" (octet-string fields are {kind} objects)", "msg": j, "hex": data.hex(), "octets": kind}
    return None


def reused_object(j, rng):
    """ONE message object packed, edited in place through its list fields (what a caller may do with its own lists), packed again: the bytes
    are those of its current value (no derived data is kept from the first use) and decode back to it"""
    import mutate

    opts = M.PackingOptions()
    m = C.msg_from_json(j)
    try:
        m.pack(opts)
        if not mutate.edit_lists(m, rng):
            return None
        j2 = C.msg_to_json(m)
        data = bytes(m.pack(opts))
        want = bytes(C.msg_from_json(j2).pack(opts))
    except BaseException as e:  # noqa: BLE001
        return {"key": None, "what": f"packing a message object a second time after editing its lists raised {type(e).__name__}", "msg": j}
    if data != want:
        return {"key": None, "what": "a message object that was packed, edited in place through its list fields and packed again does not encode its "
                "current value (derived data of the first use is kept)", "first_value": j, "msg": j2, "hex": data.hex(), "fresh_object": want.hex()}
    w = _decoded_equals(data, j2, opts)
    if w:
        return {"key": None, "what": w + " (object packed before, then edited in place)", "first_value": j, "msg": j2, "hex": data.hex()}
    return None


def huge_numbers(hist):
    """numbers with more decimal digits than CPython's int -> str conversion limit (4300 by default; an application may lower it to 640) in every
    integer field: the codec works on octets, so such messages encode, decode back equal and re-encode to the same bytes.  Implementation only —
    such numbers cannot travel through JSON or the line protocol under the same limit; nothing here converts them to text"""
    import sys

    out = []
    prev = sys.get_int_max_str_digits() if hasattr(sys, "get_int_max_str_digits") else None
    F = sansldap_mod()
    for limit in ([prev, 640] if prev is not None else [None]):
        if limit is not None:
            sys.set_int_max_str_digits(limit)
        try:
            for digits in (641, 4299, 4301, 9000):
                for sign in (1, -1):
                    n = sign * (10 ** digits + 7)
                    res = lambda code=0: F.LDAPResult(result_code=F.LDAPResultCode(code), matched_dn="", diagnostics_message="", referrals=None)
                    msgs = [
                        ("message id", M.ExtendedRequest(message_id=n, controls=[], name="1.2", value=None)),
                        ("message id", M.SearchResultDone(message_id=n, controls=[], result=res())),
                        ("message id", M.UnbindRequest(message_id=n, controls=[])),
                        ("bind version", M.BindRequest(message_id=1, controls=[], version=n, name="", authentication=F.SimpleCredential(""))),
                        ("size limit", M.SearchRequest(message_id=2, controls=[], base_object="", scope=M.SearchScope(2), deref_aliases=M.DereferencingPolicy(0),
                                                       size_limit=n, time_limit=-n, types_only=False, filter=F.FilterPresent("cn"), attributes=[])),
                        ("paged size", M.ExtendedRequest(message_id=3, controls=[F.PagedResultControl(critical=True, size=n, cookie=b"c")], name="1.2", value=None)),
                    ]
                    try:
                        msgs.append(("result code", M.ExtendedResponse(message_id=4, controls=[], result=res(n), name=None, value=None)))
                    except BaseException:  # noqa: BLE001  (constructing the enum member may itself format the number)
                        hist["huge-numbers:enum-construction-refused"] += 1
                    for where, m in msgs:
                        hist["huge-numbers"] += 1
                        opts = M.PackingOptions()
                        try:
                            data = bytes(m.pack(opts))
                            r = ASN1Reader(data + b"\x30\x03")
                            back = M.unpack_ldap_message(r, opts)
                            rest = r.get_remaining_data()
                            again = bytes(back.pack(opts))
                            ok = rest == b"\x30\x03" and again == data and type(back) is type(m) and back.message_id == m.message_id and \
                                all(getattr(back, f) == getattr(m, f) for f in ("version", "size_limit", "time_limit") if hasattr(m, f)) and \
                                (not hasattr(m, "result") or int(back.result.result_code) == int(m.result.result_code)) and \
                                [getattr(c, "size", None) for c in back.controls] == [getattr(c, "size", None) for c in m.controls]
                            why = "decoded message differs, or the bytes are not consumed exactly / re-encoded identically"
                        except BaseException as e:  # noqa: BLE001
                            ok, why = False, f"raised {type(e).__name__}"
                        if not ok:
                            out.append({"key": None, "what": f"a {type(m).__name__} whose {where} has {digits} decimal digits ({'negative' if sign < 0 else 'positive'}; "
                                        f"interpreter int/str digit limit {limit}) does not survive encode -> decode: {why}", "kind": type(m).__name__,
                                        "field": where, "digits": digits, "sign": sign, "int_max_str_digits": limit})
                            if len(out) >= 5:
                                return out
        finally:
            if prev is not None:
                sys.set_int_max_str_digits(prev)
    return out


def sansldap_mod():
    from codec import sansldap
    return sansldap


ENCODINGS = ["utf-8", "latin-1", "utf-16-le", "utf-16", "utf-32-be", "cp1252", "ascii"]


def other_encodings(ctx, hist):
    """pack(options) / unpack_ldap_message(reader, options) with options whose FOUR string encodings (message fields, credentials, controls,
    filters) are chosen independently from a set of codecs: whenever the message can be encoded at all, it comes back unchanged.  The Lean
    model fixes UTF-8 (what a session uses); this stream is implementation-only and is what ties the other codecs"""
    rng = ctx.rng
    out = []
    for _ in range(ctx.scale(1500, 40000)):
        j = gen.g_msg(rng, depth=rng.choice([1, 2, 3]))
        encs = [rng.choice(ENCODINGS) for _ in range(4)]
        o = M.PackingOptions(string_encoding=encs[0])
        o.authentication.string_encoding, o.control.string_encoding, o.filter.string_encoding = encs[1:]
        try:
            data = bytes(C.msg_from_json(j).pack(o))
        except UnicodeEncodeError:
            hist["other-encodings:not-encodable"] += 1
            continue
        except BaseException as e:  # noqa: BLE001
            out.append({"key": None, "what": f"packing with string encodings {encs} raised {type(e).__name__}", "msg": j, "encodings": encs})
            continue
        hist["other-encodings:round-trips"] += 1
        w = _decoded_equals(data, j, o)
        if w is None:
            try:
                again = bytes(M.unpack_ldap_message(ASN1Reader(data), o).pack(o))
                if again != data:
                    w = "re-encoding the decoded message gives different bytes"
            except BaseException as e:  # noqa: BLE001
                w = f"re-encoding raised {type(e).__name__}"
        if w:
            out.append({"key": None, "what": w + f" (options with string encodings message/credential/control/filter = {encs})", "msg": j, "hex": data.hex(),
                        "encodings": encs})
            if len(out) >= 5:
                break
    return out


def long_lived_options(ctx, hist):
    """the same round trip through ONE options object that lives as long as a session does: messages are decoded before the custom control,
    filter and credential types are added to its choice lists, and messages using those types afterwards"""
    import custom_types as CT

    rng = ctx.rng
    out = []
    for rounds in range(ctx.scale(6, 60)):
        opts = M.PackingOptions()
        order = ["control", "filter", "auth"]
        rng.shuffle(order)
        stages = [None] + order           # stage i: register order[i-1] first
        registered = set()
        for st in stages:
            if st == "control":
                opts.control.choices.append(CT.CustomControl)
            elif st == "filter":
                opts.filter.choices.append(CT.CustomFilter)
            elif st == "auth":
                opts.authentication.choices.append(CT.CustomAuth)
            if st:
                registered.add(st)
            for _ in range(ctx.scale(25, 60)):
                j = gen.g_msg(rng, depth=rng.choice([1, 2, 3]), allow_custom=True)
                s_ = json.dumps(j)
                uses = {"control": '"k": "custom", "crit"' in s_, "filter": '"k": "custom", "v"' in s_ and j["op"]["k"] == "searchReq",
                        "auth": j["op"]["k"] == "bindReq" and j["op"]["cred"]["k"] == "custom"}
                if any(uses[k] and k not in registered for k in uses):
                    continue              # uses a type this options object does not know yet
                hist["long-lived-options:" + ("custom" if any(uses.values()) else "builtin")] += 1
                m = C.msg_from_json(j)
                data = m.pack(opts)
                try:
                    back = M.unpack_ldap_message(ASN1Reader(data), opts)
                except BaseException as e:  # noqa: BLE001
                    out.append({"key": None, "what": f"decoding the library's own encoding raised {type(e).__name__} with an options object that decoded "
                                "other messages before the custom type was registered", "msg": j, "hex": data.hex(), "registered": sorted(registered)})
                    continue
                if strip_raw(C.msg_to_json(back)) != strip_raw(j) or type(back) is not type(m):
                    out.append({"key": None, "what": "decode(encode(m)) differs from m with an options object that decoded other messages before the "
                                "custom type was registered", "msg": j, "decoded": C.msg_to_json(back), "hex": data.hex(), "registered": sorted(registered)})
                if len(out) >= 5:
                    return out
        # every custom type with values around the short / long length forms (its identifier has two octets: tag number 31)
        if rounds < 2:
            for n in (0, 1, 126, 127, 128, 129, 255, 256, 300, 65535, 65536):
                v = C.tx("v" * n)
                for j in ({"id": 1, "op": {"k": "bindReq", "version": 3, "name": C.tx(""), "cred": {"k": "custom", "v": v}}, "controls": []},
                          {"id": 2, "op": {"k": "searchReq", "base": C.tx(""), "scope": 0, "deref": 0, "size": 0, "time": 0, "typesOnly": False,
                                           "filter": {"k": "and", "fs": [{"k": "present", "a": C.tx("cn")}, {"k": "custom", "v": v}]}, "attrs": []}, "controls": []},
                          {"id": 3, "op": {"k": "unbind"}, "controls": [{"k": "custom", "crit": True, "data": ("ab" * n), "raw": None}]}):
                    hist["long-lived-options:custom-size"] += 1
                    m = C.msg_from_json(j)
                    data = m.pack(opts)
                    r = ASN1Reader(data + b"\x30\x03")
                    try:
                        back = M.unpack_ldap_message(r, opts)
                        rest = r.get_remaining_data()
                    except BaseException as e:  # noqa: BLE001
                        out.append({"key": None, "what": f"decoding the library's own encoding of a message with a custom type of {n} value octets raised "
                                    f"{type(e).__name__}", "value_octets": n, "kind": j["op"]["k"], "hex": data[:80].hex()})
                        continue
                    if strip_raw(C.msg_to_json(back)) != strip_raw(j) or rest != b"\x30\x03":
                        out.append({"key": None, "what": "decode(encode(m)) differs from m (or consumes too much) for a message with a custom type",
                                    "value_octets": n, "kind": j["op"]["k"], "hex": data[:80].hex()})
    return out


def generate(ctx, n):
    msgs = corpus_messages()
    for _ in range(n):
        msgs.append(gen.g_msg(ctx.rng, depth=ctx.rng.choice([1, 2, 3, 4, 6])))
    return msgs


def run(ctx):
    msgs = generate(ctx, ctx.scale(3000, 150000))
    violations = []
    hist = collections.Counter()
    shapes = set()
    reqs = []
    for j in msgs:
        hist[j["op"]["k"]] += 1
        hist["controls:" + str(len(j["controls"]))] += 1
        shapes.add(gen.msg_shape(j))
        v = direct_roundtrip(j)
        if v:
            violations.append(v)
    kinds = ["bytearray", "shared", "memoryview"]
    for i, j in enumerate(msgs[: ctx.scale(1200, 30000)]):
        kind = kinds[i % 3]
        hist["octet-fields-as:" + kind] += 1
        v = argument_kinds(j, kind)
        if v:
            violations.append(v)
        v = reused_object(j, ctx.rng)
        hist["reused-object"] += 1
        if v:
            violations.append(v)
        if len(violations) > 20:
            break
    violations += long_lived_options(ctx, hist)
    violations += other_encodings(ctx, hist)
    violations += huge_numbers(hist)
    sample_n = ctx.scale(3000, 30000)
    sub = msgs[:sample_n]
    encs = []
    for j in sub:
        data = C.msg_from_json(j).pack(M.PackingOptions())
        encs.append(data)
        reqs.append({"op": "enc", "msg": j})
        reqs.append({"op": "dec", "hex": data.hex() + "30030201"})
    disagreements = []
    samples = [{"msg": msgs[len(corpus_messages())], "hex": encs[len(corpus_messages())].hex()}]
    if ctx.driver_ok:
        bad, a, b = drive.correspond(reqs)
        for i, q, x, y in bad[:20]:
            disagreements.append({"request": q, "impl": x, "model": y})
    return {
        "evaluations": len(msgs),
        "distinct_nontrivial": len(shapes),
        "rule": "messages generated from the library's own dataclasses: 9 kinds, ids/ints from the C07 grid, texts empty/ASCII/multi-byte/127-300 "
                "octets, None vs empty for every optional, 0-3 controls of the 4 library kinds, filters to depth 6 with fan-out 0-8; distinct = "
                "distinct (kind, control kinds, filter shape); each is packed, unpacked with trailing bytes, compared field by field and re-packed; "
                "a sample is replayed on the Lean model (enc and dec); the first messages are also packed with bytearray / shared bytearray / memoryview "
                "octet fields (argument unchanged, same bytes twice) and as ONE object packed, edited in place through its lists and packed again; further messages are round-tripped with options whose four "
                "string encodings are drawn independently from utf-8 / latin-1 / utf-16(-le) / utf-32-be / cp1252 / ascii (implementation only)",
        "samples": samples,
        "histogram": dict(sorted(hist.items())),
        "requests": len(reqs),
        "violations": violations,
        "disagreements": disagreements,
    }


def replay(ctx, payload):
    print(json.dumps(payload, indent=1)[:3000])
    if "msg" in payload:
        print("re-run:", direct_roundtrip(payload["msg"]))
    return 0
