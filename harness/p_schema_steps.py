"""C18 — tie of the step-counting model of the schema `from_string` post-processing
(lean/Verif/Model/SchemaCost.lean) to the real code.

For families of growing inputs (k names, k extensions, k values in one extension, long quoted
strings with and without escapes, long OID lists, long syntax lengths, invalid tails) this script

 1. runs the real `ObjectClassDescription.from_string` / `AttributeTypeDescription.from_string` /
    `DITContentRuleDescription.from_string` under `sys.settrace`, counting the executed source LINES
    of schema.py (a deterministic count, no clock) — the nested `rplcr` / `_extract_qdstring`
    calls included, the C-level work inside one line (`strip`, `split`, `re.match`) not;
 2. runs the Lean functions `parseOCSK 0` / `parseATSK 0 0` / `parseDCRSK 0` (`lake env lean --run`
    on a generated script) to get the model's OWN steps (pattern charges set to 0) and the result
    class (ok / ValueError);
 3. checks  same acceptance,  lines <= MULT * steps + CONST  for every input, and reports the
    largest observed ratio (lines - CONST) / steps;
 4. times `_parse_extensions` alone on k extensions (CPU time) to show the quadratic term of the
    model is real: the local exponent log(t2/t1)/log(k2/k1) is reported, not judged.

Exit code 0 = every check passed, 1 = a check failed, 2 = a measurement could not be taken.
"""
from __future__ import annotations

import json
import math
import os
import subprocess
import sys
import tempfile
import time

HERE = os.path.dirname(os.path.abspath(__file__))
LEAN_DIR = os.path.join(os.path.dirname(HERE), "lean")
REPO = os.environ.get("VERIF_REPO", "/repo")
sys.path.insert(0, os.path.join(REPO, "src"))

import sansldap.schema as S  # noqa: E402

SCHEMA_FILE = S.__file__

# lines <= MULT * steps + CONST.  CONST covers the fixed prologue of from_string (the m.group lines, the dict
# literal, the constructor call: about 30 lines whatever the input); MULT = 1 because every executed line
# of a loop body is charged at least one step by the model.
MULT = 1
CONST = 60

LEAN_SCRIPT = r"""
import Verif.Model.SchemaCost
open Verif Verif.Schema Verif.SchemaCost

def tag {α : Type} (r : Except PErr α × Nat) : String :=
  (match r.1 with | .ok _ => "ok" | .error _ => "err") ++ " " ++ toString r.2

def main : IO Unit := do
  let stdin ← IO.getStdin
  let mut go := true
  while go do
    let line ← stdin.getLine
    if line.isEmpty then go := false else
    let line := String.ofList (line.toList.filter (fun c => c != '\n'))
    match line.splitOn "\t" with
    | [kind, codes] =>
      let s : Str := (codes.splitOn " ").filterMap (fun t => t.toNat?)
      let out := match kind with
        | "OC" => tag (parseOCSK 0 s)
        | "AT" => tag (parseATSK 0 0 s)
        | _ => tag (parseDCRSK 0 s)
      IO.println out
    | _ => IO.println "bad"
"""


def model_steps(items):
    """items: list of (kind, text) -> list of (accepted, own_steps) from the Lean model"""
    with tempfile.TemporaryDirectory() as td:
        script = os.path.join(td, "SchemaStepsRun.lean")
        with open(script, "w") as f:
            f.write(LEAN_SCRIPT)
        data = "".join(f"{kind}\t{' '.join(str(ord(c)) for c in text)}\n" for kind, text in items)
        try:
            p = subprocess.run(["lake", "env", "lean", "--run", script], cwd=LEAN_DIR, input=data, capture_output=True,
                               text=True, timeout=1800)
        except (OSError, subprocess.TimeoutExpired) as e:
            print("cannot run the Lean model:", e)
            sys.exit(2)
        lines = [ln for ln in p.stdout.splitlines() if ln and not ln.startswith("WARNING")]
        if p.returncode != 0 or len(lines) != len(items):
            print("cannot run the Lean model:", p.returncode, p.stderr[-2000:], lines[:3])
            sys.exit(2)
        out = []
        for ln in lines:
            a, b = ln.split()
            out.append((a == "ok", int(b)))
        return out


def count_lines(fn):
    """executed source lines of schema.py while fn() runs (the frames of nested helpers included)"""
    count = 0

    def local(frame, event, arg):
        nonlocal count
        if event == "line":
            count += 1
        return local

    def tracer(frame, event, arg):
        if event == "call" and frame.f_code.co_filename == SCHEMA_FILE:
            return local
        return None

    old = sys.gettrace()
    sys.settrace(tracer)
    try:
        try:
            fn()
            ok = True
        except ValueError:
            ok = False
    finally:
        sys.settrace(old)
    return ok, count


CLS = {"OC": S.ObjectClassDescription, "AT": S.AttributeTypeDescription, "DCR": S.DITContentRuleDescription}


def families():
    ks = [1, 2, 5, 10, 20, 40, 80, 160]
    fam = []

    def add(name, kind, mk):
        fam.append((name, kind, [(k, mk(k)) for k in ks]))

    for kind in ("OC", "AT", "DCR"):
        add("k extensions", kind, lambda k: "( 1.2" + " X-a 'v'" * k + " )")
        add("k distinct extensions", kind, lambda k: "( 1.2" + "".join(f" X-{'a' * (i + 1)} 'v'" for i in range(k)) + " )")
        add("k values in one extension", kind, lambda k: "( 1.2 X-a (" + " 'v'" * k + " ) )")
        add("k extensions of k values", kind, lambda k: "( 1.2" + (" X-a (" + " 'v'" * min(k, 20) + " )") * k + " )")
        add("k names", kind, lambda k: "( 1.2 NAME (" + " 'a'" * k + " ) )")
        add("description of k letters", kind, lambda k: "( 1.2 DESC '" + "a" * k + "' )")
        add("description of k escapes", kind, lambda k: "( 1.2 DESC '" + "\\27\\5c" * k + "' )")
        add("extension value of k escapes", kind, lambda k: "( 1.2 X-a '" + "\\5C" * k + "' )")
        add("k spaces everywhere", kind, lambda k: "(" + " " * k + "1.2" + " " * k + "X-a" + " " * k + "(" + " " * k + "'v'" + " " * k + ")" + " " * k + ")")
        add("invalid tail after k extensions", kind, lambda k: "( 1.2" + " X-a 'v'" * k + " X-b 'v")
        add("invalid: k extensions, no close", kind, lambda k: "( 1.2" + " X-a 'v'" * k)
    for kind in ("OC", "DCR"):
        add("MUST of k oids", kind, lambda k: "( 1.2 MUST ( a" + " $ a" * k + " ) )")
        add("MAY of k numeric oids", kind, lambda k: "( 1.2 MAY (" + "$".join("1.2.%d" % i for i in range(k + 1)) + ") )")
    add("SUP of k oids", "OC", lambda k: "( 1.2 SUP ( a" + " $ a" * k + " ) ABSTRACT )")
    add("NOT of k oids", "DCR", lambda k: "( 1.2 NOT ( a" + " $ a" * k + " ) )")
    add("syntax length of k digits", "AT", lambda k: "( 1.2 SYNTAX 1.3{" + "1" * min(k, 4000) + "} )")
    add("quoted syntax of k arcs", "AT", lambda k: "( 1.2 SYNTAX '1" + ".2" * k + "' SINGLE-VALUE NO-USER-MODIFICATION USAGE dSAOperation )")
    add("all keywords, k names", "AT", lambda k: "( 1.2 NAME (" + " 'a'" * k + " ) DESC 'd' OBSOLETE SUP a EQUALITY b ORDERING c SUBSTR d "
        "SYNTAX 1.3{5} SINGLE-VALUE COLLECTIVE NO-USER-MODIFICATION USAGE directoryOperation X-a 'v' )")
    return fam


def timing():
    """CPU time of `_parse_extensions` alone on k extensions: the quadratic term of the model is the copying of the remainder"""
    rows = []
    prev = None
    for k in (2000, 4000, 8000, 16000, 32000):
        text = " X-a 'v'" * k
        best = None
        for _ in range(3):
            t0 = time.process_time()
            S._parse_extensions(text)
            t = time.process_time() - t0
            best = t if best is None else min(best, t)
        exp = None
        if prev is not None and prev[1] > 0 and best > 0:
            exp = math.log(best / prev[1]) / math.log(k / prev[0])
        rows.append({"k": k, "chars": len(text), "cpu_s": round(best, 4), "local_exponent": None if exp is None else round(exp, 2)})
        prev = (k, best)
    return rows


def main():
    fam = families()
    items = [(kind, text) for _, kind, rows in fam for _, text in rows]
    model = model_steps(items)
    i = 0
    worst = 0.0
    worst_at = None
    failures = []
    report = []
    for name, kind, rows in fam:
        out_rows = []
        for k, text in rows:
            m_ok, m_steps = model[i]
            i += 1
            ok, lines = count_lines(lambda: CLS[kind].from_string(text))
            if ok != m_ok:
                failures.append(f"{kind} / {name} / k={k}: acceptance differs (python {ok}, model {m_ok})")
            if lines > MULT * m_steps + CONST:
                failures.append(f"{kind} / {name} / k={k}: {lines} lines > {MULT} * {m_steps} + {CONST}")
            if m_steps > 0:
                r = max(0, lines - CONST) / m_steps
                if r > worst:
                    worst, worst_at = r, f"{kind} / {name} / k={k}"
            out_rows.append({"k": k, "n": len(text), "accepted": ok, "lines": lines, "model_own_steps": m_steps})
        report.append({"family": name, "kind": kind, "rows": out_rows})
        last = out_rows[-1]
        print(f"{kind:3} {name:36} k={last['k']:4} n={last['n']:6} lines={last['lines']:6} steps={last['model_own_steps']:9} "
              f"lines/steps={last['lines'] / max(1, last['model_own_steps']):.4f}")
    t = timing()
    print("timing of _parse_extensions alone:", json.dumps(t))
    print(f"inputs: {len(items)}; largest (lines - {CONST}) / steps = {worst:.4f} at {worst_at}; bound used: lines <= {MULT} * steps + {CONST}")
    out = os.environ.get("SCHEMA_STEPS_REPORT")
    if out:
        with open(out, "w") as f:
            json.dump({"mult": MULT, "const": CONST, "worst_ratio": worst, "worst_at": worst_at, "families": report, "timing": t}, f, indent=1)
    if failures:
        print("FAILED:")
        for x in failures[:20]:
            print("  ", x)
        sys.exit(1)
    print("ok")


if __name__ == "__main__":
    main()
