"""C09 — session property checked on generated joint client/server histories (see p_session.py)."""
from __future__ import annotations

import p_session as PS

LEAN_TARGETS = ["Verif.Props.C09", "Verif.Props.C09More"]
SECOND_TIE = {
    "what": "the bookkeeping of _session.py (data_to_send, unbind, _send and _validate_outgoing_message of base / client / server, both "
            "_process_incoming_message, the processing loop and closing logic of receive with the attached notification, bind / bind_simple / bind_sasl / "
            "extended_request / search_request, bind_response / extended_response / search_result_entry / reference / done) translated method by method "
            "from the Python AST into Lean (harness/py2lean_session.py -> Generated/SessionGen.lean; encoding = the model's encMsg, unpacking = the "
            "model's parse loop, both abstract here) and proved equal to the hand-written model of Model/Session.lean (Props/TiesSession.lean: component "
            "ties to sendBase / clientSend / serverSend / clientProcess / serverProcess / processLoop / recv, and one step tie per Call constructor)",
    "translator": "py2lean_session.py",
    "targets": ["Verif.Props.TiesSession", "Verif.Props.TiesSessionRecv", "Verif.Props.TiesSessionBridge"],
    "validate": "p_sessiongen.py",
}
LEVEL = "proof"
ASSUMPTIONS = [
    "sets of message ids are modelled as duplicate-free lists; internal buffers are observed read-only by the harness",
]


def run(ctx):
    r = PS.run_histories(ctx, "C09", ctx.scale(250, 6000), ctx.scale(24, 40))
    import collections
    h2 = collections.Counter()
    r["violations"] = list(r.get("violations", [])) + PS.huge_id_checks(h2)["C09"][:5]
    r.setdefault("histogram", {}).update(dict(h2))
    r["evaluations"] = r.get("evaluations", 0) + sum(h2.values())
    r["rule"] = ("joint client/server histories (client calls, server calls with every id class: outstanding / search / retired / never issued / 0 / "
                 "negative, drains of every amount class incl. negative and oversized, partial and whole deliveries of the peer's real bytes, crafted "
                 "single messages of every kind, corrupted and random bytes, registrations), generated state-aware by a shadow implementation; monitor: "
                 "client ids are 1,2,3,… in call order and are the ids inside the emitted bytes; a single delivered message is accepted iff it is a response whose id is outstanding; lifetime of searches vs other operations; rejection closes the session; every history is also replayed on the Lean model and the observables relevant to C09 are compared after every call; "
                 "plus (implementation only) responses and requests whose message id has more decimal digits than the interpreter's int/str limit (default and 640); "
                 "distinct = distinct (session, call kind, outcome kind) sequences")
    return r


def replay(ctx, payload):
    return PS.replay_history(payload)
