"""A small independent BER toolkit for the harness (no code shared with sansldap):
lenient definite-length parsing into a tree, and encoding with per-node freedoms
(length form, explicit length override) used to build alternative encodings (C04) and
malformed interiors (C05, C06)."""
from __future__ import annotations

import random
from typing import List, Optional


class Node:
    __slots__ = ("cls", "cons", "num", "content", "kids", "len_override", "len_form")

    def __init__(self, cls, cons, num, content=b"", kids=None):
        self.cls, self.cons, self.num = cls, cons, num
        self.content = content           # primitive content (or raw content if kids is None)
        self.kids: Optional[List["Node"]] = kids
        self.len_override = None         # write this length instead of the real one
        self.len_form = None             # None = minimal; k>0 = long form with k octets

    def copy(self):
        n = Node(self.cls, self.cons, self.num, self.content, None if self.kids is None else [k.copy() for k in self.kids])
        n.len_override, n.len_form = self.len_override, self.len_form
        return n

    def walk(self):
        yield self
        for k in self.kids or []:
            yield from k.walk()

    def __repr__(self):
        if self.kids is None:
            return f"P({self.cls},{self.num},{self.content.hex()})"
        return f"C({self.cls},{self.num},{self.kids})"


def enc_tag(cls, cons, num) -> bytes:
    first = (cls << 6) | (0x20 if cons else 0)
    if num < 31:
        return bytes([first | num])
    out = [num & 0x7F]
    num >>= 7
    while num:
        out.append(0x80 | (num & 0x7F))
        num >>= 7
    return bytes([first | 31]) + bytes(reversed(out))


def enc_len(n: int, form: Optional[int] = None) -> bytes:
    if form is None:
        if n < 128:
            return bytes([n])
        b = n.to_bytes((n.bit_length() + 7) // 8, "big")
        return bytes([0x80 | len(b)]) + b
    need = max(1, (n.bit_length() + 7) // 8)
    k = max(form, need)
    return bytes([0x80 | k]) + n.to_bytes(k, "big")


def encode(node: Node) -> bytes:
    body = node.content if node.kids is None else b"".join(encode(k) for k in node.kids)
    n = len(body) if node.len_override is None else node.len_override
    return enc_tag(node.cls, node.cons, node.num) + enc_len(n, node.len_form) + body


class Incomplete(Exception):
    pass


def read_header(data: bytes, pos: int = 0):
    """returns (cls, cons, num, header_len, content_len); raises Incomplete / ValueError"""
    if pos >= len(data):
        raise Incomplete()
    o1 = data[pos]
    cls, cons, num = o1 >> 6, bool(o1 & 0x20), o1 & 0x1F
    i = pos + 1
    if num == 31:
        num = 0
        while True:
            if i >= len(data):
                raise Incomplete()
            b = data[i]
            i += 1
            num = (num << 7) | (b & 0x7F)
            if not b & 0x80:
                break
    if i >= len(data):
        raise Incomplete()
    l = data[i]
    i += 1
    if l == 0x80:
        raise ValueError("indefinite")
    if l & 0x80:
        k = l & 0x7F
        if i + k > len(data):
            raise Incomplete()
        length = int.from_bytes(data[i:i + k], "big")
        i += k
    else:
        length = l
    return cls, cons, num, i - pos, length


def parse(data: bytes, deep: bool = True) -> List[Node]:
    """parse a concatenation of TLVs; constructed nodes are parsed recursively when their
    content is itself well-formed, otherwise kept raw"""
    out = []
    pos = 0
    while pos < len(data):
        cls, cons, num, hl, ln = read_header(data, pos)
        if pos + hl + ln > len(data):
            raise Incomplete()
        content = data[pos + hl: pos + hl + ln]
        node = Node(cls, cons, num, content)
        if cons and deep:
            try:
                node.kids = parse(content, deep)
            except (Incomplete, ValueError):
                node.kids = None
        out.append(node)
        pos += hl + ln
    return out


def count_frames(data: bytes):
    """independent framing by the outer identifier and length only: (number of complete outer
    units, offset where the incomplete tail starts); stops at a COMPLETE unit that is not a SEQUENCE, or at a header that
    can never be completed (indefinite length)"""
    n = 0
    pos = 0
    while pos < len(data):
        try:
            cls, cons, num, hl, ln = read_header(data, pos)
        except Incomplete:
            break
        except ValueError:
            return n, pos, "bad"
        if pos + hl + ln > len(data):
            break                      # genuinely incomplete (whatever its tag): holding it back is permitted
        if (cls, cons, num) != (0, True, 16):
            return n, pos, "bad"       # a complete unit that cannot be an LDAPMessage must be accounted for by an error
        n += 1
        pos += hl + ln
    return n, pos, "ok"


def chunkings(rng: random.Random, data: bytes, how_many: int):
    """random partitions of data into consecutive chunks incl. empty and 1-byte chunks"""
    out = []
    for _ in range(how_many):
        style = rng.random()
        cuts = set()
        if style < 0.3:
            k = rng.choice([1, 2, 3])
            cuts = set(rng.randrange(0, len(data) + 1) for _ in range(k))
        elif style < 0.5:
            cuts = set(range(0, len(data) + 1, rng.choice([1, 2, 3, 7])))
        else:
            cuts = set(i for i in range(len(data) + 1) if rng.random() < 0.1)
        if len(cuts) > 48:
            cuts = set(rng.sample(sorted(cuts), 48))
        pts = [0] + sorted(cuts) + [len(data)]
        chunks = [data[a:b] for a, b in zip(pts, pts[1:])]
        if rng.random() < 0.3:
            chunks.insert(rng.randrange(len(chunks) + 1), b"")
        out.append(chunks)
    return out
