"""C02 — message reassembly is independent of how the byte stream is chunked."""
from __future__ import annotations

import collections
import json

import ber
import codec as C
import drive
import p_recv as PR

LEAN_TARGETS = ["Verif.Props.C02", "Verif.Props.C02More"]
LEVEL = "proof"
ASSUMPTIONS = [
    "the last clause (returned messages are self-contained values) concerns object aliasing, which no value-level model expresses: it is "
    "decided by the harness alone (caller's buffer overwritten after every receive, earlier messages re-compared)",
]


def check_stream(prep, data, chunks, ref, reuse):
    """feed `chunks`; compare with the single delivery `ref` = (results, snapshot)"""
    results, snap, returned, sess = PR.feed_impl(prep, chunks, reuse_buffer=reuse)
    ref_results, ref_snap = ref
    if any(k != "msgs" for k, _ in results):
        bad = [k for k, _ in results if k != "msgs"][0]
        return {"key": None, "what": f"chunked delivery raised {bad} although the single delivery returned messages"}
    if PR.all_msgs(results) != PR.all_msgs(ref_results):
        return {"key": None, "what": "chunked delivery returned different messages (lost / duplicated / reordered / altered)",
                "got": PR.all_msgs(results)[:4], "want": PR.all_msgs(ref_results)[:4]}
    if snap != ref_snap:
        return {"key": None, "what": "session state after chunked delivery differs from single delivery", "got": snap, "want": ref_snap}
    for m, j in returned:
        if json.dumps(C.msg_to_json(m), sort_keys=True) != j:
            return {"key": None, "what": "a message returned earlier changed after later deliveries / reuse of the caller's buffer"}
    return None


def run(ctx):
    rng = ctx.rng
    violations = []
    hist = collections.Counter()
    distinct = set()
    evaluations = 0
    reqs = []
    samples = []
    n_streams = ctx.scale(100, 700)
    hid = 0
    for si in range(n_streams):
        prep = rng.choice(["server_fresh", "server_mid", "client_mid", "server_binding", "server_registered", "client_registered"])
        msgs = PR.valid_stream(rng, prep)
        if not msgs:
            continue
        packed = PR.pack_all(msgs)
        if si % 5 in (1, 3):
            # the same messages as a peer with another BER encoder frames them (Active Directory: 30 84 00 00 xx xx): long-form
            # lengths with leading zero octets, so that a cut can fall inside the length octets after an all-zero prefix
            packed = [PR.reencode_lenforms(rng, p) or p for p in packed]
            hist["streams-with-nonminimal-lengths"] += 1
        data = b"".join(packed)
        ref_results, ref_snap, _, _ = PR.feed_impl(prep, [data])
        if any(k != "msgs" for k, _ in ref_results):
            hist["single-delivery-error"] += 1
            if prep != "server_binding":
                # these streams are built to be accepted by these sessions (requests with fresh ids to a server, responses for the operations
                # in progress to a client): a whole delivery that fails is itself a lost message
                evaluations += 1
                violations.append({"key": None, "what": f"a stream of {len(msgs)} well-formed message(s) that this session must accept, delivered whole to a fresh "
                                   f"session, gave {[k for k, _ in ref_results]} instead of the messages", "prep": prep, "stream": data.hex()[:2000], "chunks": [data.hex()[:2000]]})
            continue   # (a non-bind request while binding is not an acceptable stream: outside the property)
        ref = (ref_results, ref_snap)
        parts = []
        # every single cut position (long streams: every position near the headers, a spread elsewhere)
        cap = ctx.scale(150, 3000)
        if len(data) + 1 <= cap:
            cut_positions = list(range(len(data) + 1))
        else:
            cut_positions = sorted(set(list(range(0, 40)) + list(range(len(data) - 20, len(data) + 1)) +
                                       [rng.randrange(len(data) + 1) for _ in range(cap - 60)]))
        for i in cut_positions:
            parts.append([data[:i], data[i:]])
        # every pair of cut positions for short streams
        if len(data) <= ctx.scale(28, 80):
            for i in range(len(data) + 1):
                for j in range(i, len(data) + 1):
                    parts.append([data[:i], data[i:j], data[j:]])
        parts.extend(ber.chunkings(rng, data, ctx.scale(6, 30)))
        parts.append([bytes([b]) for b in data] if len(data) < 200 else [data])
        hlen = ber.read_header(data)[3]
        for chunks in parts:
            evaluations += 1
            cut_in_header = any(0 < sum(len(c) for c in chunks[:k]) < hlen for k in range(1, len(chunks)))
            hist["cut-in-first-header" if cut_in_header else "cut-elsewhere"] += 1
            distinct.add((si, tuple(len(c) for c in chunks)))
            v = check_stream(prep, data, chunks, ref, reuse=(evaluations % 2 == 0))
            if v:
                v.update({"prep": prep, "stream": data.hex(), "chunks": [c.hex() for c in chunks]})
                violations.append(v)
        hist[f"msgs:{len(msgs)}"] += 1
        # correspondence: a few partitions of this stream on the model
        for chunks in ([[data]] + rng.sample(parts, min(len(parts), ctx.scale(4, 10))) if len(data) < 4000 else []):
            reqs.extend(PR.history_requests(prep, f"h{hid}", chunks))
            hid += 1
        if si < 2:
            samples.append({"prep": prep, "messages": len(msgs), "stream": data.hex()[:200], "partition": [len(c) for c in parts[len(parts) // 2]]})
    disagreements = []
    if ctx.driver_ok:
        bad, a, b = drive.correspond(reqs)
        for i, q, x, y in bad[:10]:
            disagreements.append({"request": q, "impl": x, "model": y})
    return {
        "evaluations": evaluations,
        "distinct_nontrivial": len(distinct),
        "rule": "streams of 1-6 generated messages (two in five re-framed with non-minimal long-form lengths, outer envelope included) acceptable to a prepared session (fresh / mid-conversation / binding server, client with three "
                "operations outstanding, server / client with the custom control, filter and credential types registered and used), cut at every single position, at every pair of positions for short streams, into random partitions with "
                "empty and 1-byte chunks, and byte by byte; each partition is fed to a fresh copy of the session and compared with the single "
                "delivery (messages, order, final state incl. buffered residue); on every other run the caller's bytearray is overwritten after "
                "each receive and earlier messages are re-compared; a sample of partitions is replayed on the Lean model; distinct = (stream, partition)",
        "samples": samples,
        "histogram": dict(sorted(hist.items())),
        "requests": len(reqs),
        "violations": violations,
        "disagreements": disagreements,
    }


def replay(ctx, payload):
    print(json.dumps({k: v for k, v in payload.items() if k not in ("chunks",)}, indent=1)[:2000])
    if "chunks" in payload:
        chunks = [bytes.fromhex(c) for c in payload["chunks"]]
        data = bytes.fromhex(payload["stream"])
        ref_results, ref_snap, _, _ = PR.feed_impl(payload["prep"], [data])
        print("re-run:", check_stream(payload["prep"], data, chunks, (ref_results, ref_snap), True))
    return 0
