"""C18 — parsing cost grows polynomially with input size.

Three parts:
 1. translator sanity: the Lean semantics of every translated pattern (first match) agrees with
    CPython's engine on generated, mutated and random inputs;
 2. search for a failing input: pumping candidates derived from valid sentences (every short
    substring repeated k times, then a broken tail) are scored by the model's exact step count
    `Re.work` (no timing noise); families whose work multiplies per pumped unit are confirmed by
    timing the real `from_string`;
 3. fixed adversarial timing families on the public API (schema, filter, receive)."""
from __future__ import annotations

import collections
import json
import os
import re
import sys
import time

import ber
import codec as C
import drive
import gen
import p_filter as PF
import p_schema as PS
import translate_re as TR
from codec import M, sansldap

LEAN_TARGETS = ["Verif.Props.C18", "Verif.Props.C18Filter", "Verif.Props.C18Steps", "Verif.Props.C18Recv", "Verif.Props.C18Decode", "Verif.Props.C18Schema", "Verif.Props.C18Msg",
                "Verif.Props.TiesSchema", "Verif.Props.SmallMore"]
LEVEL = "proof"
ASSUMPTIONS = [
    "the running time of CPython's re engine on an input is at most a constant times the size of the backtracking search tree (Re.work)",
    "the hand-written recursive parsers have counting models (filter text parser, receive's parse loop, BER filter decoder) with proved linear call "
    "bounds, tied by comparing call counts under a profiler hook; the work inside one call and the schema post-processing are covered by "
    "deterministic step counts (executed source lines against 100(n+1)^2+5000) and timing families only",
    "machine speed is outside the model; times are CPU seconds of the measuring process (not wall clock), a flagged family is measured twice and judged on the "
    "smaller times; a family is super-polynomial only if its local exponent log(t2/t1)/log(n2/n1) stays above 4 over the last three steps with the last "
    "call above 0.25 CPU s, or one call exceeds 2 CPU s; a measurement that cannot be taken is exit 2 (inconclusive), never a violation",
]

EXP_RATIO = 5.0     # work(k+3)/work(k) above this on two consecutive steps = multiplies per unit (a degree-3 polynomial gives < 2.3 at these k)


# ---------------------------------------------------------------- deterministic step counts of the hand-written parsers

class StepBudget(BaseException):
    pass


PARSER_FUNCS = ("_unpack_filter", "_unpack_complex_filter", "_unpack_simple_filter")
STEP_FACTOR = 12


def step_bound(n):
    """a quadratic with a generous constant: the library's own Python-level steps are below 100 per input byte on every family measured"""
    return 100 * (n + 1) ** 2 + 5000


def count_steps(fn, budget):
    """run fn() counting executed source lines inside the sansldap package (a deterministic step count: no clock involved) and calls per
    function name; stops the run when the budget is exceeded"""
    import sys

    steps = 0
    calls = collections.Counter()

    def tracer(frame, event, arg):
        nonlocal steps
        co = frame.f_code
        if "sansldap" not in co.co_filename:
            return None
        if event == "call":
            calls[co.co_name] += 1
            qn = getattr(co, "co_qualname", co.co_name)
            if qn != co.co_name:
                calls[qn] += 1
            return tracer
        if event == "line":
            steps += 1
            if steps > budget:
                raise StepBudget()
        return tracer

    old = sys.gettrace()
    sys.settrace(tracer)
    try:
        fn()
        out = "ok"
    except StepBudget:
        out = "budget"
    except RecursionError:
        out = "RecursionError"
    except Exception as e:  # noqa: BLE001
        out = type(e).__name__
    finally:
        sys.settrace(old)
    return steps, calls, out


def filter_cost_inputs(rng, ctx):
    """filter strings for the cost check: nested families of every operator, valid and broken at the innermost level or at the tail, wide
    lists, long values, plus generated sentences and their single-character edits"""
    out = []
    leaves_ok = ["(a=b)", "(a=*)", "(a>=1)", "(a:dn:1.2:=x)", "(a=x*y*z)", "(a=\\41)"]
    leaves_bad = ["(a", "(a=b", "(\\zz", "(a=\\zz)", "(=b)", "a", "", "(a=b)(", "((a=b)", "(a=b))", "(a=**)", "(!)"]
    for depth in sorted(set(list(range(1, 13)) + [16, 20, 24, 28, 32, 36, 40])):
        for ops in ("!", "&", "|", "!&", "&|!", "|&"):
            pre = "".join("(" + ops[i % len(ops)] for i in range(depth))
            for leaf in leaves_ok[: ctx.scale(2, 6)] + leaves_bad:
                for close in (depth, depth - 1, 0):
                    out.append(pre + leaf + ")" * max(close, 0))
            out.append("".join("(" + ops[i % len(ops)] + "(a=b)" for i in range(depth)) + "(x" + ")" * depth)
    for k in (1, 5, 20, 60):
        out += ["(&" + "(a=b)" * k + ")", "(|" + "(a=b)" * k + "(a", "(a=" + "\\41" * k + ")", "(a=" + "x*" * k + ")", "(" + " " * k + "a=b)",
                "(" * k, ")" * k, "(&" + "(a)" * k, "(a" + ";b" * k + "=x)"]
    for _ in range(ctx.scale(300, 4000)):
        f = PF.g_tree(rng, rng.choice([1, 2, 3, 5]))
        t = PF.sentence(rng, f)
        out.append(t)
        out.append(PF.mutate(rng, t))
    out += PF.FIXED_TEXTS      # incl. whitespace other than U+0020 at every structural position
    return [t for t in out if len(t) <= 400]


def A_writer():
    from sansldap.asn1 import ASN1Writer
    return ASN1Writer()


def p_recv_nest(kind, depth):
    """BER of a filter nested `depth` levels (not / and / or) around a presence filter"""
    f = bytes.fromhex("870161")
    for _ in range(depth):
        f = bytes([{"not": 0xA2, "and": 0xA0, "or": 0xA1}[kind]]) + ber.enc_len(len(f)) + f
    return f


class MatchTimeout(BaseException):
    pass


def limited_match(pat, x, seconds=2.0):
    """pat.match(x) under an interval timer that counts this process's CPU time (a loaded or paused machine cannot trip it;
    CPython's engine polls for signals while it backtracks)"""
    import signal

    def on_alarm(signum, frame):
        raise MatchTimeout()

    old = signal.signal(signal.SIGVTALRM, on_alarm)
    signal.setitimer(signal.ITIMER_VIRTUAL, seconds)
    try:
        return pat.match(x)
    finally:
        signal.setitimer(signal.ITIMER_VIRTUAL, 0)
        signal.signal(signal.SIGVTALRM, old)


def py_patterns():
    out = {}
    for name, pat, flags in TR.capture():
        out[name] = re.compile(pat, flags)
    return out


def to_cps(x):
    return list(x) if isinstance(x, (bytes, bytearray)) else [ord(c) for c in x]


def inputs_for(name, pat, rng, ctx):
    """inputs of the right type (str / bytes) for a pattern"""
    is_bytes = isinstance(pat.pattern, bytes)
    out = []
    if name.startswith("schema_") and "DESCRIPTION" in name:
        kind = {"OBJECT": "oc", "ATTRIBUTE": "at", "DIT": "dcr"}[name.split("_")[1]]
        for _ in range(ctx.scale(150, 3000)):
            d = PS.g_def(rng, kind)
            if PS.valid_for_grammar(d):
                s = PS.render(rng, kind, d)
                out.append(s)
                out.append(PS.mutate(rng, s))
        out += PS.FIXED[:38]
    elif is_bytes:
        for _ in range(ctx.scale(200, 3000)):
            out.append(bytes(rng.choice(b"\\ab41\n\x00(*)\xff") for _ in range(rng.randrange(0, 8))))
    else:
        for _ in range(ctx.scale(200, 3000)):
            r = rng.random()
            if r < 0.4:
                out.append(PF.g_attr(rng))
            elif r < 0.6:
                out.append(PS.g_numericoid(rng) + rng.choice(["{5}", "{05}", "{", "", "{12}x"]))
            else:
                out.append("".join(rng.choice("aZ09.;-\\'5c27C{}\n é") for _ in range(rng.randrange(0, 9))))
    return [x for x in out if len(x) < 400]


def pump_candidates(sentences, rng, limit):
    """(prefix, unit, suffix): every short substring of a valid sentence as the pumped unit, tail broken"""
    seen = set()
    out = []
    for s in sentences:
        for L in (1, 2, 3, 4):
            for i in range(0, len(s) - L + 1):
                u = s[i:i + L]
                ctx_key = (u, s[max(0, i - 3):i])
                if ctx_key in seen:
                    continue
                seen.add(ctx_key)
                for tail in ("", s[i + L:i + L + 1] + "\x01"):
                    out.append((s[:i], u, tail))
    rng.shuffle(out)
    return out[:limit]


def run(ctx):
    rng = ctx.rng
    violations = []
    disagreements = []
    hist = collections.Counter()
    samples = []
    evaluations = 0
    distinct = set()
    pats = py_patterns()

    # ---------------- 1. translator sanity (first match of the Lean semantics vs CPython)
    reqs, expect = [], []
    for name, pat in pats.items():
        for x in inputs_for(name, pat, rng, ctx):
            try:
                m = limited_match(pat, x)
            except MatchTimeout:
                violations.append({"key": None, "what": "a compiled pattern needs more than 2 s of CPU on an input of a few hundred characters", "pattern": name,
                                   "input": x if isinstance(x, str) else x.hex(), "chars": len(x)})
                hist["xcheck:timeout"] += 1
                if hist["xcheck:timeout"] >= 3:
                    break
                continue
            reqs.append({"op": "rematch", "name": name, "cps": to_cps(x)})
            expect.append({"end": None if m is None else m.end()})
            hist["xcheck:" + name] += 1
    if ctx.driver_ok:
        names = drive.run_model([{"op": "repatterns"}])[0].get("names", [])
        if sorted(names) != sorted(pats):
            disagreements.append({"what": "the set of patterns in Generated/Regexes.lean differs from the patterns the library compiles now",
                                  "lean": sorted(names), "python": sorted(pats)})
        got = drive.run_model(reqs)
        for q, e, g in zip(reqs, expect, got):
            evaluations += 1
            if g.get("end") == "budget":
                hist["xcheck:model-budget"] += 1      # the model's search tree on this input exceeds the driver's budget: scored by the pump search
                continue
            if e != g:
                disagreements.append({"what": "translated pattern and CPython disagree on the first match", "pattern": q["name"],
                                      "input": q["cps"][:80], "python": e, "lean": g})
                if len(disagreements) > 10:
                    break

    # ---------------- 2. pumping search scored by the model's exact step count
    if ctx.driver_ok:
        jobs = []
        for name, kind in (("schema_OBJECT_CLASS_DESCRIPTION", "oc"), ("schema_ATTRIBUTE_TYPE_DESCRIPTION", "at"),
                           ("schema_DIT_CONTENT_RULE_DESCRIPTION", "dcr")):
            if name not in pats:
                continue
            sents = []
            for _ in range(ctx.scale(6, 40)):
                d = PS.g_def(rng, kind)
                if PS.valid_for_grammar(d):
                    sents.append(PS.render(rng, kind, d)[:120])
            sents.append("( 1.2 NAME ( 'a' 'b' ) DESC 'x\\27\\5cy' SUP ( a $ 1.2 ) MUST x X-a ( 'p' 'q' ) X-b 'r' )")
            for (pre, u, tail) in pump_candidates(sents, rng, ctx.scale(500, 6000)):
                jobs.append((name, kind, pre, u, tail))
        if "filter_ATTRIBUTE_PATTERN" in pats:
            for (pre, u, tail) in pump_candidates(["cn;x-1;y", "1.2.3;a", "a-b"], rng, 200):
                jobs.append(("filter_ATTRIBUTE_PATTERN", "attr", pre, u, tail))
        ks = (4, 7, 10)
        wreqs = []
        for (name, kind, pre, u, tail) in jobs:
            for k in ks:
                wreqs.append({"op": "rework", "name": name, "cps": to_cps(pre + u * k + tail)})
        got = drive.run_model(wreqs, timeout=900)
        for j, (name, kind, pre, u, tail) in enumerate(jobs):
            w = [got[j * 3 + i].get("work", 0) for i in range(3)]
            over_budget = any(x is None for x in w)            # None: the search tree exceeds the driver's budget on that input
            w = [10 ** 12 if x is None else x for x in w]
            evaluations += 1
            distinct.add((name, u, pre[-3:]))
            if over_budget or (w[0] > 0 and w[1] / w[0] >= EXP_RATIO and w[2] / max(w[1], 1) >= EXP_RATIO):
                hist["pump:suspect"] += 1
                # confirm on the implementation: time the public API while pumping
                series = confirm(kind, pre, u, tail)
                if series["exponential"]:
                    violations.append({"key": None, "what": "parsing time multiplies with every repetition of a short unit (exponential family)",
                                       "pattern": name, "prefix": pre, "unit": u, "tail": tail, "model_work": dict(zip(ks, w)), "timing": series})
                    if len(violations) >= 5:
                        break
            else:
                hist["pump:polynomial"] += 1
        if jobs:
            samples.append({"pump": {"prefix": jobs[0][2][-30:], "unit": jobs[0][3], "tail": jobs[0][4]},
                            "model_work_at_k_4_7_10": [got[i].get("work") for i in range(3)]})

    # ---------------- 3. fixed adversarial timing families on the public API
    for label, make, sizes in timing_families(ctx):
        ts = timed_series(make, sizes)
        evaluations += len(ts)
        distinct.add(label)
        verdict = judge_family(list(sizes), ts)
        if verdict:
            # measured again: a point counts with the smaller of its two CPU times (one disturbed sample cannot alarm)
            ts2 = timed_series(make, sizes)
            ts = [min(a, b) for a, b in zip(ts, ts2)]
            verdict = judge_family(list(sizes), ts)
            hist["family:remeasured"] += 1
        hist["family:" + label] = round(max(ts), 4)
        if verdict:
            violations.append({"key": None, "what": verdict, "family": label, "sizes": list(sizes[: len(ts)]), "cpu_seconds": [round(t, 4) for t in ts]})
    # ---------------- 4. hand-written filter parser: call-count correspondence with the counting model, step counts against the quadratic bound
    ftexts = filter_cost_inputs(rng, ctx)
    creq = []
    sreq = []
    for t in ftexts:
        n = len(t.strip().encode("utf-8", errors="surrogateescape"))
        steps, calls, out = count_steps(lambda: sansldap.LDAPFilter.from_string(t), step_bound(n))
        evaluations += 1
        hist["steps:filter:" + ("ok" if out == "ok" else "budget" if out == "budget" else "rejected")] += 1
        distinct.add(("steps", t[:12], len(t)))
        if out == "budget":
            violations.append({"key": None, "what": "the filter parser's step count exceeds the quadratic bound 100*(n+1)^2+5000 (executed source lines, "
                               "deterministic): super-polynomial or badly super-quadratic parsing", "text": t, "bytes": n, "steps_when_stopped": steps,
                               "parser_calls_when_stopped": sum(calls[f] for f in PARSER_FUNCS)})
            if sum(1 for v in violations if "step count" in v["what"]) >= 5:
                break
            continue
        if all(f in calls or True for f in PARSER_FUNCS) and any(f in calls for f in PARSER_FUNCS) and out != "RecursionError" and t.count("(") < 150:
            creq.append(({"op": "fparsec", "cps": [ord(c) for c in t]}, sum(calls[f] for f in PARSER_FUNCS), out == "ok", t))
            sreq.append(({"op": "fparsesteps", "cps": [ord(c) for c in t]}, steps, t))
    if ctx.driver_ok and creq:
        got = drive.run_model([q for q, _, _, _ in creq])
        for (q, pycalls, pyok, t), g in zip(creq, got):
            if g.get("calls") != pycalls:
                hist["calls:differ-from-model"] += 1
            # the cost claim transfers from the model with a constant factor: a different but comparable call structure (say, a helper inlined or
            # split) is recorded, not reported; calls the model cannot account for (more than twice its count) or a different outcome are
            if g.get("ok") != pyok or pycalls > 2 * g.get("calls", 0) + 2:
                disagreements.append({"what": "the parser makes more than twice the _unpack_filter/_unpack_complex_filter/_unpack_simple_filter calls the counting "
                                      "model (Model/FilterCost.lean) accounts for, or accepts/rejects differently", "text": t, "python_calls": pycalls, "python_ok": pyok, "model": g})
                if len(disagreements) > 10:
                    break
        hist["calls:compared"] = len(creq)
    if ctx.driver_ok and sreq:
        # the step-counting model (Model/FilterSteps.lean; Props/C18Steps.lean: the parser's own scan steps are at most 2(N+1)+32(n+1), LINEAR in
        # the input) carries over to the implementation with a constant factor: on the unchanged tree the executed source lines are at most
        # 5 x the model's scan steps; more than 12 x + 200 is work the model cannot account for
        got = drive.run_model([q for q, _, _ in sreq])
        worst = 0.0
        for (q, pysteps, t), g in zip(sreq, got):
            scan = g.get("scan")
            if not isinstance(scan, int):
                continue
            worst = max(worst, pysteps / (scan + 1))
            if pysteps > STEP_FACTOR * scan + 200:
                disagreements.append({"what": f"the filter parser executes more than {STEP_FACTOR} x the source lines the step-counting model (Model/FilterSteps.lean, "
                                      "proved linear) accounts for", "text": t, "python_lines": pysteps, "model": g})
                if len(disagreements) > 10:
                    break
        hist["steps:compared-with-model"] = len(sreq)
        hist["steps:max-lines-per-model-step-x100"] = int(worst * 100)
    # receive: the number of unpack_ldap_message calls on a buffer against the counting model of the parse loop (Model/RecvCost.lean)
    rreq = []
    o = M.PackingOptions()
    for _ in range(ctx.scale(400, 6000)):
        n = rng.choice([0, 1, 1, 2, 3, 5, 9])
        data = b"".join(C.msg_from_json(gen.g_msg(rng, rng.choice(["bindReq", "searchReq", "extReq", "extReq", "unbind"]), depth=2)).pack(o) for _ in range(n))
        r = rng.random()
        if r < 0.3 and data:
            data = data[: rng.randrange(len(data) + 1)]                       # incomplete tail
        elif r < 0.45:
            data += bytes(rng.randrange(256) for _ in range(rng.choice([1, 2, 5])))   # garbage tail
        elif r < 0.55 and data:
            i = rng.randrange(len(data))
            data = data[:i] + bytes([data[i] ^ rng.choice([1, 0x20, 0x80])]) + data[i + 1:]
        s_ = sansldap.LDAPServer()
        steps, calls, out = count_steps(lambda: s_.receive(data), step_bound(len(data)))
        evaluations += 1
        hist["steps:receive:" + ("ok" if out == "ok" else out)] += 1
        if out == "budget":
            violations.append({"key": None, "what": "receive's step count exceeds the quadratic bound 100*(n+1)^2+5000 (executed source lines)",
                               "hex": data.hex(), "bytes": len(data), "steps_when_stopped": steps})
            continue
        if "unpack_ldap_message" in calls or not data:
            rreq.append(({"op": "recvattempts", "hex": data.hex()}, calls["unpack_ldap_message"], data))
    if ctx.driver_ok and rreq:
        got = drive.run_model([q for q, _, _ in rreq])
        for (q, pyattempts, data), g in zip(rreq, got):
            if g.get("attempts") != pyattempts:
                hist["attempts:differ-from-model"] += 1
            if pyattempts > 2 * g.get("attempts", 0) + 2:
                disagreements.append({"what": "receive makes more than twice the unpack_ldap_message calls the counting model (Model/RecvCost.lean) accounts for",
                                      "hex": data.hex(), "python_attempts": pyattempts, "model": g})
                if len(disagreements) > 10:
                    break
        hist["attempts:compared"] = len(rreq)
    # BER filter decoding: the number of LDAPFilter.unpack calls against the counting decoder (Model/DecodeCost.lean)
    dreq = []
    from sansldap.asn1 import ASN1Reader as _Reader
    fopts = sansldap.FilterOptions()
    for _ in range(ctx.scale(400, 6000)):
        f = gen.g_filter(rng, rng.choice([0, 1, 2, 3, 5]))
        w = A_writer()
        C.filter_from_json(f).pack(w, fopts)
        data = bytes(w.get_data())
        r = rng.random()
        if r < 0.25 and data:
            data = data[: rng.randrange(len(data) + 1)]
        elif r < 0.4 and data:
            i = rng.randrange(len(data))
            data = data[:i] + bytes([data[i] ^ rng.choice([1, 2, 0x20, 0x80])]) + data[i + 1:]
        elif r < 0.5:
            k = rng.choice([5, 20, 60])
            data = p_recv_nest(rng.choice(["not", "and", "or"]), k)
        steps, calls, out = count_steps(lambda: sansldap.LDAPFilter.unpack(_Reader(data), fopts), step_bound(len(data)))
        evaluations += 1
        hist["steps:decode:" + ("ok" if out == "ok" else "budget" if out == "budget" else "rejected")] += 1
        if out == "budget":
            violations.append({"key": None, "what": "decoding a BER filter exceeds the quadratic step bound 100*(n+1)^2+5000 (executed source lines)",
                               "hex": data.hex(), "bytes": len(data), "steps_when_stopped": steps})
            continue
        if "LDAPFilter.unpack" in calls and out != "RecursionError":
            dreq.append(({"op": "decfilterc", "hex": data.hex()}, calls["LDAPFilter.unpack"], data))
    if ctx.driver_ok and dreq:
        got = drive.run_model([q for q, _, _ in dreq])
        for (q, pycalls, data), g in zip(dreq, got):
            if g.get("calls") != pycalls:
                hist["decodecalls:differ-from-model"] += 1
            if pycalls > 2 * g.get("calls", 0) + 2:
                disagreements.append({"what": "the decoder makes more than twice the LDAPFilter.unpack calls the counting model (Model/DecodeCost.lean) accounts for",
                                      "hex": data.hex(), "python_calls": pycalls, "model": g})
                if len(disagreements) > 10:
                    break
        hist["decodecalls:compared"] = len(dreq)
    # the same step bound on the other hand-written loops: schema post-processing and receive (total bytes delivered as the size)
    for label, make, sizes in step_families(ctx):
        for k in sizes:
            box = {}

            def go():
                box["n"] = make(k, box)

            steps, calls, out = count_steps(go, step_bound(box.get("n") or 40 * k + 200) * 4)
            n = box.get("n", 0)
            evaluations += 1
            hist["steps:" + label] = max(hist.get("steps:" + label, 0), steps)
            if out == "budget" or (n and steps > step_bound(n)):
                violations.append({"key": None, "what": "step count exceeds the quadratic bound 100*(n+1)^2+5000 (executed source lines)", "family": label,
                                   "size_parameter": k, "bytes": n, "steps": steps})
                break
    # (7) every octet value in every text position of a message, delivered to a session: answered (messages or ProtocolError) within the CPU budget
    # (a decoding step that stops advancing on some octet shows up here, whatever loop it sits in)
    import guard
    import p_recv as PR_

    def tlv_(tag, content):
        return bytes([tag]) + ber.enc_len(len(content)) + content

    def text_cases(o):
        x = b"ab" + bytes([o]) + b"cd" + bytes([o, o])
        res = lambda diag=b"", mdn=b"", ref=None: tlv_(0x0A, b"\0") + tlv_(4, mdn) + tlv_(4, diag) + (b"" if ref is None else tlv_(0xA3, tlv_(4, ref)))
        yield "client_mid", "ExtendedResponse.diagnosticMessage", tlv_(0x30, tlv_(2, b"\1") + tlv_(0x78, res(diag=x)))
        yield "client_mid", "ExtendedResponse.matchedDN", tlv_(0x30, tlv_(2, b"\1") + tlv_(0x78, res(mdn=x)))
        yield "client_mid", "ExtendedResponse.referral", tlv_(0x30, tlv_(2, b"\1") + tlv_(0x78, res(ref=x)))
        yield "client_mid", "ExtendedResponse.responseName", tlv_(0x30, tlv_(2, b"\1") + tlv_(0x78, res() + tlv_(0x8A, x)))
        yield "client_mid", "SearchResultDone.diagnosticMessage", tlv_(0x30, tlv_(2, b"\2") + tlv_(0x65, res(diag=x)))
        yield "client_mid", "SearchResultEntry.objectName/type", tlv_(0x30, tlv_(2, b"\2") + tlv_(0x64, tlv_(4, x) + tlv_(0x30, tlv_(0x30, tlv_(4, x) + tlv_(0x31, tlv_(4, x))))))
        yield "client_mid", "SearchResultReference.uri", tlv_(0x30, tlv_(2, b"\2") + tlv_(0x73, tlv_(4, x)))
        yield "client_mid", "control.type", tlv_(0x30, tlv_(2, b"\1") + tlv_(0x78, res()) + tlv_(0xA0, tlv_(0x30, tlv_(4, x))))
        yield "server_fresh", "BindRequest.name/simple", tlv_(0x30, tlv_(2, b"\1") + tlv_(0x60, tlv_(2, b"\3") + tlv_(4, x) + tlv_(0x80, x)))
        yield "server_fresh", "BindRequest.sasl.mechanism", tlv_(0x30, tlv_(2, b"\1") + tlv_(0x60, tlv_(2, b"\3") + tlv_(4, b"") + tlv_(0xA3, tlv_(4, x))))
        yield "server_fresh", "SearchRequest.base/filter/attributes", tlv_(0x30, tlv_(2, b"\1") + tlv_(0x63, tlv_(4, x) + tlv_(0x0A, b"\0") + tlv_(0x0A, b"\0")
                                                                           + tlv_(2, b"\0") + tlv_(2, b"\0") + tlv_(1, b"\0")
                                                                           + tlv_(0xA0, tlv_(0x87, x) + tlv_(0xA3, tlv_(4, x) + tlv_(4, x))
                                                                                  + tlv_(0xA9, tlv_(0x81, x) + tlv_(0x82, x) + tlv_(0x83, x)))
                                                                           + tlv_(0x30, tlv_(4, x))))
        yield "server_fresh", "ExtendedRequest.requestName", tlv_(0x30, tlv_(2, b"\1") + tlv_(0x77, tlv_(0x80, x)))

    stuck = 0
    for o in range(256):
        for prep, where, data in text_cases(o):
            evaluations += 1
            hist["text-octets:" + prep] += 1
            im_, s_ = PR_.fresh(prep)
            try:
                guard.guarded(lambda: s_.receive(data), 2.0)
            except guard.Hang:
                stuck += 1
                violations.append({"key": None, "what": "receive() of a small message did not return within 2 s of CPU: decoding stops advancing on an octet in a "
                                   "text field (cost not bounded by any polynomial of the input size)", "where": where, "octet": o, "prep": prep, "bytes": data.hex()})
            except BaseException:  # noqa: BLE001
                pass
            if stuck >= 3:
                break
        if stuck >= 3:
            break
    # (5) the step-counting model of the schema from_string post-processing (Model/SchemaCost.lean, Props/C18Schema.lean) against the real code:
    # same acceptance, executed source lines of schema.py <= model's own steps + 60 on growing families (harness/p_schema_steps.py)
    if ctx.driver_ok:
        import subprocess
        import tempfile

        with tempfile.NamedTemporaryFile(suffix=".json") as tf:
            p_ = subprocess.run([sys.executable, os.path.join(os.path.dirname(os.path.abspath(__file__)), "p_schema_steps.py")], capture_output=True, text=True,
                                env=dict(os.environ, SCHEMA_STEPS_REPORT=tf.name), timeout=900)
            try:
                rep_ = json.load(open(tf.name))
                hist["schema-steps:inputs"] = sum(len(f["rows"]) for f in rep_["families"])
                hist["schema-steps:worst lines/steps x1000"] = int(rep_["worst_ratio"] * 1000)
                evaluations += hist["schema-steps:inputs"]
            except Exception:  # noqa: BLE001
                pass
        if p_.returncode == 1:
            for l in [l.strip() for l in p_.stdout.splitlines() if l.startswith("   ")][:5]:
                disagreements.append({"what": "schema post-processing: the implementation and the step-counting model differ (acceptance, or more executed "
                                      "lines than the model's own steps + 60)", "detail": l})
        elif p_.returncode != 0:
            hist["schema-steps:could-not-run"] = 1
        # (6) the step-counting model of decoding one message (Model/MsgSteps.lean, Props/C18Msg.lean: steps <= 18(n+1), same result) against
        # unpack_ldap_message: same outcome class, executed source lines <= 12 * model steps + 100 on growing families and malformed variants
        p_ = subprocess.run([sys.executable, os.path.join(os.path.dirname(os.path.abspath(__file__)), "p_msg_steps.py"), "--seed", str(ctx.seed + 18)]
                            + ([] if ctx.tier == "thorough" else ["--quick"]), capture_output=True, text=True, timeout=1800)
        try:
            rep_ = json.loads(p_.stdout[p_.stdout.index("{"):])
            hist["msg-steps:cases"] = rep_["cases"]
            hist["msg-steps:worst lines/steps x1000"] = int(rep_["max_lines_minus_const_per_model_step"] * 1000)
            evaluations += rep_["cases"]
            for v_ in rep_["violations"][:3]:
                disagreements.append({"what": "decoding one message executes more source lines than 12 x the step-counting model's steps + 100", **v_})
            for v_ in rep_["outcome_mismatches"][:3]:
                disagreements.append({"what": "unpack_ldap_message and the step-counting decoder model differ in outcome class", **v_})
        except Exception:  # noqa: BLE001
            hist["msg-steps:could-not-run"] = 1
    return {
        "evaluations": evaluations,
        "distinct_nontrivial": len(distinct),
        "rule": "(6) unpack_ldap_message is run under a line tracer on growing families (attributes, values, controls, filters deep and wide, referrals, long "
                "strings, trailing unknown elements) and malformed variants and compared with the step-counting decoder of Model/MsgSteps.lean (same outcome "
                "class; executed lines <= 12 x steps + 100); (5) the schema parsers' post-processing is run under a line tracer on growing families (k names / extensions / values / oids, long strings, "
                "invalid tails) and compared with the step-counting model of Model/SchemaCost.lean (same acceptance; executed lines <= own steps + 60); "
                "(1) every translated pattern is run by the Lean matcher on generated / mutated / random inputs and its first match compared with "
                "CPython's; (2) pumping candidates (each substring of length 1-4 of generated sentences repeated k=4,7,10 times, tail kept or broken) "
                "are scored with the model's exact step count Re.work and confirmed by timing from_string when the count multiplies; (3) fixed "
                "adversarial families (unterminated strings, escapes, space runs, list items, arcs, options, nesting, byte-by-byte delivery) are timed "
                "(CPU seconds) at growing sizes on the public API and judged by their local growth exponent (> 4 over the last three steps) or a 2 s call; (4) the filter parser is run under a line tracer on nested / wide / broken families and generated "
                "sentences: executed source lines must stay below 100*(n+1)^2+5000 and the number of parser-function calls is compared with the "
                "counting model's (Model/FilterCost.lean; equal on the unchanged tree, histogram calls:differ-from-model counts differences; more than "
                "twice the model's count, or a different outcome, is a disagreement); the number of unpack_ldap_message calls of a receive() on generated / truncated / corrupted buffers is compared "
                "with the counting model of the parse loop (Model/RecvCost.lean), the number of LDAPFilter.unpack calls on generated / truncated / "
                "corrupted / deeply nested BER filters with the counting decoder (Model/DecodeCost.lean); the same step bound is applied to schema post-processing and receive families; "
                "distinct = distinct (pattern, unit, context), families and step inputs",
        "samples": samples,
        "histogram": dict(sorted(hist.items())),
        "requests": len(reqs),
        "violations": violations,
        "disagreements": disagreements,
    }


def judge_family(sizes, ts):
    """super-polynomial: over the last three steps the CPU time grows faster than size^4 (the local exponent log(t2/t1)/log(n2/n1) stays
    above 4; sizes that double give exponent 1 for linear and 2 for quadratic code, sizes that grow by one or two units give huge exponents
    for code that doubles per unit) and the time is no longer negligible; or one call burns more than 2 CPU seconds"""
    import math

    ns = sizes[: len(ts)]
    ex = []
    for (n1, t1), (n2, t2) in zip(zip(ns, ts), zip(ns[1:], ts[1:])):
        ex.append(math.log(max(t2, 1e-7) / max(t1, 1e-7)) / math.log(n2 / n1) if n2 > n1 else 0.0)
    if len(ts) >= 4 and ts[-1] > 0.25 and all(e > 4.0 for e in ex[-3:]):
        return "parsing time grows faster than size^4 over the last steps of an adversarial family (super-polynomial)"
    if ts[-1] > 2.0:
        return "an input of a few hundred / thousand bytes costs the caller more than 2 s of CPU"
    return None


class Inconclusive(Exception):
    """a measurement could not be taken (the machine, not the code): infrastructure, exit 2"""


class _Stall(BaseException):
    pass


def _series_worker(make, sizes, conn, per_call):
    """CPU seconds of make(n) for growing n; a call that burns more than `per_call` CPU seconds is cut off"""
    import signal

    def on_alarm(signum, frame):
        raise _Stall()

    signal.signal(signal.SIGVTALRM, on_alarm)
    for n in sizes:
        t0 = time.process_time()
        signal.setitimer(signal.ITIMER_VIRTUAL, per_call)
        try:
            make(n)
        except BaseException:  # noqa: BLE001
            pass
        finally:
            signal.setitimer(signal.ITIMER_VIRTUAL, 0)
        dt = time.process_time() - t0
        conn.send(dt)
        if dt >= per_call:
            break
    conn.close()


def _cpu_of(pid):
    try:
        with open(f"/proc/{pid}/stat") as fh:
            f = fh.read().rsplit(")", 1)[1].split()
        return (int(f[11]) + int(f[12])) / os.sysconf("SC_CLK_TCK")
    except Exception:  # noqa: BLE001
        return None


def timed_series(make, sizes, per_call=2.5, wall=120.0):
    """CPU time of make(n) for growing n, measured in a forked child so that a call that never returns can be killed.  Times are
    the child's own CPU seconds, so a loaded or briefly frozen machine does not inflate them.  A call cut off by the per-call CPU
    limit is reported as that limit.  If the child stops answering without having burnt CPU (frozen machine), the measurement is
    inconclusive (exit 2), never a violation."""
    import multiprocessing as mp

    ctxm = mp.get_context("fork")
    parent, child = ctxm.Pipe(duplex=False)
    p = ctxm.Process(target=_series_worker, args=(make, sizes, child, per_call))
    p.start()
    child.close()
    ts = []
    deadline = time.time() + wall
    try:
        while True:
            left = deadline - time.time()
            if left <= 0 or not parent.poll(left):
                cpu = _cpu_of(p.pid)
                if cpu is not None and cpu - sum(ts) >= per_call:
                    ts.append(cpu - sum(ts))      # burning CPU without polling for the timer signal: a stall all the same
                    break
                raise Inconclusive(f"timing child silent for {wall}s of wall time having used {cpu} CPU seconds")
            try:
                ts.append(parent.recv())
            except EOFError:
                break
            if ts[-1] >= per_call:
                break
    finally:
        if p.is_alive():
            p.kill()
        p.join()
    if not ts:
        raise Inconclusive("timing child returned no sample")
    return ts


def confirm(kind, pre, u, tail):
    """time the real parser on prefix + unit*k + tail for growing k; exponential if it keeps multiplying"""
    if kind == "attr":
        f = lambda s: sansldap.LDAPFilter.from_string("(" + s + "=x)")
    else:
        f = PS.CLS[kind].from_string
    ks = list(range(8, 66, 2))
    ts = timed_series(lambda k: f(pre + u * k + tail), ks)
    ks = ks[: len(ts)]
    big = [t for t in ts if t > 0.002]
    expo = len(big) >= 4 and all(b > 1.5 * a for a, b in zip(big[-4:], big[-3:])) and ts[-1] > 0.2
    return {"k": ks, "seconds": [round(t, 4) for t in ts], "exponential": bool(expo)}



def step_families(ctx):
    S = PS.CLS
    sizes = ctx.scale((4, 16, 64), (4, 16, 64, 256, 1024))

    def sch(kind, text_of):
        def make(k, box):
            t = text_of(k)
            box["n"] = len(t)
            try:
                S[kind].from_string(t)
            except ValueError:
                pass
            return len(t)
        return make

    fam = [
        ("schema:extensions", sch("oc", lambda k: "( 1.2" + " X-a ( 'v'  'w' )" * k + " )"), sizes),
        ("schema:extension-values", sch("oc", lambda k: "( 1.2 X-a (" + " 'v\\27'" * k + " ) )"), sizes),
        ("schema:names", sch("at", lambda k: "( 1.2 NAME (" + " 'a'" * k + " ) )"), sizes),
        ("schema:oids", sch("dcr", lambda k: "( 1.2 MUST ( a" + " $ a" * k + " ) )"), sizes),
        ("schema:desc-escapes", sch("oc", lambda k: "( 1.2 DESC '" + "\\27\\5c" * k + "' )"), sizes),
    ]

    def recv(build, bytewise):
        def make(k, box):
            data = build(k)
            box["n"] = len(data)
            s = sansldap.LDAPServer()
            try:
                if bytewise:
                    for b in data:
                        s.receive(bytes([b]))
                else:
                    s.receive(data)
            except sansldap.LDAPError:
                pass
            return len(data)
        return make

    o = M.PackingOptions()
    one = M.ExtendedRequest(message_id=1, controls=[], name="1.2", value=None).pack(o)
    import p_recv
    fam += [
        ("receive:many-messages", recv(lambda k: one * k, False), sizes),
        ("receive:many-messages-bytewise", recv(lambda k: one * k, True), tuple(x for x in sizes if x <= 64)),
        ("receive:long-value-bytewise", recv(lambda k: M.ExtendedRequest(message_id=1, controls=[], name="1.2", value=b"x" * (4 * k)).pack(o), True),
         tuple(x for x in sizes if x <= 256)),
        ("receive:nested-filter", recv(lambda k: p_recv.nesting_bomb("and", min(k, 400)), False), sizes),
        ("receive:nested-not", recv(lambda k: p_recv.nesting_bomb("not", min(k, 400)), False), sizes),
    ]
    return fam


def timing_families(ctx):
    S = PS.CLS
    big = ctx.scale((200, 400, 800, 1600), (400, 800, 1600, 3200, 6400))
    small = tuple(range(10, 34, 2))
    fam = []
    oc = S["oc"].from_string
    at = S["at"].from_string
    fam.append(("schema unterminated DESC 'a'*n", lambda n: oc("( 1.2 DESC '" + "a" * n), small + big))
    fam.append(("schema unterminated DESC '\\27'*n", lambda n: oc("( 1.2 DESC '" + "\\27" * n), small + big))
    fam.append(("schema unterminated DESC '\\5c\\27'*n + bad tail", lambda n: oc("( 1.2 DESC '" + "\\5c\\27" * n + "' x"), small + big))
    fam.append(("schema ' X-a (  )'*n", lambda n: oc("( 1.2" + " X-a (  )" * n), small + big))
    fam.append(("schema ' X-a ( 'v'  'w' )'*n + bad tail", lambda n: oc("( 1.2" + " X-a ( 'v'  'w' )" * n + " x"), small + big))
    fam.append(("schema NAME ( 'a' *n", lambda n: oc("( 1.2 NAME (" + " 'a'" * n), small + big))
    fam.append(("schema NAME ( + spaces*n", lambda n: oc("( 1.2 NAME (" + " " * n), small + big))
    fam.append(("schema MUST ( a $ *n", lambda n: oc("( 1.2 MUST ( a" + " $ a" * n), small + big))
    fam.append(("schema oid 1.*n", lambda n: oc("( " + "1." * n), small + big))
    fam.append(("schema spaces*n between parts", lambda n: oc("( 1.2" + " " * n + "DESC" + " " * n + "'x'" + " " * n + "x"), small + big))
    fam.append(("schema SYNTAX 1.2{digits*n", lambda n: at("( 1.2 SYNTAX 1.2{" + "1" * n), small + big))
    fam.append(("schema usage/flags spaces", lambda n: at("( 1.2 SINGLE-VALUE" + " " * n + "COLLECTIVE" + " " * n + "x"), small + big))
    fs = sansldap.LDAPFilter.from_string
    fam.append(("filter 1.1.1…(n arcs)!", lambda n: fs("(" + ".".join(["1"] * n) + "!=x)"), small + big))
    fam.append(("filter a;b;b…(n options)!", lambda n: fs("(a" + ";b" * n + "!=x)"), small + big))
    fam.append(("filter (!(!(!…", lambda n: fs("(!" * n + "(a=b)" + ")" * n), small + tuple(x for x in big if x <= 3200)))
    fam.append(("filter (&(a=b)(a=b)… n items", lambda n: fs("(&" + "(a=b)" * n + ")"), small + big))
    fam.append(("filter value \\41*n", lambda n: fs("(a=" + "\\41" * n + ")"), small + big))
    fam.append(("filter a=*b*b… n stars", lambda n: fs("(a=" + "*b" * n + ")"), small + big))
    fam.append(("filter no '=' run", lambda n: fs("(&" + "(a)" * n), small + big))

    def hightag(n_octets, where):
        """an otherwise valid message carrying an unrecognised element whose tag NUMBER needs n identifier octets (each octet adds 7 bits:
        anything that does arithmetic proportional to the number, not to its length, multiplies by 128 per added byte)"""
        def tlv(tag, content):
            return tag + ber.enc_len(len(content)) + content
        big = bytes([0x9F]) + bytes([0xFF] * (n_octets - 1)) + bytes([0x7F])
        bind = tlv(b"\x60", tlv(b"\x02", b"\x03") + tlv(b"\x04", b"") + tlv(b"\x80", b"") + (tlv(big, b"x") if where == "op" else b""))
        msg = tlv(b"\x30", tlv(b"\x02", b"\x01") + bind + (tlv(big, b"x") * 3 if where == "envelope" else b""))
        s_ = sansldap.LDAPServer()
        try:
            s_.receive(msg)
        except sansldap.LDAPError:
            pass

    few = (1, 2, 3, 4, 5, 6, 7, 8)
    fam.append(("receive: trailing envelope element with an n-octet tag number", lambda n: hightag(n, "envelope"), few))
    fam.append(("receive: trailing protocolOp element with an n-octet tag number", lambda n: hightag(n, "op"), few))

    def recv_bytewise(n):
        s = sansldap.LDAPServer()
        m = M.ExtendedRequest(message_id=1, controls=[], name="1.2", value=b"x" * n).pack(M.PackingOptions())
        for b in m:
            s.receive(bytes([b]))

    def recv_many(n):
        s = sansldap.LDAPServer()
        m = M.ExtendedRequest(message_id=1, controls=[], name="1.2", value=None).pack(M.PackingOptions())
        s.receive(m * n)

    def recv_nested(n):
        import p_recv
        s = sansldap.LDAPServer()
        try:
            s.receive(p_recv.nesting_bomb("and", n))
        except sansldap.ProtocolError:
            pass

    def recv_long_header_bytewise(n, complete=True, what="length"):
        """a header that is itself long — a long-form length written with n length octets (leading zeros: legal), or an identifier with an n-octet
        tag number — delivered ONE OCTET PER receive() call, so that many consecutive calls see an incomplete header"""
        s = sansldap.LDAPServer()
        m = M.ExtendedRequest(message_id=1, controls=[], name="1.2", value=None).pack(M.PackingOptions())
        content = m[2:]
        if what == "length":
            data = bytes([0x30, 0x80 | n]) + len(content).to_bytes(n, "big") + (content if complete else b"")
        else:
            data = bytes([0x3F]) + bytes([0x81] * (n - 1)) + bytes([0x01]) + bytes([len(content)]) + content
        try:
            for b in data:
                s.receive(bytes([b]))
        except sansldap.LDAPError:
            pass

    mid = tuple(range(8, 64, 4)) + (80, 100, 126)
    fam.append(("receive: long-form length of n octets, delivered octet by octet", lambda n: recv_long_header_bytewise(n), mid))
    fam.append(("receive: incomplete long-form length of n octets, delivered octet by octet", lambda n: recv_long_header_bytewise(n, complete=False), mid))
    fam.append(("receive: identifier with an n-octet tag number, delivered octet by octet", lambda n: recv_long_header_bytewise(n, what="tag"), mid + (200, 400)))
    fam.append(("receive one message of n bytes delivered byte by byte", recv_bytewise, big))
    fam.append(("receive n small messages in one chunk", recv_many, big))
    fam.append(("receive n nested AND filters", recv_nested, small + big))
    return fam


def replay(ctx, payload):
    print(json.dumps(payload, indent=1)[:3000])
    if "unit" in payload:
        kind = {"schema_OBJECT_CLASS_DESCRIPTION": "oc", "schema_ATTRIBUTE_TYPE_DESCRIPTION": "at",
                "schema_DIT_CONTENT_RULE_DESCRIPTION": "dcr"}.get(payload.get("pattern"), "attr")
        print("re-run timing:", confirm(kind, payload["prefix"], payload["unit"], payload["tail"]))
    return 0
