"""C04 — the decoder accepts every valid BER form of a message, not only its own.

An independent Python encoder builds the RFC 4511 TLV tree of a message (from the ASN.1
module, not from the library) and then re-encodes it with a random choice of every freedom
the specification `Verif.Lenient.MsgL` grants."""
from __future__ import annotations

import collections
import glob
import json
import os

import ber
import codec as C
import drive
import gen
import p_c01
from ber import Node
from codec import M, REPO
from sansldap.asn1 import ASN1Reader

LEAN_TARGETS = ["Verif.Props.C04"]
LEVEL = "proof"
ASSUMPTIONS = p_c01.ASSUMPTIONS + [
    "freedoms granted: any definite length form (short, long with 1..127 octets, leading zeros), TRUE as any non-zero octet, explicitly encoded "
    "DEFAULT FALSE for criticality and dnAttributes, trailing unrecognised elements where RFC 4511 makes a sequence extensible; INTEGERs stay "
    "minimal and identifiers stay in their shortest form (X.690 requires both)",
]


def min_twos(v: int) -> bytes:
    n = 1
    while True:
        try:
            return v.to_bytes(n, "big", signed=True)
        except OverflowError:
            n += 1


def P(cls, num, content):
    return Node(cls, False, num, bytes(content))


def K(cls, num, kids):
    return Node(cls, True, num, b"", list(kids))


def octets(b):
    return P(0, 4, b)


def text(hexs):
    return P(0, 4, bytes.fromhex(hexs))


def integer(v, num=2):
    return P(0, num, min_twos(v))


class Freedom:
    def __init__(self, rng, on=True, beyond=False):
        self.rng = rng
        self.on = on
        self.beyond = beyond      # also use the places the library tolerates although they are not "after the defined components of a sequence"
        self.used = collections.Counter()

    def extras_beyond(self, excl):
        """unknown elements inside NOT (an explicitly tagged CHOICE) and inside the substrings SEQUENCE OF: tolerated by the library and allowed
        by Verif.Lenient.MsgL, but not demanded by the property — such encodings are compared with the model only, never judged directly"""
        if not self.beyond:
            return []
        got = self.extras(excl)
        if got:
            self.used["beyond-property-extra"] += 1
        return got

    def true_octet(self):
        if self.on and self.rng.random() < 0.6:
            self.used["true-nonFF"] += 1
            return bytes([self.rng.choice([1, 2, 0x7F, 0x80, 0xFE])])
        return b"\xff"

    def explicit_default(self):
        if self.on and self.rng.random() < 0.4:
            self.used["explicit-default"] += 1
            return True
        return False

    def extras(self, excl, arbitrary_ok=False):
        """trailing unknown elements: list of Nodes (context numbers in excl avoided)"""
        out = []
        if not self.on or self.rng.random() > 0.35:
            return out
        for _ in range(self.rng.choice([1, 1, 2])):
            cls = self.rng.choice([0, 1, 2, 2, 3])
            if cls == 0:
                num = self.rng.choice([4, 5, 12, 16, 2, 1, 10, 3, 6])
            elif cls != 2 and excl and self.rng.random() < 0.5:
                # the numbers that mean something at this position as [context n], in another class: still unrecognised
                num = self.rng.choice(list(excl))
                self.used["trailing-extra-known-number-other-class"] += 1
            else:
                num = self.rng.choice([0, 1, 2, 3, 4, 5, 7, 10, 11, 12, 20, 30, 31, 99, 300])
            while cls == 2 and num in excl:
                num += 1
            n = Node(cls, self.rng.random() < 0.3, num, bytes(self.rng.randrange(256) for _ in range(self.rng.choice([0, 1, 3]))))
            if n.cons:
                n.kids = []
                n.content = b""
            out.append(n)
            self.used["trailing-extra"] += 1
        return out


def filter_tree(f, fr: Freedom):
    k = f["k"]
    if k in ("and", "or"):
        return K(2, 0 if k == "and" else 1, [filter_tree(x, fr) for x in f["fs"]])
    if k == "not":
        return K(2, 2, [filter_tree(f["f"], fr)] + fr.extras_beyond([]))
    if k in ("eq", "ge", "le", "approx"):
        return K(2, {"eq": 3, "ge": 5, "le": 6, "approx": 8}[k], [text(f["a"]), text(f["v"])] + fr.extras([]))
    if k == "present":
        return P(2, 7, bytes.fromhex(f["a"]))
    if k == "substr":
        subs = []
        if f["i"] is not None:
            subs.append(P(2, 0, bytes.fromhex(f["i"])))
        subs += [P(2, 1, bytes.fromhex(x)) for x in f["any"]]
        if f["f"] is not None:
            subs.append(P(2, 2, bytes.fromhex(f["f"])))
        subs += fr.extras_beyond([0, 1, 2])
        return K(2, 4, [text(f["a"]), K(0, 16, subs)] + fr.extras([]))
    if k == "ext":
        kids = []
        if f["rule"] is not None:
            kids.append(P(2, 1, bytes.fromhex(f["rule"])))
        if f["attr"] is not None:
            kids.append(P(2, 2, bytes.fromhex(f["attr"])))
        kids.append(P(2, 3, bytes.fromhex(f["v"])))
        if f["dn"]:
            kids.append(P(2, 4, fr.true_octet()))
        elif fr.explicit_default():
            kids.append(P(2, 4, b"\x00"))
        return K(2, 9, kids + fr.extras([1, 2, 3, 4]))
    raise ValueError(k)


def control_tree(c, fr: Freedom):
    k = c["k"]
    oid = {"paged": C.OID_PAGED, "showDeleted": C.OID_DELETED, "showDeactivated": C.OID_DEACT}.get(k)
    kids = [octets(oid.encode()) if oid else text(c["oid"])]
    if c["crit"]:
        kids.append(P(0, 1, fr.true_octet()))
    elif fr.explicit_default():
        kids.append(P(0, 1, b"\x00"))
    value = None
    if k == "generic":
        value = None if c["value"] is None else bytes.fromhex(c["value"])
    elif k == "paged":
        inner = K(0, 16, [integer(c["size"]), octets(bytes.fromhex(c["cookie"]))] + fr.extras([]))
        apply_lengths(inner, fr)
        value = ber.encode(inner) + (b"\x05\x00" if fr.on and fr.rng.random() < 0.2 else b"")
    elif c.get("raw") is not None:
        value = bytes.fromhex(c["raw"])
    if value is not None:
        kids.append(octets(value))
        kids += fr.extras([])
    return K(0, 16, kids), value


def result_kids(r, fr):
    kids = [integer(r["code"], 10), text(r["mdn"]), text(r["diag"])]
    if r["refs"] is not None:
        kids.append(K(2, 3, [text(u) for u in r["refs"]]))
    return kids


def op_tree(op, fr: Freedom):
    k = op["k"]
    num = {"bindReq": 0, "bindResp": 1, "unbind": 2, "searchReq": 3, "searchEntry": 4, "searchDone": 5, "searchRef": 19, "extReq": 23, "extResp": 24}[k]
    if k == "unbind":
        return P(1, 2, b"")
    if k == "bindReq":
        cr = op["cred"]
        if cr["k"] == "simple":
            cred = P(2, 0, bytes.fromhex(cr["pw"]))
        else:
            ck = [text(cr["mech"])]
            if cr["creds"] is not None:
                ck.append(octets(bytes.fromhex(cr["creds"])))
                ck += fr.extras([])
            cred = K(2, 3, ck)
        kids = [integer(op["version"]), text(op["name"]), cred] + fr.extras([])
    elif k == "bindResp":
        kids = result_kids(op["res"], fr)
        if op["sasl"] is not None:
            kids.append(P(2, 7, bytes.fromhex(op["sasl"])))
        kids += fr.extras([3, 7])
    elif k == "searchReq":
        kids = [text(op["base"]), integer(op["scope"], 10), integer(op["deref"], 10), integer(op["size"]), integer(op["time"]),
                P(0, 1, fr.true_octet() if op["typesOnly"] else b"\x00"), filter_tree(op["filter"], fr),
                K(0, 16, [text(a) for a in op["attrs"]])] + fr.extras([])
    elif k == "searchEntry":
        attrs = [K(0, 16, [text(a["name"]), K(0, 17, [octets(bytes.fromhex(v)) for v in a["vals"]])] + fr.extras([])) for a in op["attrs"]]
        kids = [text(op["name"]), K(0, 16, attrs)] + fr.extras([])
    elif k == "searchDone":
        kids = result_kids(op["res"], fr) + fr.extras([3])
    elif k == "searchRef":
        kids = [text(u) for u in op["uris"]]
    elif k == "extReq":
        kids = [P(2, 0, bytes.fromhex(op["name"]))]
        if op["value"] is not None:
            kids.append(P(2, 1, bytes.fromhex(op["value"])))
        kids += fr.extras([1])
    elif k == "extResp":
        kids = result_kids(op["res"], fr)
        if op["name"] is not None:
            kids.append(P(2, 10, bytes.fromhex(op["name"])))
        if op["value"] is not None:
            kids.append(P(2, 11, bytes.fromhex(op["value"])))
        kids += fr.extras([3, 10, 11])
    return K(1, num, kids)


def apply_lengths(node, fr: Freedom):
    for n in node.walk():
        if fr.on and fr.rng.random() < 0.35:
            n.len_form = fr.rng.choice([1, 2, 3, 4, 4, 4, 5, 9])
            fr.used["long-form-length"] += 1


def msg_tree(m, fr: Freedom):
    """returns (Node, expected message JSON with raw control values as sent)"""
    exp = json.loads(json.dumps(m))
    kids = [integer(m["id"]), op_tree(m["op"], fr)]
    if m["controls"]:
        cs = []
        for c, ec in zip(m["controls"], exp["controls"]):
            t, value = control_tree(c, fr)
            cs.append(t)
            if ec["k"] != "generic":
                ec["raw"] = None if value is None else value.hex()
        kids.append(K(2, 0, cs))
    elif fr.on and fr.rng.random() < 0.1:
        kids.append(K(2, 0, []))
        fr.used["empty-controls"] += 1
    kids += fr.extras([0, 10])
    top = K(0, 16, kids)
    apply_lengths(top, fr)
    return top, exp


def check(m, data, exp):
    r = ASN1Reader(data + b"\x30\x03")
    try:
        got = M.unpack_ldap_message(r, M.PackingOptions())
    except BaseException as e:  # noqa: BLE001
        return {"key": None, "what": f"a permitted encoding of the message is rejected: {type(e).__name__}: {e}"[:300], "msg": m, "hex": data.hex()}
    gj = C.msg_to_json(got)
    if gj != exp:
        return {"key": None, "what": "a permitted encoding decodes to a different message than the library's own encoding", "msg": m,
                "hex": data.hex(), "decoded": gj}
    if r.get_remaining_data() != b"\x30\x03":
        return {"key": None, "what": "decoder did not consume exactly the encoding", "msg": m, "hex": data.hex()}
    return None


def run(ctx):
    rng = ctx.rng
    msgs = p_c01.generate(ctx, ctx.scale(3000, 100000))
    violations = []
    hist = collections.Counter()
    distinct = set()
    reqs = []
    samples = []
    total_used = collections.Counter()
    n = 0
    for m in msgs:
        # 1. the independent encoder without freedoms must agree with the library byte for byte (except UnbindRequest, F-C03)
        plain, exp0 = msg_tree(m, Freedom(rng, on=False))
        lib = C.msg_from_json(m).pack(M.PackingOptions())
        if m["op"]["k"] != "unbind" and ber.encode(plain) != lib:
            # not a matter for this property (C03 judges the library's encoder): the independent encoding is then one more conforming peer
            hist["library-encoding-differs-from-independent-encoder"] += 1
            v = check(m, ber.encode(plain), exp0)
            if v:
                violations.append(v)
        for _ in range(ctx.scale(1, 2)):
            fr = Freedom(rng)
            tree, exp = msg_tree(m, fr)
            data = ber.encode(tree)
            n += 1
            total_used.update(fr.used)
            distinct.add((gen.msg_shape(m), tuple(sorted(fr.used))))
            hist[m["op"]["k"]] += 1
            v = check(m, data, exp)
            if v:
                v["freedoms"] = dict(fr.used)
                violations.append(v)
            if len(data) < 3000 and len(reqs) < ctx.scale(3000, 30000):
                reqs.append({"op": "dec", "hex": data.hex() + "3003"})
            if len(samples) < 2 and fr.used:
                samples.append({"msg": m, "hex": data.hex()[:400], "freedoms": dict(fr.used)})
        if rng.random() < 0.8:
            fr = Freedom(rng, beyond=True)
            tree, exp = msg_tree(m, fr)
            if fr.used.get("beyond-property-extra"):
                data = ber.encode(tree)
                total_used.update({"beyond-property-extra": 1})
                if len(data) < 3000:
                    reqs.append({"op": "dec", "hex": data.hex()})
    # captured payloads of real servers (Active Directory) shipped with the repository's tests
    for path in sorted(glob.glob(os.path.join(REPO, "tests", "data", "*"))):
        try:
            data = open(path, "rb").read()
        except Exception:  # noqa: BLE001
            continue
        reqs.append({"op": "dec", "hex": data.hex()})
        hist["tests/data"] += 1
    hist.update({"freedom:" + k: v for k, v in total_used.items()})
    disagreements = []
    if ctx.driver_ok:
        bad, a, b = drive.correspond(reqs)
        for i, q, x, y in bad[:20]:
            disagreements.append({"request": q, "impl": x, "model": y})
    return {
        "evaluations": n,
        "distinct_nontrivial": len(distinct),
        "rule": "messages generated as for C01; each is turned into its RFC 4511 TLV tree by an independent Python encoder and re-encoded with a random "
                "choice at every node: length form (minimal, or long with 1-9 octets incl. the fixed 4-octet Active Directory style), TRUE octet, explicit "
                "DEFAULT FALSE, 0-2 trailing unknown elements wherever the specification Verif.Lenient.MsgL allows them, present-but-empty controls; the "
                "implementation must decode every such encoding to the same message (raw control values as sent) and consume exactly it; the captured "
                "server payloads under tests/data and a sample of the alternative encodings are also decoded by the Lean model; "
                "distinct = (message shape, set of freedoms used)",
        "samples": samples,
        "histogram": dict(sorted(hist.items())),
        "requests": len(reqs),
        "violations": violations,
        "disagreements": disagreements,
    }


def replay(ctx, payload):
    print(json.dumps(payload, indent=1)[:3000])
    if "hex" in payload:
        data = bytes.fromhex(payload["hex"])
        try:
            print("decodes now to:", C.msg_to_json(M.unpack_ldap_message(ASN1Reader(data), M.PackingOptions())))
        except BaseException as e:  # noqa: BLE001
            print("decoding raises", type(e).__name__, e)
    return 0
