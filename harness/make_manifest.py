#!/venv/bin/python
"""Writes /verif/MANIFEST.json from the table below (kept in one place so it stays valid)."""
import json
import os

HERE = os.path.dirname(os.path.abspath(__file__))
VERIF = os.path.normpath(os.path.join(HERE, ".."))

COMMON_NOTE = (
    "Trusted base: Lean 4.33.0 kernel with axioms propext/Classical.choice/Quot.sound only (audited by #print axioms on every "
    "property theorem; no native_decide, bv_decide, sorry, own axioms); the specifications in lean/Verif/Spec; the translator "
    "(constants and regexes regenerated from /repo on every run); the correspondence check, which validates — does not verify — "
    "that the hand-written Lean model computes what the Python code computes on generated inputs."
)

CHECKS = {
    "C07": dict(
        text="Lean theorems over the model of asn1.py: for every Int the writer's content octets are bytes, denote the value "
             "(independent two's-complement oracle) and are minimal; the reader maps every non-empty octet string to its "
             "two's-complement value; header/TLV/bool/octet-string round trips for every readable tag, every length < 256^126 and "
             "any trailing bytes (exact consumption); lenient long-form lengths. The model is tied to the code by a correspondence "
             "run (≈9k requests quick) and the same grid is checked directly against int.to_bytes/from_bytes."
             " Added after the statement audit (Props/C07More): on ARBITRARY input every reader consumes exactly header + declared length, its value depends only on that prefix, and every strict prefix fails with not-enough-data (no over-read)."
             " SECOND TIE (translator): the nine BER primitive functions of asn1.py are translated statement by statement from the Python AST into Lean on every run "
             "(harness/py2lean.py -> Generated/Asn1Gen.lean) and Props/TiesAsn1.lean + TiesAsn1More.lean (fuel bounds by SIZE, negative arguments, remainder restored) + TiesAsn1Api.lean (the six thin wrappers and every method of ASN1Reader / ASN1Writer: all of asn1.py that the message codec calls) prove, for all inputs and all sufficient fuel, that each generated function "
             "returns exactly what the hand-written model's function returns (same value, same error class) — so the C07 theorems are about what the source says now; "
             "the generated definitions are also run against the real functions (54k cases) to validate the translator. When this tie is not in force (a function left "
             "the translated subset, or a tie theorem no longer checks) the check says so (NOTE line, evidence.second_tie), searches with count-like parameters x4, and the property "
             "stays decided by the theorems + the correspondence tie.",
        technique="Lean 4 proof (induction on base-256 digits) + Python-AST-to-Lean translator with equality theorems (generated = model) + model/implementation correspondence",
        ref="DESIGN.md §4 C07",
    ),
}

CHECKS.update({
    "C01": dict(
        text="Lean theorem decode_encode: for every well-formed message m (9 operations, any controls, any filter tree, any field contents), any "
             "trailing bytes, any set of registered custom types and any recursion budget above the filter depth, "
             "decMsg (encMsg m ++ rest) = (fillRaw m, rest); reencode: encMsg (fillRaw m) = encMsg m. The model (encMsg/decMsg, faithful to every "
             "_pack_inner/_unpack_* incl. error classes) is tied to the code by correspondence on ≈6k enc/dec requests and the same messages are "
             "round-tripped directly on the implementation (field-by-field, ==, exact consumption, re-pack)."
             " Added (Props/SmallMore): decode_encode_any_controls — the same round trip WITHOUT the control domain cut (a generic control carrying a library-known OID comes back as the typed control or is rejected, stated exactly).",
        technique="Lean 4 proof (structural induction on messages/filters, fuel-sufficiency of the reader loops) + correspondence",
        ref="DESIGN.md §4 C01",
    ),
    "C03": dict(
        text="Lean theorem strict_decode: an independent strict decoder written from the RFC 4511 ASN.1 module (Spec/Tlv.lean, Spec/Rfc4511.lean; "
             "exact class/number/form per element, definite lengths, TRUE=FF, absent defaults, minimal integers, component order, nothing extra) "
             "maps encMsg m back to m for every well-formed message other than UnbindRequest (known finding F-C03, proved as "
             "unbind_known_finding); the executable decoder is additionally run on the bytes the implementation produces.",
        technique="Lean 4 proof against an independent executable specification + correspondence",
        ref="DESIGN.md §4 C03",
    ),
    "C08": dict(
        text="Lean theorems over the step function of the session model: refinement of the documented automaton for every reachable session "
             "and every call (events computed from call and outcome only), lifted to histories; CLOSED absorbing (no bytes, sends rejected, "
             "input refused); bind gating on client and server; BINDING restricts sends. The one deviation (F-C08c, pinned by the repo's tests) "
             "is carved out explicitly and proved as known_deviation. Model tied to the code by replaying generated joint histories."
             " Added (Props/C08More, C10More): history refinement with the deviation hypothesis only along the run, and with no hypothesis at all up to BEFORE_OPEN≈OPENED (exact for clients and for any session that has left BEFORE_OPEN); bind gating and the frozen closed session at receive level; acceptance iffs for client requests. SECOND TIE (translator): the bookkeeping of _session.py (data_to_send, unbind, _send / _validate_outgoing_message of base, client and server, both _process_incoming_message, receive with the attached notification, the client request and server response methods) is translated method by method from the Python AST into Lean on every run (harness/py2lean_session.py -> Generated/SessionGen.lean; encoding = encMsg and the one-message decoder abstract, the unpacking LOOPS of receive translated and proved equal to parseLoop in Props/TiesSessionRecv.lean) and Props/TiesSession.lean proves every generated method equal to the model function and one generated call equal to one model step for every Call constructor; Props/TiesSessionBridge.lean transfers the Reachable-state theorems to states reached by generated calls from a fresh session. Not in force => NOTE line, count-like search parameters x4; the property stays decided by the theorems + the correspondence tie.",
        technique="Lean 4 proof (refinement + invariants by induction on reachability) + correspondence on generated histories + Python-AST-to-Lean translator with equality theorems (generated = model) as a second tie",
        ref="DESIGN.md §4 C08",
    ),
    "C09": dict(
        text="Lean theorems: ids issued over any client history are first, first+1, … (refused calls consume none); returned id = id in the emitted "
             "bytes; searches ⊆ outstanding on every reachable client; a message is accepted iff it is a response whose id is outstanding; "
             "lifetime of searches vs other operations; a rejected message closes the session."
             " Added (Props/C09More): ids are fresh; only a search call enters the search set and only its done message leaves it; for a whole delivery of several messages receive returns them iff the id rule (stated independently) accepts all of them and none is a notice, otherwise protocol error and CLOSED. SECOND TIE (translator): the bookkeeping of _session.py (data_to_send, unbind, _send / _validate_outgoing_message of base, client and server, both _process_incoming_message, receive with the attached notification, the client request and server response methods) is translated method by method from the Python AST into Lean on every run (harness/py2lean_session.py -> Generated/SessionGen.lean; encoding = encMsg and the one-message decoder abstract, the unpacking LOOPS of receive translated and proved equal to parseLoop in Props/TiesSessionRecv.lean) and Props/TiesSession.lean proves every generated method equal to the model function and one generated call equal to one model step for every Call constructor; Props/TiesSessionBridge.lean transfers the Reachable-state theorems to states reached by generated calls from a fresh session. Not in force => NOTE line, count-like search parameters x4; the property stays decided by the theorems + the correspondence tie.",
        technique="Lean 4 proof (invariants over reachable states) + correspondence on generated histories + Python-AST-to-Lean translator with equality theorems (generated = model) as a second tie",
        ref="DESIGN.md §4 C09",
    ),
    "C10": dict(
        text="Lean theorems: a refused send call leaves the outgoing bytes unchanged and fails with the library error; a server response is "
             "accepted only for an outstanding id; a final response retires it so any second response is rejected with no wire effect; "
             "entries/references keep it open."
             " Added (Props/C10More): response_accepted_iff (not closed ∧ binding restriction ∧ id outstanding — nothing else), effects of accepted and refused calls on the whole session, and a ghost characterisation of 'outstanding' from calls and outcomes only. SECOND TIE (translator): the bookkeeping of _session.py (data_to_send, unbind, _send / _validate_outgoing_message of base, client and server, both _process_incoming_message, receive with the attached notification, the client request and server response methods) is translated method by method from the Python AST into Lean on every run (harness/py2lean_session.py -> Generated/SessionGen.lean; encoding = encMsg and the one-message decoder abstract, the unpacking LOOPS of receive translated and proved equal to parseLoop in Props/TiesSessionRecv.lean) and Props/TiesSession.lean proves every generated method equal to the model function and one generated call equal to one model step for every Call constructor; Props/TiesSessionBridge.lean transfers the Reachable-state theorems to states reached by generated calls from a fresh session. Not in force => NOTE line, count-like search parameters x4; the property stays decided by the theorems + the correspondence tie.",
        technique="Lean 4 proof (case analysis of the step function) + correspondence on generated histories + Python-AST-to-Lean translator with equality theorems (generated = model) as a second tie",
        ref="DESIGN.md §4 C10",
    ),
    "C12": dict(
        text="Lean theorem queue: over any history from any session, all drained bytes ++ pending bytes = initially pending ++ encodings of exactly "
             "the accepted sends in call order, for every drain amount (None, 0, partial, oversized, negative via Python slice semantics); drain "
             "changes nothing but the pending bytes. SECOND TIE (translator): the bookkeeping of _session.py (data_to_send, unbind, _send / _validate_outgoing_message of base, client and server, both _process_incoming_message, receive with the attached notification, the client request and server response methods) is translated method by method from the Python AST into Lean on every run (harness/py2lean_session.py -> Generated/SessionGen.lean; encoding = encMsg and the one-message decoder abstract, the unpacking LOOPS of receive translated and proved equal to parseLoop in Props/TiesSessionRecv.lean) and Props/TiesSession.lean proves every generated method equal to the model function and one generated call equal to one model step for every Call constructor; Props/TiesSessionBridge.lean transfers the Reachable-state theorems to states reached by generated calls from a fresh session. Not in force => NOTE line, count-like search parameters x4; the property stays decided by the theorems + the correspondence tie.",
        technique="Lean 4 proof (one-step FIFO lemma + induction over the history) + correspondence on generated histories + Python-AST-to-Lean translator with equality theorems (generated = model) as a second tie",
        ref="DESIGN.md §4 C12",
    ),
})

CHECKS.update({
    "C02": dict(
        text="Lean theorems over the model of LDAPSession.receive: a strict prefix of an encoded message makes the decoder wait and consume nothing "
             "(any cut, headers included); if the single delivery of a byte string returns messages, feeding the same bytes in ANY list of chunks "
             "returns the same messages in the same order with no error and ends in the same session state (residue included), and conversely; the "
             "stream of any well-formed messages parses back to exactly those messages. The aliasing clause (returned messages are self-contained "
             "values) is outside any value-level model and is decided by the harness probe only (caller's buffer overwritten, messages re-compared)."
             " Added (Props/C02More): chunked_stream — the property as written, end to end through feed for any chunking of the encodings of well-formed messages the state machine accepts; recv_prefix_waits for any proper prefix of any SEQUENCE-tagged unit, and the exact boundary for other tags.",
        technique="Lean 4 proof (framing lemmas + induction over the chunk list) + correspondence; aliasing probe by harness",
        ref="DESIGN.md §4 C02",
    ),
    "C05": dict(
        text="Lean theorems: for any bytes, any recursion budget and any reachable session, receive yields messages or the protocol error (the "
             "client's KeyError site is unreachable by the bookkeeping invariant); after an error the state is CLOSED and all further input is "
             "refused; which notification is attached; the server's notice of disconnection is read back by the strict RFC decoder for every "
             "diagnostic text; the client's unbind is well-formed up to known finding F-C05u. The theorem is about the model's inventory of exception "
             "sites, which the correspondence (exception classes on random/corrupted/nested inputs) attacks."
             " Added (Props/C05More): fuel irrelevance of every decoder loop and *_recursion_is_nesting (a recursion error always is real filter nesting beyond the budget); notification_bytes ties the tag receive attaches to octets that decode to the notice of disconnection / an unbind request; recv_error_characterised.",
        technique="Lean 4 proof (totality by case analysis + reachability invariant) + correspondence on exception classes",
        ref="DESIGN.md §4 C05",
    ),
    "C06": dict(
        text="Lean theorems against an independent framing spec (outer identifier + length only): in an error-free receive the number of messages "
             "returned equals the number of complete outer units in residue ++ chunk and what is held back frames as incomplete; lifted to whole "
             "error-free runs in any chunking; with a complete outer unit at the head the decoder never answers 'not enough data'.",
        technique="Lean 4 proof (frame = outer read; parse loop vs frames; compositionality) + correspondence",
        ref="DESIGN.md §4 C06",
    ),
    "C13": dict(
        text="Lean theorems over the model of the filter text code: for every tree in the text domain (any depth/fan-out, arbitrary value octets) "
             "parse (toText f) = f; unescape inverts escapeValue for every octet string; what escapeValue writes is printable ASCII without ( ) * \\ "
             "plus \\hh escapes (byte class regenerated from the library's escape pattern), and toText is pure printable ASCII — no value content "
             "can change the shape of a filter."
             " Added (Props/C13More): toText_is_sentence_iff — the text form is an RFC 4515 sentence (independent grammar relation) exactly on the domain WFText ∧ RFC attributes/oids ∧ every extensible match has an attribute or a rule; raw UTF-8 is NOT required to be escaped by the harness oracle (independent recogniser of the grammar). SECOND TIE (translator): the recursive-descent parser behind LDAPFilter.from_string (_unpack_filter, _unpack_complex_filter, _unpack_simple_filter, _unpack_filter_extensible_header, _unpack_filter_substrings_value, from_string) is translated statement by statement from the Python AST into Lean on every run (harness/py2lean.py -> Generated/FilterGen.lean) together with the PRINTER (__str__ of the ten filter classes, _serialize_filter_value), and Props/TiesFilter.lean + TiesFilterStr.lean prove generated = hand model (same tree, consumed count, error offset and length; all inputs, all sufficient fuel); trusted boundary: the attribute pattern (= validAttr by Props/Ties.lean), the re.sub-based value unescape, strip / encode. Not in force => NOTE line, search at up to 4x the quick scale; the property stays decided by the theorems + the correspondence tie.",
        technique="Lean 4 proof (mutual structural induction on filters; scanner lemmas) + correspondence + Python-AST-to-Lean translator with equality theorems (generated = model) as a second tie",
        ref="DESIGN.md §4 C13",
    ),
    "C15": dict(
        text="Lean theorems: for any string of code points (scalar values and the surrogate-escape code points U+DC80..DCFF) and any recursion budget the parser returns a filter or FilterSyntaxError(offset, length) "
             "with offset+length inside the UTF-8 of the stripped input; scan loops never exhaust their fuel and RecursionError never escapes; "
             "whatever is accepted has pattern-valid attributes/rules, lies in the text domain of C13 and therefore re-parses from its own text. "
             "Known finding F-C15d (single-arc numeric OIDs accepted; pinned by the repo's tests)."
             " Added (Props/C13More): validAttr_iff (the pattern accepts exactly RFC attribute descriptions plus F-C15d), accepted_rule_char (accepted matching rules deviate from oid exactly by F-C15r — options, pinned by the repo's tests — and F-C15d), and an integer-valued shadow of the parser proving no reported offset/length is ever negative. SECOND TIE (translator): the recursive-descent parser behind LDAPFilter.from_string (_unpack_filter, _unpack_complex_filter, _unpack_simple_filter, _unpack_filter_extensible_header, _unpack_filter_substrings_value, from_string) is translated statement by statement from the Python AST into Lean on every run (harness/py2lean.py -> Generated/FilterGen.lean) together with the PRINTER (__str__ of the ten filter classes, _serialize_filter_value), and Props/TiesFilter.lean + TiesFilterStr.lean prove generated = hand model (same tree, consumed count, error offset and length; all inputs, all sufficient fuel); trusted boundary: the attribute pattern (= validAttr by Props/Ties.lean), the re.sub-based value unescape, strip / encode. Not in force => NOTE line, search at up to 4x the quick scale; the property stays decided by the theorems + the correspondence tie.",
        technique="Lean 4 proof (span/progress invariants by induction on depth and fuel) + correspondence on mutated and random text + Python-AST-to-Lean translator with equality theorems (generated = model) as a second tie",
        ref="DESIGN.md §4 C15",
    ),
})

CHECKS.update({
    "C14": dict(
        text="Lean theorem parses: RFC 4515 §3 is transcribed as an inductive relation Sent f t (one constructor per production, every freedom: "
             "escapes in either hex case, raw octets, empty values, options, OIDs, dn in any case, the documented tolerated spaces); for every "
             "derivation the parser returns exactly the denoted tree (any Unicode white space around the sentence is stripped first); the denoted "
             "tree is a well-formed message component and the SearchRequest carrying it encodes to bytes that the strict RFC 4511 decoder reads "
             "back (by C03). SECOND TIE (translator): the recursive-descent parser behind LDAPFilter.from_string (_unpack_filter, _unpack_complex_filter, _unpack_simple_filter, _unpack_filter_extensible_header, _unpack_filter_substrings_value, from_string) is translated statement by statement from the Python AST into Lean on every run (harness/py2lean.py -> Generated/FilterGen.lean) together with the PRINTER (__str__ of the ten filter classes, _serialize_filter_value), and Props/TiesFilter.lean + TiesFilterStr.lean prove generated = hand model (same tree, consumed count, error offset and length; all inputs, all sufficient fuel); trusted boundary: the attribute pattern (= validAttr by Props/Ties.lean), the re.sub-based value unescape, strip / encode. Not in force => NOTE line, search at up to 4x the quick scale; the property stays decided by the theorems + the correspondence tie.",
        technique="Lean 4 proof (induction on grammar derivations) + correspondence + generated-sentence search + Python-AST-to-Lean translator with equality theorems (generated = model) as a second tie",
        ref="DESIGN.md §4 C14",
    ),
})

CHECKS.update({
    "C19": dict(
        text="Lean theorems on the model: running any interleaving of any family of sessions gives each session the state and results of its own "
             "calls alone (sessions are values: true by construction, proved to pin the statement); duplicate registration rejected with ValueError "
             "and local to the session's registry; a registered session decodes the custom types (C01 instance), an unregistered one treats the same "
             "bytes as an unknown filter / credential choice or as a generic control. The substance — no shared mutable state between Python "
             "objects — cannot be a theorem about a value-level model and is carried by translation validation: interleaved live sessions vs the same "
             "histories alone in fresh interpreters vs the model, re-serialisation of every retained result at the end of an interleaved run, pairs of "
             "sessions decoding variants of one message (shared decoded objects), plus a direct test of the registration clause in both orders."
             " Added (Props/SmallMore): register_sets_flag, unregistered_*_any (any registration set with that one flag false), receive-level protocol error for bytes carrying an unregistered custom filter / credential.",
        technique="Lean 4 proof of the model-level statements + translation validation (interleaved vs isolated runs vs model) for the isolation itself",
        ref="DESIGN.md §4 C19",
    ),
})

CHECKS.update({
    "C04": dict(
        text="Lean theorem decodes: the permitted encodings of a message are specified as a relation MsgL m bs written from RFC 4511's ASN.1 "
             "(every TLV node: any definite length form incl. padded long forms such as Active Directory's 4-octet lengths; TRUE as any non-zero "
             "octet; explicitly encoded DEFAULT FALSE; unrecognised trailing elements after the defined components; either form of the protocolOp "
             "identifier); for EVERY such encoding, any trailing bytes and any sufficient recursion budget the decoder returns exactly that message "
             "and consumes exactly the encoding; the library's own encoding is one of them, so a peer's encoding decodes to the same value as the "
             "library's own. An independent Python encoder generates such alternative encodings for the implementation and the model.",
        technique="Lean 4 proof (induction over the relational encoder; reader lemmas for arbitrary length forms) + correspondence",
        ref="DESIGN.md §4 C04",
    ),
})

CHECKS.update({
    "C16": dict(
        text="Lean theorems: for every valid object-class, attribute-type and DIT-content-rule description (numeric OID, descriptor names, OID "
             "lists, any non-empty description / extension strings of any code points, all flags, kind, usage, syntax length) the text form is a "
             "sentence of the RFC 4512 grammar denoting it, hence parse (toText d) = d. The regular-expression match of from_string is modelled by a "
             "deterministic scanner which is PROVED equal to the compiled pattern (regenerated from the source with its named groups on every run; "
             "backtracking semantics with captures): Props/TiesSchema.lean, parseX_is_pattern_then_post. Correspondence on generated, mutated, "
             "long escape-heavy and random strings ties the rest. SECOND TIE (translator): the hand-written Python around the description regexes (_encode_*, _parse_oids, _parse_qdstring, _parse_extensions, __str__ / from_string of the three classes) is translated from the Python AST into Lean on every run (harness/py2lean_schema.py -> Generated/SchemaGen.lean) and Props/TiesSchemaCode.lean proves generated = model for all strings (differences stated and proved on both sides: the 4300-digit int/str limit; _parse_oids on non-blank white space, unreachable from from_string). Not in force => NOTE line, count-like search parameters x4.",
        technique="Lean 4 proof (text form is a grammar sentence + C17; scanner = translated regex with captures) + translator + correspondence + Python-AST-to-Lean translator with equality theorems (generated = model) as a second tie",
        ref="DESIGN.md §4 C16",
    ),
    "C17": dict(
        text="Lean theorems: the three RFC 4512 description grammars are transcribed as relations between a definition and a sentence (any WSP/SP "
             "counts, bare or parenthesised qdescrs/oids/qdstrings, \\5c or \\5C, X- or x-, explicit or omitted defaults, the quoted SYNTAX of Active "
             "Directory); every sentence parses to exactly the definition it denotes; totality over all strings is by construction in the model "
             "(single error constructor) and is what the correspondence on mutated / random strings checks on the implementation. The scanner that "
             "stands for PATTERN.match is proved equal, on acceptance and on every named group, to the backtracking semantics of the pattern "
             "regenerated from schema.py (Props/TiesSchema.lean), and the match step is cross-checked three ways (CPython / translated pattern / scanner). SECOND TIE (translator): the hand-written Python around the description regexes (_encode_*, _parse_oids, _parse_qdstring, _parse_extensions, __str__ / from_string of the three classes) is translated from the Python AST into Lean on every run (harness/py2lean_schema.py -> Generated/SchemaGen.lean) and Props/TiesSchemaCode.lean proves generated = model for all strings (differences stated and proved on both sides: the 4300-digit int/str limit; _parse_oids on non-blank white space, unreachable from from_string). Not in force => NOTE line, count-like search parameters x4.",
        technique="Lean 4 proof (scanner vs grammar relation; scanner = translated regex with captures) + translator + correspondence + generated-sentence search + Python-AST-to-Lean translator with equality theorems (generated = model) as a second tie",
        ref="DESIGN.md §4 C17",
    ),
})

CHECKS.update({
    "C11": dict(
        text="Lean theorems over the joint system (client session, server session, two in-order byte pipes, ghost logs): for every admissible "
             "history — any interleaving of calls, partial flushes and partial deliveries — (1) stream integrity: messages handed to each side ++ "
             "messages still in flight (residue ++ pipe ++ unflushed output, which always parse back completely) = messages the peer sent, in order, "
             "as equal values; (2) no protocol error other than after the client's unbind; (3) at quiescence both sides agree on the state class "
             "(BEFORE_OPEN ≈ OPENED) and on the operations in progress. Full byte-granular statement (not only message-granular). Admissibility = "
             "calls accepted, responses of the matching kind, no server-initiated termination."
             " Added (Props/C11More): witnesses of AdmissibleRun, error_only_at_termination (every step outcome is fine or one of three named termination errors), closed_agreement, and the notice-of-disconnection termination. SECOND TIE (translator): the bookkeeping of _session.py (data_to_send, unbind, _send / _validate_outgoing_message of base, client and server, both _process_incoming_message, receive with the attached notification, the client request and server response methods) is translated method by method from the Python AST into Lean on every run (harness/py2lean_session.py -> Generated/SessionGen.lean; encoding = encMsg and the one-message decoder abstract, the unpacking LOOPS of receive translated and proved equal to parseLoop in Props/TiesSessionRecv.lean) and Props/TiesSession.lean proves every generated method equal to the model function and one generated call equal to one model step for every Call constructor; Props/TiesSessionBridge.lean transfers the Reachable-state theorems to states reached by generated calls from a fresh session. Not in force => NOTE line, count-like search parameters x4; the property stays decided by the theorems + the correspondence tie.",
        technique="Lean 4 proof (channel invariant + bookkeeping invariant over ghost logs, induction over the history) + correspondence on joint histories + Python-AST-to-Lean translator with equality theorems (generated = model) as a second tie",
        ref="DESIGN.md §4 C11",
    ),
})

CHECKS.update({
    "C18": dict(
        text="Lean theorems: every regular expression the library compiles is translated on every run (CPython's own parser, classes emitted "
             "extensionally under the pattern's flags) into a term of Model/Re.lean, whose semantics is a backtracking matcher (runs = list of "
             "successes, work = size of the complete search tree). For each of the 11 patterns PolyBounded is proved with degree ≤ 3 (the three "
             "description patterns: 3; attribute pattern and NOIDLEN: 2; the rest: 0), every_pattern_bounded covers the regenerated list, sub_cost "
             "lifts to re.sub, and the pre-repair nested repetition is proved exponential. Each proof starts from an rfl equation between the "
             "regenerated term and named sub-expressions, so ANY change of a pattern breaks an obligation; the search (model step counts of pumped "
             "inputs, timing of the real parser on adversarial families in a killable child) then decides. The hand-written filter parser has a "
             "counting model (Model/FilterCost.lean) proved to return the parser's result with at most one parser-function call per input byte plus "
             "one (Props/C18Filter.lean), and receive's parse loop has one proved to make at most (messages returned + 1) <= n/2 + 1 decode attempts "
             "(Props/C18Recv.lean), and the BER filter decoder one proved to make at most n/2 + 1 LDAPFilter.unpack calls (Props/C18Decode.lean); "
             "the three counts are compared with the implementation's (profiler hook) and executed source lines "
             "are checked against 100(n+1)^2+5000 on nested / wide / broken families (filter, schema post-processing, receive). Added: step-counting twins of the whole message decoder (Model/MsgSteps.lean; Props/C18Msg.lean: same result, steps <= 18(n+1) for every input, a "
             "whole receive of several messages likewise; with big-integer word costs 18(n+1)+3(n+1)^2, attained by the INTEGER / tag-number accumulation loops) and of "
             "the schema from_string post-processing (Model/SchemaCost.lean; Props/C18Schema.lean: same result, own steps <= 72/64/77 (n+1)^2 with the square attained "
             "by _parse_extensions, totals with the proved pattern bounds cubic), both tied to the code by executed-line counts on growing families; every octet value "
             "in every text position of a message is delivered under a CPU guard. Not covered by a theorem: constants of CPython's engine; the scanner's own linear bound "
             "(stated, evaluated, not proved: the regular-expression charge is used instead)."
             " Added (Props/SmallMore): explicit numerals for every pattern (every_pattern_explicit: 10934917·(n+1)^3; attribute pattern 347·(n+1)^2), no_unsupported. Timing is measured in CPU seconds with re-measurement; an untakeable measurement is exit 2.",
        technique="Lean 4 proof (cost calculus for backtracking search trees; per-pattern bounds on translated regexes; step-counting models of the filter text parser, the message decoder, the receive loop and the schema post-processing with explicit polynomial bounds) + translator + deterministic line counts + timing search",
        ref="DESIGN.md STATUS and §4 C18",
    ),
})

NOT_YET = {
}

NOT_APPLICABLE = {
}

ALL = [f"C{i:02d}" for i in range(1, 20)]


def main():
    checks = []
    for pid in ALL:
        if pid not in CHECKS:
            continue
        c = CHECKS[pid]
        checks.append({
            "property_id": pid,
            "quick_cmd": f"./check {pid} --tier quick",
            "thorough_cmd": f"./check {pid} --tier thorough",
            "evidence_file": f"evidence/{pid}.json",
            "replay_cmd_template": f"./check {pid} --replay {{path}}",
            "engine": "lean4+correspondence",
            "level_claimed": {"category": c.get("category", "proof"), "text": c["text"], "design_ref": c["ref"]},
            "level_note": c.get("note", COMMON_NOTE),
            "technique": c["technique"],
        })
    na = []
    for pid in ALL:
        if pid in CHECKS:
            continue
        reason = NOT_APPLICABLE.get(pid) or NOT_YET.get(pid) or "check not built yet in this round (model and theorems under construction); not claimed"
        na.append({"property_id": pid, "reason": reason})
    manifest = {
        "version": 1,
        "setup_cmd": "cd lean && /venv/bin/python ../harness/translate.py && lake build driver Verif",
        "hooks": {
            "guard": "SANSLDAP_VERIF",
            "enable": "no source hooks are needed: every observation goes through the public API (pack, unpack_ldap_message, receive, "
                      "data_to_send, state, from_string, __str__) from the harness process; the guard variable is reserved and unused",
            "baseline_off_cmd": "cd /repo && /venv/bin/python -m pytest -ra -q -p no:cacheprovider --timeout=900 --continue-on-collection-errors",
            "source_commits": [],
            "add_only": True,
        },
        "engines": [
            {"name": "lean4+correspondence", "path": "lean/", "serves_properties": [c["property_id"] for c in checks],
             "kind_free_text": "Lean 4 model + specification + theorems (lake project, core Lean, no Mathlib in model files); "
                               "compiled line-protocol driver (lean/Main.lean) compared with the implementation by harness/*.py"},
        ],
        "checks": checks,
        "not_applicable": na,
        "notes": "Fix commits in /repo (unguarded, 'fix:' prefix) are listed in known_findings.json under 'fixed'. "
                 "Known findings that cannot be repaired without editing the repository's tests are listed there under 'known'.",
    }
    with open(os.path.join(VERIF, "MANIFEST.json"), "w") as fh:
        json.dump(manifest, fh, indent=1)
        fh.write("\n")
    print(f"MANIFEST.json: {len(checks)} checks, {len(na)} not claimed")


if __name__ == "__main__":
    main()
