#!/venv/bin/python
"""Writes /verif/MANIFEST.json from the table below (kept in one place so it stays valid)."""
import json
import os

HERE = os.path.dirname(os.path.abspath(__file__))
VERIF = os.path.normpath(os.path.join(HERE, ".."))

COMMON_NOTE = (
    "Trusted base: Lean 4.33.0 kernel with axioms propext/Classical.choice/Quot.sound only (audited by #print axioms on every "
    "property theorem; no native_decide, bv_decide, sorry, own axioms); the specifications in lean/Verif/Spec; the translator "
    "(constants and regexes regenerated from /repo on every run); the correspondence check, which validates — does not verify — "
    "that the hand-written Lean model computes what the Python code computes on generated inputs."
)

CHECKS = {
    "C07": dict(
        text="Lean theorems over the model of asn1.py: for every Int the writer's content octets are bytes, denote the value "
             "(independent two's-complement oracle) and are minimal; the reader maps every non-empty octet string to its "
             "two's-complement value; header/TLV/bool/octet-string round trips for every readable tag, every length < 256^126 and "
             "any trailing bytes (exact consumption); lenient long-form lengths. The model is tied to the code by a correspondence "
             "run (≈9k requests quick) and the same grid is checked directly against int.to_bytes/from_bytes.",
        technique="Lean 4 proof (induction on base-256 digits) + model/implementation correspondence",
        ref="DESIGN.md §4 C07",
    ),
}

NOT_YET = {
}

NOT_APPLICABLE = {
}

ALL = [f"C{i:02d}" for i in range(1, 20)]


def main():
    checks = []
    for pid in ALL:
        if pid not in CHECKS:
            continue
        c = CHECKS[pid]
        checks.append({
            "property_id": pid,
            "quick_cmd": f"./check {pid} --tier quick",
            "thorough_cmd": f"./check {pid} --tier thorough",
            "evidence_file": f"evidence/{pid}.json",
            "replay_cmd_template": f"./check {pid} --replay {{path}}",
            "engine": "lean4+correspondence",
            "level_claimed": {"category": c.get("category", "proof"), "text": c["text"], "design_ref": c["ref"]},
            "level_note": c.get("note", COMMON_NOTE),
            "technique": c["technique"],
        })
    na = []
    for pid in ALL:
        if pid in CHECKS:
            continue
        reason = NOT_APPLICABLE.get(pid) or NOT_YET.get(pid) or "check not built yet in this round (model and theorems under construction); not claimed"
        na.append({"property_id": pid, "reason": reason})
    manifest = {
        "version": 1,
        "setup_cmd": "cd lean && /venv/bin/python ../harness/translate.py && lake build driver Verif",
        "hooks": {
            "guard": "SANSLDAP_VERIF",
            "enable": "no source hooks are needed: every observation goes through the public API (pack, unpack_ldap_message, receive, "
                      "data_to_send, state, from_string, __str__) from the harness process; the guard variable is reserved and unused",
            "baseline_off_cmd": "cd /repo && /venv/bin/python -m pytest -ra -q -p no:cacheprovider --timeout=900 --continue-on-collection-errors",
            "source_commits": [],
            "add_only": True,
        },
        "engines": [
            {"name": "lean4+correspondence", "path": "lean/", "serves_properties": [c["property_id"] for c in checks],
             "kind_free_text": "Lean 4 model + specification + theorems (lake project, core Lean, no Mathlib in model files); "
                               "compiled line-protocol driver (lean/Main.lean) compared with the implementation by harness/*.py"},
        ],
        "checks": checks,
        "not_applicable": na,
        "notes": "Fix commits in /repo (unguarded, 'fix:' prefix) are listed in known_findings.json under 'fixed'. "
                 "Known findings that cannot be repaired without editing the repository's tests are listed there under 'known'.",
    }
    with open(os.path.join(VERIF, "MANIFEST.json"), "w") as fh:
        json.dump(manifest, fh, indent=1)
        fh.write("\n")
    print(f"MANIFEST.json: {len(checks)} checks, {len(na)} not claimed")


if __name__ == "__main__":
    main()
