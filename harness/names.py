"""Resolve library names without hard-wiring the private module layout of /repo.

`NS.<name>` looks the name up, in this order: the public package `sansldap`; the modules in which the public
message / filter / session classes are defined (wherever they live now); every other `sansldap.*` submodule.
A behaviour-preserving move or rename of a private module therefore does not break the harness.  A name that exists
nowhere raises `HarnessUnresolved` — an infrastructure condition (exit 2: the harness cannot observe the code), never
a property violation.
"""
from __future__ import annotations

import importlib
import os
import pkgutil
import sys

REPO = os.environ.get("VERIF_REPO", "/repo")
if os.path.join(REPO, "src") not in sys.path:
    sys.path.insert(0, os.path.join(REPO, "src"))


class HarnessUnresolved(Exception):
    pass


class _NS:
    _ANCHORS = ("BindRequest", "LDAPFilter", "LDAPSession", "LDAPControl", "LDAPClient", "FilterOptions")

    def _modules(self):
        import sansldap
        seen = []
        for a in self._ANCHORS:
            obj = getattr(sansldap, a, None)
            mod = sys.modules.get(getattr(obj, "__module__", None) or "")
            if mod is not None and mod not in seen:
                seen.append(mod)
        try:
            for info in pkgutil.walk_packages(sansldap.__path__, "sansldap."):
                try:
                    mod = importlib.import_module(info.name)
                except Exception:  # noqa: BLE001
                    continue
                if mod not in seen:
                    seen.append(mod)
        except Exception:  # noqa: BLE001
            pass
        return seen

    def find(self, name, default=None):
        import sansldap
        if hasattr(sansldap, name):
            return getattr(sansldap, name)
        for mod in self._modules():
            if hasattr(mod, name):
                return getattr(mod, name)
        return default

    def __getattr__(self, name):
        if name.startswith("__"):
            raise AttributeError(name)
        got = self.find(name, _MISSING)
        if got is _MISSING:
            raise HarnessUnresolved(f"the harness needs `{name}` from sansldap and cannot find it in any module of the package")
        return got


_MISSING = object()
NS = _NS()
