#!/bin/sh
# thorough tier of selected checks (run from /verif or a snapshot): harness/thorough_some.sh C07 C18 ...
cd "$(dirname "$0")/.." || exit 2
if [ ! -d lean/.lake ]; then (cd lean && /venv/bin/python ../harness/translate.py && lake build driver Verif) > /tmp/thorough_build.$$ 2>&1 || { tail -20 /tmp/thorough_build.$$; exit 2; }; fi
for p in "$@"; do
  /usr/bin/time -f "$p wall=%es maxrss=%MKB" ./check $p --tier thorough 2>&1 | grep -v KNOWN | tail -4
done
