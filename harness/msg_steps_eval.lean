/-
Evaluates the step-counting BER decoder (`Model/MsgSteps.lean`) for `harness/p_msg_steps.py`:
one message per stdin line as hex octets; one line `steps(W=0) steps(W=1) outcome` per message.
Run with `cd lean && lake env lean --run ../harness/msg_steps_eval.lean`.  Not part of any proof.
-/
import Verif.Model.MsgSteps
open Verif Verif.MsgSteps

def hexVal (c : Char) : Nat :=
  if '0' ≤ c ∧ c ≤ '9' then c.toNat - '0'.toNat
  else if 'a' ≤ c ∧ c ≤ 'f' then c.toNat - 'a'.toNat + 10
  else if 'A' ≤ c ∧ c ≤ 'F' then c.toNat - 'A'.toNat + 10
  else 0

def parseHex : List Char → List Nat
  | a :: b :: r => (hexVal a * 16 + hexVal b) :: parseHex r
  | _ => []

def outcome : Except Err (Msg × Bytes) → String
  | .ok _ => "ok"
  | .error .notEnough => "notEnough"
  | .error .valueError => "valueError"
  | .error .notImpl => "notImpl"
  | .error .recursion => "recursion"

partial def loop (h : IO.FS.Stream) (out : IO.FS.Stream) : IO Unit := do
  let line ← h.getLine
  if line.isEmpty then return ()
  let bs := parseHex (line.toList.filter (fun c => c.isAlphanum))
  let r0 := decMsgS 0 {} 100000 bs
  let r1 := decMsgS 1 {} 100000 bs
  out.putStrLn s!"{r0.steps} {r1.steps} {outcome r0.res}"
  out.flush
  loop h out

def main : IO Unit := do
  loop (← IO.getStdin) (← IO.getStdout)
