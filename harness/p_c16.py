"""C16 — schema definitions survive conversion to text and back."""
from __future__ import annotations

import collections
import json

import drive
import p_schema as PS

LEAN_TARGETS = ["Verif.Props.C16", "Verif.Props.Ties", "Verif.Props.TiesSchema"]
SECOND_TIE = {
    "what": "the hand-written Python around the description regexes of schema.py (_encode_oids, _encode_qdstring, _parse_oids, _parse_qdstring, "
            "_parse_extensions with _extract_qdstring, and __str__ / from_string of the three description classes after PATTERN.match) translated "
            "statement by statement from the Python AST into Lean (harness/py2lean_schema.py -> Generated/SchemaGen.lean) and proved equal to the "
            "hand-written model of Model/Schema.lean (Props/TiesSchemaCode.lean); trusted boundary: PATTERN.match / m.group = the model's scanner "
            "(tied to the compiled patterns by Props/TiesSchema.lean), the two re.sub calls = the model's quoted-string escape / unescape; side "
            "conditions stated and their outside proved: int <-> str beyond 4300 digits, _parse_oids on white space other than blanks (unreachable from from_string)",
    "translator": "py2lean_schema.py",
    "targets": ["Verif.Props.TiesSchemaCode"],
    "validate": "p_schemagen.py",
}
LEVEL = "proof"
ASSUMPTIONS = [
    "domain: numeric OID with at least two arcs, descriptor names, OID lists, non-empty description / extension strings of any code points, "
    "extension keys in [A-Za-z_-]+ and pairwise distinct, syntax a numeric OID, syntax_length only with syntax and non-negative",
    "the regular-expression match of from_string is modelled by a deterministic scanner, cross-checked against the implementation's regex on "
    "every generated input (and against the translated pattern inside Lean, see C18)",
]


def direct(kind, d):
    text = str(d)
    try:
        back = PS.CLS[kind].from_string(text)
    except BaseException as e:  # noqa: BLE001
        return {"key": None, "what": f"parsing the definition's own text form raised {type(e).__name__}", "kind": kind, "text": text,
                "def": PS.def_to_json(d)}
    if back != d:
        return {"key": None, "what": "from_string(str(d)) differs from d", "kind": kind, "text": text, "def": PS.def_to_json(d),
                "parsed": PS.def_to_json(back)}
    # what a caller does to ITS parse result must not show in a later parse of the same text (results are not shared)
    want = PS.def_to_json(d)
    import dataclasses as _dc

    try:
        fields = [getattr(back, f.name) for f in _dc.fields(back)]
    except TypeError:
        fields = list(getattr(back, "__dict__", {}).values())
    for v in fields:
        if isinstance(v, list):
            v.append("injected")
        elif isinstance(v, dict):
            for vs in v.values():
                if isinstance(vs, list):
                    vs.append("injected")      # the value lists inside the extensions, too
            v["INJECTED"] = ["x"]
    try:
        again = PS.CLS[kind].from_string(text)
    except BaseException as e:  # noqa: BLE001
        return {"key": None, "what": f"a second parse of the same text raised {type(e).__name__}", "kind": kind, "text": text, "def": want}
    if PS.def_to_json(again) != want:
        return {"key": None, "what": "from_string(str(d)) differs from d after an earlier parse result of the same text was extended by its caller "
                "(parse results are shared)", "kind": kind, "text": text, "def": want, "parsed": PS.def_to_json(again)}
    # ONE definition object printed, edited in place through its lists, printed again: the text is that of its current value
    import copy
    import random

    import mutate

    d2 = copy.deepcopy(d)
    str(d2)
    if mutate.edit_lists(d2, random.Random(len(text)), "dup"):
        fresh = copy.deepcopy(d2)
        if str(d2) != str(fresh):
            return {"key": None, "what": "a definition object that was printed, edited in place through its lists and printed again does not print its "
                    "current value", "kind": kind, "first_text": text, "text": str(d2), "fresh_object_text": str(fresh), "def": PS.def_to_json(fresh)}
    return None


def run(ctx):
    rng = ctx.rng
    violations = []
    hist = collections.Counter()
    distinct = set()
    reqs = []
    cases = []
    for _ in range(ctx.scale(3000, 150000)):
        kind = rng.choice(["oc", "at", "dcr"])
        d = PS.g_def(rng, kind)
        if not PS.valid_for_grammar(d):
            # empty extension value lists print as "(  )" and still round-trip; keep them, but skip empty strings (outside the domain)
            if any(v == "" for vs in d.extensions.values() for v in vs) or d.description == "":
                continue
        cases.append((kind, d))
    for kind, d in cases:
        hist[kind] += 1
        distinct.add((kind, len(d.names), d.description is not None, d.obsolete, tuple(len(v) for v in d.extensions.values()), str(d)[:0]))
        v = direct(kind, d)
        if v:
            violations.append(v)
    sub = cases[:: max(1, len(cases) // ctx.scale(2500, 30000))]
    for kind, d in sub:
        j = PS.def_to_json(d)
        reqs.append({"op": "stext", "kind": kind, "def": j})
        reqs.append({"op": "sparse", "kind": kind, "cps": PS.cps(str(d))})
    disagreements = []
    if ctx.driver_ok:
        bad, a, b = drive.correspond(reqs)
        for i, q, x, y in bad[:20]:
            disagreements.append({"request": q, "impl": x, "model": y})
    return {
        "evaluations": len(cases),
        "distinct_nontrivial": len(distinct),
        "rule": "definitions of the three description types generated field by field: all flag / kind / usage combinations, list lengths 0-4, bare and "
                "dotted OIDs, descriptors that look like keywords, description and extension strings over {quote, backslash, |, \\27 and \\5c look-alikes, "
                "spaces at the ends, newline, tab, NUL, non-BMP, lone surrogate}; each is printed, parsed back and compared with ==; a sample is replayed on "
                "the Lean model (toText and parse); distinct = (type, #names, has description, obsolete, extension value counts)",
        "samples": [{"kind": cases[0][0], "text": str(cases[0][1])}, {"kind": cases[1][0], "text": str(cases[1][1])}],
        "histogram": dict(sorted(hist.items())),
        "requests": len(reqs),
        "violations": violations,
        "disagreements": disagreements,
    }


def replay(ctx, payload):
    print(json.dumps(payload, indent=1)[:3000])
    if "def" in payload:
        print("re-run:", direct(payload["kind"], PS.def_from_json(payload["kind"], payload["def"])))
    return 0
