"""Correspondence runner: sends the same request lines to the real implementation (impl.py)
and to the Lean model driver, canonicalises and diffs the replies."""
from __future__ import annotations

import json
import os
import subprocess
import sys
import tempfile

HERE = os.path.dirname(os.path.abspath(__file__))
LEAN_DIR = os.path.normpath(os.path.join(HERE, "..", "lean"))
DRIVER = os.path.join(LEAN_DIR, ".lake", "build", "bin", "driver")


class DriverError(RuntimeError):
    pass


def run_model(requests, timeout=600):
    """Run the compiled Lean driver over the request list; returns the list of replies."""
    if not os.path.exists(DRIVER):
        raise DriverError(f"driver not built: {DRIVER}")
    payload = "\n".join(json.dumps(r, separators=(",", ":")) for r in requests) + "\n"
    with tempfile.TemporaryFile("w+") as fin:
        fin.write(payload)
        fin.seek(0)
        p = subprocess.run([DRIVER], stdin=fin, capture_output=True, text=True, timeout=timeout)
    if p.returncode != 0:
        raise DriverError(f"driver exit {p.returncode}: {p.stderr[-2000:]}")
    lines = [l for l in p.stdout.split("\n") if l]
    if len(lines) != len(requests):
        raise DriverError(f"driver returned {len(lines)} replies for {len(requests)} requests; stderr={p.stderr[-500:]}")
    return [json.loads(l) for l in lines]


def run_impl(requests):
    import impl

    im = impl.Impl()
    out = []
    for r in requests:
        try:
            out.append(im.handle(r))
        except BaseException as e:  # noqa: BLE001
            out.append({"harness_error": f"{type(e).__name__}: {e}"})
    return out


def norm(reply):
    """Canonicalise a reply for comparison."""
    if not isinstance(reply, dict):
        return reply
    r = json.loads(json.dumps(reply))
    sess = r.get("sess")
    if isinstance(sess, dict) and sess.get("state") == "CLOSED":
        # what is buffered on a closed session is unobservable through the API
        sess.pop("residue", None)
    return r


def strip_unobservable(na, nb):
    """internals (buffers, id sets) may be unobservable on the implementation side after a refactor: compare only what both report"""
    for key in ("sess", "ok"):
        if isinstance(na, dict) and isinstance(nb, dict) and isinstance(na.get(key), dict) and isinstance(nb.get(key), dict) \
                and (key == "sess" or ("state" in na[key] and "state" in nb[key])):
            for k in list(nb[key].keys()):
                if k not in na[key] or na[key][k] is None:
                    nb[key].pop(k)
                    na[key].pop(k, None)
    return na, nb


def reply_eq(impl_reply, model_reply):
    na, nb = strip_unobservable(norm(impl_reply), norm(model_reply))
    return na == nb


def diff(requests, impl_replies, model_replies):
    """Returns a list of (index, request, impl, model) for disagreeing replies."""
    bad = []
    for i, (q, a, b) in enumerate(zip(requests, impl_replies, model_replies)):
        if isinstance(a, dict) and a.get("skip"):
            continue  # the implementation side could not be observed for this request (see codec.pack_header): not judged
        na, nb = strip_unobservable(norm(a), norm(b))
        if na != nb:
            bad.append((i, q, a, b))
    return bad


def correspond(requests):
    a = run_impl(requests)
    b = run_model(requests)
    return diff(requests, a, b), a, b


if __name__ == "__main__":
    reqs = [json.loads(l) for l in sys.stdin if l.strip()]
    bad, a, b = correspond(reqs)
    for i, q, x, y in bad:
        print(json.dumps({"i": i, "req": q, "impl": x, "model": y}))
    print(f"{len(reqs)} requests, {len(bad)} disagreements")
