#!/bin/sh
# every behaviour-preserving refactor of harmless/ against every check (quick tier): any exit 1 is a false alarm of the machinery
cd "$(dirname "$0")/.." || exit 2
if [ ! -d lean/.lake ]; then (cd lean && /venv/bin/python ../harness/translate.py && lake build driver Verif) > /tmp/harmless_build.$$ 2>&1 || { tail -20 /tmp/harmless_build.$$; exit 2; }; fi
for d in harmless/*/; do
  n=$(basename "$d")
  [ -f "$d/patch.diff" ] || continue
  echo "== $n"
  timeout 7200 /venv/bin/python harness/seed_eval.py patch "$(pwd)/$d/patch.diff" C01 C02 C03 C04 C05 C06 C07 C08 C09 C10 C11 C12 C13 C14 C15 C16 C17 C18 C19 2>&1 | grep -v "^WARNING" | grep " exit \|NOTE\|VIOLATION" | cut -c1-220
done
