#!/bin/sh
# clean-tree sweep: every check at the quick tier for several seeds (run from /verif or a snapshot); prints only non-zero exits and summaries
cd "$(dirname "$0")/.." || exit 2
if [ ! -d lean/.lake ]; then (cd lean && /venv/bin/python ../harness/translate.py && lake build driver Verif) > /tmp/sweep_build.$$ 2>&1 || { tail -20 /tmp/sweep_build.$$; exit 2; }; fi
for seed in ${SEEDS:-1 2 3}; do
  for p in C01 C02 C03 C04 C05 C06 C07 C08 C09 C10 C11 C12 C13 C14 C15 C16 C17 C18 C19; do
    out=$(VERIF_SEED=$seed ./check $p --tier quick 2>&1); rc=$?
    echo "seed=$seed $p rc=$rc $(echo "$out" | tail -1 | cut -c1-150)"
    [ $rc -ne 0 ] && echo "$out" | grep -v KNOWN | tail -5
  done
done
