"""C19 — sessions are isolated; custom types take effect per session only."""
from __future__ import annotations

import collections
import copy
import json
import os
import subprocess
import sys

import codec as C
import custom_types as CT
import drive
import gen
import p_session as PS
from codec import M, sansldap
from guard import guarded

LEAN_TARGETS = ["Verif.Props.C19", "Verif.Props.SmallMore"]
LEVEL = "proof"
ASSUMPTIONS = [
    "in the Lean model sessions are values, so isolation holds by construction and the theorem only pins the statement; the substance of the "
    "property — no shared mutable state between Python objects (class-level defaults, module-level registries) — is decided by the harness: "
    "interleaved live sessions vs the same histories run alone in fresh interpreters, and vs the model",
]

HERE = os.path.dirname(os.path.abspath(__file__))


def run_alone_fresh(histories):
    """each history in its own fresh interpreter (nothing another session did can be around)"""
    code = (
        "import sys, json; sys.path.insert(0, %r); import drive\n"
        "hs = json.load(sys.stdin)\n"
        "out = []\n"
        "for h in hs:\n"
        "    out.append(drive.run_impl(h))\n"
        "json.dump(out, sys.stdout)\n" % HERE
    )
    outs = []
    for h in histories:
        p = subprocess.run([sys.executable, "-c", code], input=json.dumps([h]), capture_output=True, text=True, timeout=120)
        if p.returncode != 0:
            raise RuntimeError(p.stderr[-500:])
        outs.append(json.loads(p.stdout)[0])
    return outs


def custom_bytes():
    """one message per custom type, packed by an unregistered PackingOptions (packing is object driven)"""
    o = M.PackingOptions()
    ctl = M.UnbindRequest(message_id=3, controls=[CT.CustomControl(critical=True, data=b"\x01\x02")]).pack(o)
    ctl_ext = M.ExtendedRequest(message_id=3, controls=[CT.CustomControl(critical=False, data=b"")], name="1.2", value=None).pack(o)
    flt = M.SearchRequest(message_id=4, controls=[], base_object="", scope=M.SearchScope.BASE, deref_aliases=M.DereferencingPolicy.NEVER,
                          size_limit=0, time_limit=0, types_only=False, filter=sansldap.FilterNot(CT.CustomFilter(value="v")), attributes=[]).pack(o)
    cred = M.BindRequest(message_id=5, controls=[], version=3, name="", authentication=CT.CustomAuth(value="u:p")).pack(o)
    return {"control": ctl_ext, "filter": flt, "auth": cred}


def registration_semantics():
    """direct test of the registration clause on live sessions; returns violations"""
    out = []
    data = custom_bytes()
    reg = {"control": lambda s: s.register_control(CT.CustomControl), "filter": lambda s: s.register_filter(CT.CustomFilter),
           "auth": lambda s: s.register_auth_credential(CT.CustomAuth)}
    for what in ("control", "filter", "auth"):
        for order in ("registered-first", "unregistered-first"):
            r, u = sansldap.LDAPServer(), sansldap.LDAPServer()
            reg[what](r)
            try:
                reg[what](r)
                out.append({"key": None, "what": f"duplicate registration of a custom {what} type was not rejected"})
            except Exception:  # noqa: BLE001  (rejected: by the documented ValueError or any other error the library chooses)
                pass
            except BaseException as e:  # noqa: BLE001
                out.append({"key": None, "what": f"duplicate registration raised {type(e).__name__}, not ValueError"})
            results = {}
            for nm, s in ((("r", r), ("u", u)) if order == "registered-first" else (("u", u), ("r", r))):
                try:
                    ms = s.receive(data[what])
                    results[nm] = ("msgs", ms)
                except sansldap.ProtocolError as e:
                    results[nm] = ("ProtocolError", None)
                except BaseException as e:  # noqa: BLE001
                    results[nm] = ("Other:" + type(e).__name__, None)
            kr, mr = results["r"]
            ku, mu = results["u"]
            if what == "control":
                ok_r = kr == "msgs" and isinstance(mr[0].controls[0], CT.CustomControl)
                ok_u = ku == "msgs" and type(mu[0].controls[0]) is sansldap.LDAPControl and mu[0].controls[0].control_type == CT.CUSTOM_CONTROL_OID \
                    and mu[0].controls[0].value == CT.CUSTOM_CONTROL_MAGIC
            elif what == "filter":
                ok_r = kr == "msgs" and isinstance(mr[0].filter.filter, CT.CustomFilter)
                ok_u = ku == "ProtocolError"
            else:
                ok_r = kr == "msgs" and isinstance(mr[0].authentication, CT.CustomAuth)
                ok_u = ku == "ProtocolError"
            if not ok_r:
                out.append({"key": None, "what": f"a session that registered the custom {what} type does not decode it ({kr})", "order": order})
            if not ok_u:
                out.append({"key": None, "what": f"a session WITHOUT the registration does not treat the custom {what} bytes as an unknown type ({ku})",
                            "order": order, "hex": data[what].hex()})
            # a brand-new session created afterwards must not know the type either
            n = sansldap.LDAPServer()
            try:
                ms = n.receive(data[what])
                fresh_known = (what == "control" and isinstance(ms[0].controls[0], CT.CustomControl)) or what != "control"
            except sansldap.ProtocolError:
                fresh_known = False
            if fresh_known:
                out.append({"key": None, "what": f"a session created after another session registered the custom {what} type knows the type", "order": order})
    return out


def late_and_mixed_registrations():
    """registration takes effect whenever it happens and whatever else the session (or another one) registered: a session that has
    already decoded built-in controls / filters / credentials registers afterwards; a session registers several kinds, in every order,
    while a second session registers nothing — and must keep treating all three custom types as unknown"""
    import itertools

    out = []
    data = custom_bytes()
    o = M.PackingOptions()
    warm = [
        M.ExtendedRequest(message_id=1, controls=[sansldap.PagedResultControl(critical=False, size=1, cookie=b""),
                                                  sansldap.LDAPControl(control_type="1.2.9", critical=True, value=b"v")], name="1.2", value=None).pack(o),
        M.SearchRequest(message_id=2, controls=[sansldap.ShowDeletedControl(critical=True)], base_object="", scope=M.SearchScope.BASE,
                        deref_aliases=M.DereferencingPolicy.NEVER, size_limit=0, time_limit=0, types_only=False,
                        filter=sansldap.FilterAnd([sansldap.FilterEquality("a", b"b"), sansldap.FilterPresent("c")]), attributes=[]).pack(o),
    ]
    reg = {"control": lambda s: s.register_control(CT.CustomControl), "filter": lambda s: s.register_filter(CT.CustomFilter),
           "auth": lambda s: s.register_auth_credential(CT.CustomAuth)}

    def typed(what, ms):
        if what == "control":
            return isinstance(ms[0].controls[0], CT.CustomControl)
        if what == "filter":
            return isinstance(ms[0].filter.filter, CT.CustomFilter)
        return isinstance(ms[0].authentication, CT.CustomAuth)

    def outcome(s, what):
        try:
            ms = s.receive(data[what])
            return "typed" if typed(what, ms) else "generic"
        except sansldap.ProtocolError:
            return "ProtocolError"
        except BaseException as e:  # noqa: BLE001
            return "Other:" + type(e).__name__

    for kinds in [p for n in (1, 2, 3) for p in itertools.permutations(("control", "filter", "auth"), n)]:
        for warmed in (False, True):
            a, b = sansldap.LDAPServer(), sansldap.LDAPServer()
            if warmed:
                for w in warm:
                    a.receive(w)
                    b.receive(w)
            try:
                for k in kinds:
                    reg[k](a)
            except BaseException as e:  # noqa: BLE001
                out.append({"key": None, "what": f"the first registration of a custom {k} type on a fresh session raised {type(e).__name__} "
                            f"(registrations made on other sessions are visible to it); order {list(kinds)}"})
                continue
            # ids 3, 4, 5 are used by the custom messages; "auth" is a BindRequest and must come last (it needs no outstanding operations)
            for s, registered in ((b, ()), (a, kinds)):
                fresh_copy = sansldap.LDAPServer()
                for what in ("control", "filter", "auth"):
                    t = sansldap.LDAPServer() if what == "auth" or s.state.name == "CLOSED" else s
                    if t is not s:
                        # auth needs an idle session, and a ProtocolError closes one: use a session with the same registrations and history
                        t = sansldap.LDAPServer()
                        try:
                            for k in registered:
                                reg[k](t)
                        except BaseException as e:  # noqa: BLE001
                            out.append({"key": None, "what": f"the first registration of a custom {k} type on a fresh session raised {type(e).__name__} "
                                        f"(registrations made on other sessions are visible to it); order {list(registered)}"})
                            continue
                    got = outcome(t, what)
                    want = "typed" if what in registered else ("generic" if what == "control" else "ProtocolError")
                    if got != want:
                        out.append({"key": None, "what": f"with custom types {list(kinds)} registered on one session ({'after' if warmed else 'before'} it decoded "
                                    f"built-in types), a session that registered {list(registered)} handles the custom {what} bytes as {got}, expected {want}"})
                del fresh_copy
            if len(out) >= 5:
                return out
    return out


def builtin_collisions():
    """a custom type whose id / OID collides with a built-in choice is a duplicate registration: ValueError, nothing changed"""
    import dataclasses

    out = []
    for role in (sansldap.LDAPClient, sansldap.LDAPServer):
        for fid in list(range(0, 10)):
            try:
                cls = dataclasses.make_dataclass(f"F{fid}", [("value", str, dataclasses.field(default=""))], bases=(sansldap.LDAPFilter,), frozen=True,
                                                 namespace={"filter_id": fid})
            except Exception:  # noqa: BLE001  (the harness cannot build its probe class on this code: not judged)
                continue
            s = role()
            try:
                s.register_filter(cls)
                out.append({"key": None, "what": f"registering a custom filter type with the id of a built-in filter choice ({fid}) was not rejected as a duplicate"})
            except Exception:  # noqa: BLE001  (rejected: by the documented ValueError or any other error the library chooses)
                pass
            except BaseException as e:  # noqa: BLE001
                out.append({"key": None, "what": f"registering a custom filter type with a built-in id ({fid}) raised {type(e).__name__}, not ValueError"})
        for aid in (0, 3):
            try:
                cls = dataclasses.make_dataclass(f"A{aid}", [("value", str, dataclasses.field(default=""))], bases=(sansldap.AuthenticationCredential,), frozen=True,
                                                 namespace={"auth_id": aid})
            except Exception:  # noqa: BLE001  (the harness cannot build its probe class on this code: not judged)
                continue
            s = role()
            try:
                s.register_auth_credential(cls)
                out.append({"key": None, "what": f"registering a custom credential type with the id of a built-in choice ({aid}) was not rejected as a duplicate"})
            except Exception:  # noqa: BLE001  (rejected: by the documented ValueError or any other error the library chooses)
                pass
            except BaseException as e:  # noqa: BLE001
                out.append({"key": None, "what": f"registering a custom credential type with a built-in id ({aid}) raised {type(e).__name__}, not ValueError"})
        for oid in (sansldap.PagedResultControl.control_type if isinstance(getattr(sansldap.PagedResultControl, "control_type", None), str) else "1.2.840.113556.1.4.319",
                    "1.2.840.113556.1.4.417", "1.2.840.113556.1.4.2065"):
            try:
                cls = type("Cx", (sansldap.LDAPControl,), {"control_type": oid})
                s = role()
                s.register_control(cls)
                out.append({"key": None, "what": f"registering a custom control type with the OID of a built-in control ({oid}) was not rejected as a duplicate"})
            except Exception:  # noqa: BLE001  (rejected: by the documented ValueError or any other error the library chooses)
                pass
            except BaseException as e:  # noqa: BLE001
                out.append({"key": None, "what": f"registering a custom control with a built-in OID ({oid}) raised {type(e).__name__}, not ValueError"})
    return out


def different_registrations():
    """two live sessions holding DIFFERENT custom types of the same kind, traffic interleaved in every order"""
    out = []
    o = M.PackingOptions()

    def search(f):
        return M.SearchRequest(message_id=4, controls=[], base_object="", scope=M.SearchScope.BASE, deref_aliases=M.DereferencingPolicy.NEVER,
                               size_limit=0, time_limit=0, types_only=False, filter=f, attributes=[]).pack(o)

    kinds = {
        "filter": (lambda s, c: s.register_filter(c), CT.CustomFilter, CT.CustomFilter2,
                   lambda c: search(sansldap.FilterAnd([c(value="v")])), lambda ms: type(ms[0].filter.filters[0])),
        "auth": (lambda s, c: s.register_auth_credential(c), CT.CustomAuth, CT.CustomAuth2,
                 lambda c: M.BindRequest(message_id=5, controls=[], version=3, name="", authentication=c(value="u")).pack(o),
                 lambda ms: type(ms[0].authentication)),
        "control": (lambda s, c: s.register_control(c), CT.CustomControl, CT.CustomControl2,
                    lambda c: M.ExtendedRequest(message_id=3, controls=[c(critical=False, data=b"d")], name="1.2", value=None).pack(o),
                    lambda ms: type(ms[0].controls[0])),
    }
    import itertools
    for what, (reg, X, Y, make, typ) in kinds.items():
        # every order of: A decodes X, A decodes Y, B decodes X, B decodes Y  (each on a fresh pair; A registered X, B registered Y)
        steps = [("A", X), ("A", Y), ("B", X), ("B", Y)]
        for perm in itertools.permutations(steps, 2):
            a, b = sansldap.LDAPServer(), sansldap.LDAPServer()
            reg(a, X)
            reg(b, Y)
            for who, cls in perm:
                s = sansldap.LDAPServer() if False else (a if who == "A" else b)
                if s.state.name == "CLOSED":
                    continue
                own = X if who == "A" else Y
                try:
                    ms = s.receive(make(cls))
                    got = typ(ms)
                    res = "typed" if got is cls else ("generic" if what == "control" and got is sansldap.LDAPControl else f"other:{got.__name__}")
                except sansldap.ProtocolError:
                    res = "ProtocolError"
                except BaseException as e:  # noqa: BLE001
                    res = "Other:" + type(e).__name__
                want = "typed" if cls is own else ("generic" if what == "control" else "ProtocolError")
                if res != want:
                    out.append({"key": None, "what": f"two sessions with different custom {what} registrations interfere: session {who} "
                                f"(registered {own.__name__}) handling {cls.__name__} bytes gave {res}, expected {want}",
                                "order": [f"{w}:{c.__name__}" for w, c in perm]})
    return out


REQUEST_KINDS = ["bindReq", "searchReq", "extReq"]
RESPONSE_KINDS = ["bindResp", "searchEntry", "searchRef", "searchDone", "extResp"]


def vary(rng, j):
    """the same message with other field values: every control gets another value / criticality payload, every text and octet field changes"""
    m = copy.deepcopy(j)
    for c in m.get("controls", []):
        if "raw" in c and c["k"] in ("showDeleted", "showDeactivated"):
            c["raw"] = None if c["raw"] is not None else "010203"
        elif c["k"] == "generic":
            c["value"] = None if c.get("value") is not None else "0a0b"
        elif c["k"] == "paged":
            c["size"] = c["size"] + 1
    res = m["op"].get("res")
    if res is not None and rng.random() < 0.8:
        # another result code that agrees with the first one modulo 2^8 / 2^16 / 2^32 / 2^64 (or is its negative)
        res["code"] = res["code"] + rng.choice([1, -1]) * rng.choice([2**32, 2**32, 2**64, 256, 65536]) if rng.random() < 0.85 else -res["code"]
    return m


def with_result_code(data: bytes, code: int) -> bytes:
    """the same message with the result code written by the harness's OWN encoder (the library's enum may already have folded or cached the
    number when the message object was built)"""
    import ber

    top = ber.parse(data)
    en = top[0].kids[1].kids[0]
    assert (en.cls, en.num, en.kids) == (0, 10, None)
    en.content = code.to_bytes((code if code >= 0 else ~code).bit_length() // 8 + 1, "big", signed=True)
    return ber.encode(top[0])


def decode_alone(side, kind, y: bytes):
    """what a fresh session in a FRESH interpreter returns for the bytes y (canonical JSON of the messages), or None"""
    code = (
        "import sys, json; sys.path.insert(0, %r); import codec as C\n"
        "from codec import sansldap\n"
        "side, kind, hexs = json.load(sys.stdin)\n"
        "if side == 'server':\n"
        "    s = sansldap.LDAPServer()\n"
        "else:\n"
        "    s = sansldap.LDAPClient()\n"
        "    s.search_request('', filter=None) if kind.startswith('search') else (s.bind_simple('', '') if kind == 'bindResp' else s.extended_request('1.2'))\n"
        "    s.data_to_send()\n"
        "json.dump([C.msg_to_json(m) for m in s.receive(bytes.fromhex(hexs))], sys.stdout)\n" % HERE
    )
    p = subprocess.run([sys.executable, "-c", code], input=json.dumps([side, kind, y.hex()]), capture_output=True, text=True, timeout=120)
    if p.returncode != 0:
        return None
    return json.loads(p.stdout)


def shared_results(ctx, hist):
    """a message decoded by one session must not change when ANOTHER session decodes a similar message afterwards (decoded objects, their
    controls, filters and lists are the caller's results, not shared instances)"""
    rng = ctx.rng
    out = []
    o = M.PackingOptions()
    for n in range(ctx.scale(600, 8000)):
        side = rng.choice(["server", "client"])
        kind = rng.choice(REQUEST_KINDS if side == "server" else RESPONSE_KINDS)
        j = gen.g_msg(rng, kind, depth=2)
        j["id"] = 1
        if not j.get("controls") or rng.random() < 0.5:
            j["controls"] = [gen.g_control(rng) for _ in range(rng.choice([1, 2]))]
        j2 = vary(rng, j) if rng.random() < 0.7 else dict(gen.g_msg(rng, kind, depth=2), id=1)
        try:
            x, y = C.msg_from_json(j).pack(o), C.msg_from_json(j2).pack(o)
            if j["op"].get("res") is not None:
                x, y = with_result_code(x, j["op"]["res"]["code"]), with_result_code(y, j2["op"]["res"]["code"])
        except BaseException:  # noqa: BLE001
            continue

        def fresh():
            if side == "server":
                return sansldap.LDAPServer()
            c = sansldap.LDAPClient()
            c.search_request("", filter=None) if kind.startswith("search") else (c.bind_simple("", "") if kind == "bindResp" else c.extended_request("1.2"))
            c.data_to_send()
            return c

        try:
            a, b = fresh(), fresh()
            ra = a.receive(x)
            at_time = [C.msg_to_json(m) for m in ra]
            rb = b.receive(y)
            now = [C.msg_to_json(m) for m in ra]
            got_b = [C.msg_to_json(m) for m in rb]
        except sansldap.LDAPError:
            hist["shared-results:rejected"] += 1
            continue
        hist["shared-results:pairs"] += 1
        import p_c01 as _p1
        if [_p1.strip_raw(m) for m in got_b] != [_p1.strip_raw(j2)]:
            # the second session did not get the message that was sent to it: is that because of what the FIRST session decoded before?
            alone = decode_alone(side, kind, y)
            if alone is not None and alone != got_b:
                out.append({"key": None, "what": "what a session decodes depends on what ANOTHER session decoded before it: the same bytes give another "
                            "message to a fresh session in a fresh interpreter", "side": side, "first_session_bytes": x.hex(),
                            "second_session_bytes": y.hex(), "second_session_got": got_b, "alone_in_fresh_interpreter": alone})
                if len(out) >= 5:
                    break
                continue
        if now != at_time:
            out.append({"key": None, "what": "a message object returned by receive() to one session was changed afterwards when another session "
                        "decoded a similar message (decoded objects are shared between sessions)", "side": side,
                        "first_session_bytes": x.hex(), "second_session_bytes": y.hex(), "at_time": at_time, "now": now})
            if len(out) >= 5:
                break
    return out


def after_failures(ctx, hist):
    """MANY sessions whose receive() fails somewhere inside a message (unknown filter choice at some nesting level, truncated interior, nesting too
    deep to unpack, malformed control value), then an ordinary session on the same thread: what it decodes is what a fresh session in a fresh
    interpreter decodes (whatever a failed decode leaves behind must not reach another session)"""
    import ber as B

    def tlv(tag, content):
        return bytes([tag]) + B.enc_len(len(content)) + content

    def search(i, filt):
        return tlv(0x30, tlv(2, bytes([i])) + tlv(0x63, tlv(4, b"") + tlv(0x0A, b"\0") + tlv(0x0A, b"\0") + tlv(2, b"\0") + tlv(2, b"\0") + tlv(1, b"\0")
                                                    + filt + tlv(0x30, b"")))

    def nest(depth, leaf, kinds=(0xA2,)):
        f = leaf
        for d in range(depth):
            k = kinds[d % len(kinds)]
            f = tlv(k, f if k == 0xA2 else f + tlv(0x87, b"cn"))
        return f

    present = tlv(0x87, b"objectClass")
    unknown = tlv(0x9F, b"\x2a\x01x")            # context tag 31*128+... : a filter choice no session knows
    bad = [search(1, nest(d, unknown, kinds)) for d in (1, 2, 3, 3, 3, 5, 40, 200) for kinds in ((0xA2,), (0xA0, 0xA1, 0xA2))]
    bad += [search(1, nest(3, tlv(0xA3, tlv(4, b"cn")), (0xA0, 0xA1, 0xA2))),      # equality without a value, inside and/or/not
            search(1, nest(2500, present)), search(1, nest(2, tlv(0xA2, b"")))]
    probes = [("ordinary", search(1, nest(2, present, (0xA0, 0xA1, 0xA2)))), ("nested-100", search(1, nest(100, present))),
              ("nested-200", search(1, nest(200, present, (0xA0, 0xA2)))), ("nested-60-mixed", search(1, nest(60, present, (0xA0, 0xA1, 0xA2))))]
    out = []
    alone = {name: decode_alone("server", "searchReq", data) for name, data in probes}
    rounds = ctx.scale(3, 12)
    for rnd in range(rounds):
        n_fail = 0
        for rep in range(ctx.scale(120, 400)):
            data = bad[(rep + rnd) % len(bad)]
            s = sansldap.LDAPServer()
            try:
                guarded(lambda: s.receive(data), 20.0)
            except BaseException:  # noqa: BLE001
                n_fail += 1
        hist["after-failures:failed-receives"] += n_fail
        for name, data in probes:
            s = sansldap.LDAPServer()
            try:
                got = [C.msg_to_json(m) for m in guarded(lambda: s.receive(data), 20.0)]
            except BaseException as e:  # noqa: BLE001
                got = "raised " + type(e).__name__
            hist["after-failures:probes"] += 1
            if alone[name] is not None and got != alone[name]:
                out.append({"key": None, "what": "what a session decodes depends on decodes that FAILED in other sessions before it: the same bytes are "
                            "decoded differently by a fresh session in a fresh interpreter", "probe": name, "bytes": data.hex()[:400],
                            "failed_receives_before": n_fail * (rnd + 1), "got": got if isinstance(got, str) else "messages (differ)",
                            "alone_in_fresh_interpreter": "messages" if alone[name] else alone[name]})
                return out
    return out


def subclassed_builtin_types(hist):
    """custom types written as SUBCLASSES of a built-in choice class (same layout, another choice number: a filter [20] like equalityMatch, a
    credential [5] like simple), used after other sessions have used the built-in parents: the registering session's bytes carry the subclass's
    own choice number and decode to the subclass; sessions without the registration refuse the bytes as an unknown choice; the parents keep working"""
    import dataclasses

    import ber as B

    @dataclasses.dataclass(frozen=True)
    class TokenCredential(sansldap.SimpleCredential):
        auth_id: int = dataclasses.field(init=False, repr=False, default=5)

        @classmethod
        def unpack(cls, reader, options):
            base = super().unpack(reader, options)
            return cls(password=base.password)

    @dataclasses.dataclass(frozen=True)
    class VendorMatch(sansldap.FilterEquality):
        filter_id: int = dataclasses.field(init=False, repr=False, default=20)

        @classmethod
        def unpack(cls, reader, options):
            base = super().unpack(reader, options)
            return cls(attribute=base.attribute, value=base.value)

    out = []

    def problem(what, **kw):
        out.append({"key": None, "what": what, **kw})

    try:
        # 1. other sessions use the built-in parents first (both directions)
        pc, ps = sansldap.LDAPClient(), sansldap.LDAPServer()
        pc.search_request("dc=x", filter=sansldap.FilterEquality("cn", b"v"))
        ps.receive(pc.data_to_send())
        pc2, ps2 = sansldap.LDAPClient(), sansldap.LDAPServer()
        pc2.bind_simple("cn=u", "pw")
        ps2.receive(pc2.data_to_send())
        # 2. a session pair that registers the subclasses
        ac, as_ = sansldap.LDAPClient(), sansldap.LDAPServer()
        for s_ in (ac, as_):
            s_.register_filter(VendorMatch)
            s_.register_auth_credential(TokenCredential)
        ac.search_request("dc=x", filter=sansldap.FilterAnd([VendorMatch("cn", b"v"), sansldap.FilterEquality("sn", b"w")]))
        data_f = ac.data_to_send()
        hist["subclassed-types:checks"] += 1
        op = B.parse(data_f)[0].kids[1]
        flt = op.kids[6]
        got_tags = [(k.cls, k.num) for k in flt.kids]
        if got_tags != [(2, 20), (2, 3)]:
            problem("a registered filter class that subclasses FilterEquality (choice [20]) is written with another choice number after other sessions used "
                    "FilterEquality", filter_component_tags=got_tags, bytes=data_f.hex())
        ms = as_.receive(data_f)
        kinds_ = [type(x).__name__ for x in ms[0].filter.filters]
        if kinds_ != ["VendorMatch", "FilterEquality"]:
            problem("the session that registered a FilterEquality subclass decodes its bytes as " + str(kinds_), bytes=data_f.hex())
        bs = sansldap.LDAPServer()
        try:
            bs.receive(data_f if got_tags == [(2, 20), (2, 3)] else bytes.fromhex("30290201016324040464633d780a01020a0100020100020100010100a010b4070402636e040176a3070402736e0401773000"))
            problem("a session WITHOUT the registration accepted a filter of choice [20] (a type only another session registered)")
        except sansldap.ProtocolError:
            pass
        as_.search_result_done(ms[0].message_id)
        ac.receive(as_.data_to_send())
        ac.bind("", TokenCredential("secret"))
        data_b = ac.data_to_send()
        cred = B.parse(data_b)[0].kids[1].kids[2]
        if (cred.cls, cred.num) != (2, 5):
            problem("a registered credential class that subclasses SimpleCredential (choice [5]) is written with another choice number after other sessions used "
                    "SimpleCredential", credential_tag=[cred.cls, cred.num], bytes=data_b.hex())
        mb = as_.receive(data_b)
        if type(mb[0].authentication).__name__ != "TokenCredential":
            problem("the session that registered a SimpleCredential subclass decodes its bytes as " + type(mb[0].authentication).__name__, bytes=data_b.hex())
        bs2 = sansldap.LDAPServer()
        try:
            bs2.receive(data_b if (cred.cls, cred.num) == (2, 5) else bytes.fromhex("30110201026000020103040085067365637265740a"))
            problem("a session WITHOUT the registration accepted a credential of choice [5] (a type only another session registered)")
        except sansldap.ProtocolError:
            pass
        # 3. the parents still work, on old and new sessions
        pc.search_request("dc=y", filter=sansldap.FilterEquality("cn", b"z"))
        if type(ps.receive(pc.data_to_send())[0].filter).__name__ != "FilterEquality":
            problem("FilterEquality no longer decodes as FilterEquality after a subclass of it was registered on another session")
    except BaseException as e:  # noqa: BLE001
        problem(f"sessions using custom types that subclass built-in choice classes failed with {type(e).__name__}: {e}"[:300])
    return out


def refusal_alone(y: bytes):
    """how a fresh, unregistered server in a FRESH interpreter refuses the bytes y: (exception class, hex of the notification attached) or None"""
    code = (
        "import sys, json; sys.path.insert(0, %r); import codec as C\n"
        "from codec import sansldap\n"
        "s = sansldap.LDAPServer()\n"
        "try:\n"
        "    s.receive(bytes.fromhex(json.load(sys.stdin)))\n"
        "    out = ['accepted', None]\n"
        "except sansldap.ProtocolError as e:\n"
        "    out = ['ProtocolError', None if e.response is None else bytes(e.response).hex()]\n"
        "except BaseException as e:\n"
        "    out = [type(e).__name__, None]\n"
        "json.dump(out, sys.stdout)\n" % HERE
    )
    p = subprocess.run([sys.executable, "-c", code], input=json.dumps(y.hex()), capture_output=True, text=True, timeout=120)
    return json.loads(p.stdout) if p.returncode == 0 else None


def registrations_do_not_show_elsewhere(hist):
    """after OTHER sessions registered custom types, an unregistered session refuses their bytes exactly as it would alone in a fresh interpreter:
    same exception class and the SAME notification bytes (a registration must not be observable from another session, not even in the diagnostic
    text the refusing server sends to its peer)"""
    import ber as B

    def tlv(tag, content):
        return bytes([tag]) + B.enc_len(len(content)) + content

    def search(filt):
        return tlv(0x30, tlv(2, b"\1") + tlv(0x63, tlv(4, b"") + tlv(0x0A, b"\0") + tlv(0x0A, b"\0") + tlv(2, b"\0") + tlv(2, b"\0") + tlv(1, b"\0") + filt + tlv(0x30, b"")))

    custom_f = tlv(0x9F, b"")[:1] + bytes([CT.CUSTOM_FILTER_ID]) + B.enc_len(1) + b"x" if CT.CUSTOM_FILTER_ID >= 31 else tlv(0x80 | CT.CUSTOM_FILTER_ID, b"x")
    custom_c = (bytes([0x9F, CT.CUSTOM_CRED_ID]) if CT.CUSTOM_CRED_ID >= 31 else bytes([0x80 | CT.CUSTOM_CRED_ID])) + B.enc_len(1) + b"x"
    probes = {"custom filter": search(custom_f), "custom filter nested": search(tlv(0xA0, tlv(0x87, b"cn") + tlv(0xA2, custom_f))),
              "custom credential": tlv(0x30, tlv(2, b"\1") + tlv(0x60, tlv(2, b"\3") + tlv(4, b"") + custom_c))}
    out = []
    alone = {k: refusal_alone(v) for k, v in probes.items()}
    regs = [sansldap.LDAPServer(), sansldap.LDAPClient()]
    for s_ in regs:
        s_.register_filter(CT.CustomFilter)
        s_.register_auth_credential(CT.CustomAuth)
        s_.register_control(CT.CustomControl)
    for k, data in probes.items():
        hist["registrations-elsewhere:probes"] += 1
        b = sansldap.LDAPServer()
        try:
            b.receive(data)
            got = ["accepted", None]
        except sansldap.ProtocolError as e:
            got = ["ProtocolError", None if e.response is None else bytes(e.response).hex()]
        except BaseException as e:  # noqa: BLE001
            got = [type(e).__name__, None]
        if alone[k] is not None and got != alone[k]:
            out.append({"key": None, "what": "an unregistered session refuses bytes of a custom type differently once ANOTHER session has registered that type: "
                        "exception class or notification bytes differ from the same session alone in a fresh interpreter", "probe": k, "bytes": data.hex(),
                        "with_other_sessions_registered": got, "alone_in_fresh_interpreter": alone[k]})
    return out


def shared_inputs(ctx, hist):
    """two sessions are handed the SAME input object (a bytearray holding the common first bytes of their next messages): neither may keep it —
    what one session receives afterwards must not reach the other"""
    rng = ctx.rng
    out = []
    o = M.PackingOptions()
    for n in range(ctx.scale(300, 4000)):
        ja = gen.g_msg(rng, rng.choice(REQUEST_KINDS), depth=2)
        ja["id"] = 1
        jb = copy.deepcopy(ja)
        jb["id"] = rng.choice([1, 2, 77])
        if rng.random() < 0.5:
            jb = dict(gen.g_msg(rng, ja["op"]["k"], depth=2), id=jb["id"])
        try:
            xa, xb = C.msg_from_json(ja).pack(o), C.msg_from_json(jb).pack(o)
        except BaseException:  # noqa: BLE001
            continue
        common = 0
        while common < min(len(xa), len(xb)) - 1 and xa[common] == xb[common]:
            common += 1
        if common == 0:
            continue
        k = rng.randrange(1, common + 1)

        def alone(x):
            s = sansldap.LDAPServer()
            try:
                return [C.msg_to_json(m) for m in s.receive(bytes(x[:k])) + s.receive(bytes(x[k:]))], s.state.name
            except sansldap.LDAPError as e:
                return type(e).__name__, s.state.name

        want_a, want_b = alone(xa), alone(xb)
        for order in ("ABAB", "ABBA", "BAAB"):
            head = bytearray(xa[:k]) if rng.random() < 0.8 else memoryview(bytearray(xa[:k]))
            sess = {"A": sansldap.LDAPServer(), "B": sansldap.LDAPServer()}
            rest = {"A": xa[k:], "B": xb[k:]}
            got = {"A": [], "B": []}
            seen = {"A": 0, "B": 0}
            for who in order:
                try:
                    ms = sess[who].receive(head if seen[who] == 0 else rest[who])
                    if isinstance(got[who], list):
                        got[who] += [C.msg_to_json(m) for m in ms]
                except sansldap.LDAPError as e:
                    got[who] = type(e).__name__
                seen[who] += 1
            hist["shared-input:runs"] += 1
            res = {w: (got[w], sess[w].state.name) for w in "AB"}
            if res["A"] != want_a or res["B"] != want_b:
                out.append({"key": None, "what": "two sessions given the same input object interfere: a session's result differs from the same deliveries "
                            "made to it alone", "order": order, "shared_first_chunk": bytes(head).hex(), "rest_A": xa[k:].hex(), "rest_B": xb[k:].hex(),
                            "alone": {"A": want_a, "B": want_b}, "interleaved": res})
                break
        if len(out) >= 5:
            break
    return out


def run(ctx):
    rng = ctx.rng
    violations = registration_semantics() + different_registrations() + late_and_mixed_registrations() + builtin_collisions()
    hist = collections.Counter()
    violations += shared_results(ctx, hist)
    violations += shared_inputs(ctx, hist)
    violations += after_failures(ctx, hist)
    violations += subclassed_builtin_types(hist)
    violations += registrations_do_not_show_elsewhere(hist)
    import p_recv
    violations += p_recv.failed_pack_histories(ctx.rng, ctx.scale(150, 3000), hist)
    distinct = set()
    n_groups = ctx.scale(60, 1500)
    all_reqs = []
    bounds = []
    alone_jobs = []
    evaluations = 0
    samples = []
    for g in range(n_groups):
        k = rng.choice([2, 2, 3])
        hs = [PS.gen_history(rng, ctx.scale(18, 30), (f"g{g}x{i}c", f"g{g}x{i}s"), mode="crafted", custom=True) for i in range(k)]
        # interleave, keeping each history's own order
        idx = [0] * k
        merged = []
        while any(idx[i] < len(hs[i]) for i in range(k)):
            i = rng.choice([j for j in range(k) if idx[j] < len(hs[j])])
            merged.append((i, hs[i][idx[i]]))
            idx[i] += 1
        reqs = [q for _, q in merged]
        names = sorted({q["name"] for q in reqs if "name" in q})
        tail = [{"op": "retained", "name": n} for n in names]
        replies = drive.run_impl(copy.deepcopy(reqs) + tail)
        for q, rep in zip(tail, replies[len(reqs):]):
            hist["retained-messages-rechecked"] += rep.get("retained", 0)
            if rep.get("changed"):
                violations.append({"key": None, "what": "a message object returned by receive() to one session was changed afterwards by operations "
                                   "of another session (results are shared between sessions)", "history": reqs, "session": q["name"],
                                   "changed": rep["changed"]})
        replies = replies[: len(reqs)]
        per = [[] for _ in range(k)]
        for (i, q), rep in zip(merged, replies):
            per[i].append(rep)
        evaluations += len(reqs)
        for i in range(k):
            hist["register-calls"] += sum(1 for q in hs[i] if q["op"] == "call" and q["call"]["k"] == "register")
        distinct.add(tuple(i for i, _ in merged))
        if g < ctx.scale(25, 300):
            alone_jobs.append((g, hs, per, reqs))
        bounds.append((len(all_reqs), len(reqs)))
        all_reqs.extend(reqs)
        if g < 1:
            samples.append([{"session": q.get("name"), "call": (q.get("call") or {}).get("k", q["op"])} for q in reqs[:12]])
    # reference 1: each history alone in a fresh interpreter
    flat = [h for (_, hs, _, _) in alone_jobs for h in hs]
    alone = run_alone_fresh(flat)
    pos = 0
    for (g, hs, per, reqs) in alone_jobs:
        for i, h in enumerate(hs):
            ref = alone[pos]
            pos += 1
            for step, (a, b) in enumerate(zip(per[i], ref)):
                if not drive.reply_eq(a, b):
                    violations.append({"key": None, "what": "a session behaves differently when its calls are interleaved with another session's calls "
                                       "than when it runs alone", "history": reqs, "session_history": h[: step + 1], "interleaved": a, "alone": b})
                    break
    hist["histories-compared-with-fresh-interpreter"] = len(flat)
    # reference 2: the Lean model (sessions are values there)
    disagreements = []
    if ctx.driver_ok:
        a = drive.run_impl(copy.deepcopy(all_reqs))
        b = drive.run_model(all_reqs)
        for (start, ln) in bounds:
            for i in range(start, start + ln):
                if not drive.reply_eq(a[i], b[i]):
                    disagreements.append({"history": all_reqs[start: i + 1], "impl": a[i], "model": b[i]})
                    break
            if len(disagreements) >= 10:
                break
    return {
        "evaluations": evaluations,
        "distinct_nontrivial": len(distinct),
        "rule": "groups of 2-3 independent client/server histories (calls, drains, deliveries, crafted messages that use the three custom types of "
                "harness/custom_types.py, registrations of every subset of them) interleaved in random order in one interpreter; each session's replies "
                "must equal the replies of the same history run alone in a fresh interpreter, and the Lean model's; every message object receive() "
                "handed out is re-serialised at the end of the interleaved run and must be unchanged; pairs of fresh sessions decode a message and a "
                "variant of it (other control values) and the first result must not change; two sessions are handed the same bytearray (the common "
                "first bytes of their next messages) and each must still receive its own message; sends whose packing fails on one session must "
                "leave no bytes in the other session's stream; plus a direct test of the registration "
                "clause (registered session decodes the type — also when it registers after having decoded built-in types, and for every ordered subset of "
                "the three kinds while another session registers nothing —, duplicate registration raises ValueError, unregistered and later-created sessions treat "
                "the same bytes as an unknown type), in both orders; distinct = distinct interleavings",
        "samples": samples,
        "histogram": dict(sorted(hist.items())),
        "requests": len(all_reqs),
        "violations": violations,
        "disagreements": disagreements,
    }


def replay(ctx, payload):
    return PS.replay_history(payload)
