"""Three fixed custom types used by the C19 checks (registered per session by the harness).

They follow the extension recipe of the library's own docstrings.  Their constants are
exported to the Lean model through Generated/Facts.lean by translate.py.
"""
from __future__ import annotations

import dataclasses
import typing as t

import sansldap
from sansldap.asn1 import ASN1Reader, ASN1Tag, ASN1Writer, TagClass

CUSTOM_CONTROL_OID = "1.2.3.4.5.6"
CUSTOM_CONTROL_MAGIC = b"CC"
CUSTOM_FILTER_ID = 31
CUSTOM_CRED_ID = 31


@dataclasses.dataclass(frozen=True)
class CustomControl(sansldap.LDAPControl):
    control_type: str = dataclasses.field(init=False, repr=False, default=CUSTOM_CONTROL_OID)
    value: t.Optional[bytes] = dataclasses.field(init=False, repr=False, default=None)

    data: bytes

    def get_value(self, options: sansldap.ControlOptions) -> t.Optional[bytes]:
        return CUSTOM_CONTROL_MAGIC + self.data

    @classmethod
    def unpack(cls, control_type, critical, value, options) -> "CustomControl":
        value = value or b""
        if not value.startswith(CUSTOM_CONTROL_MAGIC):
            raise ValueError("CustomControl value does not start with the magic")
        return CustomControl(critical=critical, data=value[len(CUSTOM_CONTROL_MAGIC):])


@dataclasses.dataclass(frozen=True)
class CustomFilter(sansldap.LDAPFilter):
    filter_id: int = dataclasses.field(init=False, repr=False, default=CUSTOM_FILTER_ID)

    value: str

    def pack(self, writer: ASN1Writer, options: sansldap.FilterOptions) -> None:
        writer.write_octet_string(
            self.value.encode(options.string_encoding),
            tag=ASN1Tag(TagClass.CONTEXT_SPECIFIC, self.filter_id, False),
        )

    @classmethod
    def unpack(cls, reader: ASN1Reader, options: sansldap.FilterOptions) -> "CustomFilter":
        value = reader.read_octet_string(
            ASN1Tag(TagClass.CONTEXT_SPECIFIC, cls.filter_id, False),
        ).decode(options.string_encoding)
        return CustomFilter(value=value)


@dataclasses.dataclass(frozen=True)
class CustomAuth(sansldap.AuthenticationCredential):
    auth_id: int = dataclasses.field(init=False, repr=False, default=CUSTOM_CRED_ID)

    value: str

    def pack(self, writer: ASN1Writer, options: sansldap.AuthenticationOptions) -> None:
        writer.write_octet_string(
            self.value.encode(options.string_encoding),
            tag=ASN1Tag(TagClass.CONTEXT_SPECIFIC, self.auth_id, False),
        )

    @classmethod
    def unpack(cls, reader: ASN1Reader, options: sansldap.AuthenticationOptions) -> "CustomAuth":
        value = reader.read_octet_string(
            tag=ASN1Tag(TagClass.CONTEXT_SPECIFIC, cls.auth_id, False),
        ).decode(options.string_encoding)
        return CustomAuth(value=value)


# ---- a second family of custom types, used only by the direct isolation tests of C19 (two sessions
# ---- holding *different* registrations of the same kind); not part of the Lean model.

@dataclasses.dataclass(frozen=True)
class CustomControl2(sansldap.LDAPControl):
    control_type: str = dataclasses.field(init=False, repr=False, default="1.2.3.4.5.7")
    value: t.Optional[bytes] = dataclasses.field(init=False, repr=False, default=None)

    data: bytes

    def get_value(self, options: sansldap.ControlOptions) -> t.Optional[bytes]:
        return b"C2" + self.data

    @classmethod
    def unpack(cls, control_type, critical, value, options) -> "CustomControl2":
        value = value or b""
        if not value.startswith(b"C2"):
            raise ValueError("CustomControl2 value does not start with the magic")
        return CustomControl2(critical=critical, data=value[2:])


@dataclasses.dataclass(frozen=True)
class CustomFilter2(sansldap.LDAPFilter):
    filter_id: int = dataclasses.field(init=False, repr=False, default=1025)

    value: str

    def pack(self, writer: ASN1Writer, options: sansldap.FilterOptions) -> None:
        writer.write_octet_string(self.value.encode(options.string_encoding), tag=ASN1Tag(TagClass.CONTEXT_SPECIFIC, self.filter_id, False))

    @classmethod
    def unpack(cls, reader: ASN1Reader, options: sansldap.FilterOptions) -> "CustomFilter2":
        value = reader.read_octet_string(ASN1Tag(TagClass.CONTEXT_SPECIFIC, cls.filter_id, False)).decode(options.string_encoding)
        return CustomFilter2(value=value)


@dataclasses.dataclass(frozen=True)
class CustomAuth2(sansldap.AuthenticationCredential):
    auth_id: int = dataclasses.field(init=False, repr=False, default=1025)

    value: str

    def pack(self, writer: ASN1Writer, options: sansldap.AuthenticationOptions) -> None:
        writer.write_octet_string(self.value.encode(options.string_encoding), tag=ASN1Tag(TagClass.CONTEXT_SPECIFIC, self.auth_id, False))

    @classmethod
    def unpack(cls, reader: ASN1Reader, options: sansldap.AuthenticationOptions) -> "CustomAuth2":
        value = reader.read_octet_string(tag=ASN1Tag(TagClass.CONTEXT_SPECIFIC, cls.auth_id, False)).decode(options.string_encoding)
        return CustomAuth2(value=value)
