"""C11 — a client and a server session interoperate under any interleaving."""
from __future__ import annotations

import collections
import copy
import json

import codec as C
import drive
import gen
import impl as IMPL
import p_session as PS
from codec import M, sansldap

LEAN_TARGETS = ["Verif.Props.C11", "Verif.Props.C11More"]
SECOND_TIE = {
    "what": "the bookkeeping of _session.py (data_to_send, unbind, _send and _validate_outgoing_message of base / client / server, both "
            "_process_incoming_message, the processing loop and closing logic of receive with the attached notification, bind / bind_simple / bind_sasl / "
            "extended_request / search_request, bind_response / extended_response / search_result_entry / reference / done) translated method by method "
            "from the Python AST into Lean (harness/py2lean_session.py -> Generated/SessionGen.lean; encoding = the model's encMsg, unpacking = the "
            "model's parse loop, both abstract here) and proved equal to the hand-written model of Model/Session.lean (Props/TiesSession.lean: component "
            "ties to sendBase / clientSend / serverSend / clientProcess / serverProcess / processLoop / recv, and one step tie per Call constructor)",
    "translator": "py2lean_session.py",
    "targets": ["Verif.Props.TiesSession", "Verif.Props.TiesSessionRecv", "Verif.Props.TiesSessionBridge"],
    "validate": "p_sessiongen.py",
}
LEVEL = "proof"
ASSUMPTIONS = [
    "admissible histories: each application only makes calls its session accepts and answers a request with responses of the matching kind "
    "(bind → bind response; search → entries/references then done; extended → extended response)",
]

NOTICE = PS.NOTICE


def gen_joint(rng, length, name):
    """an admissible joint history as line-protocol requests on sessions <name>c / <name>s; pipes are simulated by the generator"""
    im = IMPL.Impl()
    reqs = []
    cn, sn = name + "c", name + "s"

    def do(r):
        reqs.append(r)
        return im.handle(r)

    do({"op": "sess_new", "name": cn, "role": "client"})
    do({"op": "sess_new", "name": sn, "role": "server"})
    c, s = im.sessions[cn], im.sessions[sn]
    # half of the histories: both applications register the same custom control / filter / credential types first and then use them
    custom = rng.random() < 0.5
    if custom:
        for nm in (cn, sn):
            for what in ("control", "filter", "auth"):
                do({"op": "call", "name": nm, "call": {"k": "register", "what": what}})
    pipe = {cn: b"", sn: b""}
    kinds = {}               # request id -> kind, as known to the server application (from received messages)
    sent = {cn: [], sn: []}  # messages sent, as JSON (from the accepted calls)
    got = {cn: [], sn: []}   # messages returned by receive
    log = []
    for _ in range(length):
        r = rng.random()
        closed = c.state.name == "CLOSED" or s.state.name == "CLOSED"
        if r < 0.25 and c.state.name != "CLOSED":
            call = PS.g_client_call(rng, custom)
            if c.state.name == "BINDING" and rng.random() < 0.5:
                # the application tries something the session must refuse while binding (a refusal has no effect); the conversation goes on
                call = rng.choice([{"k": "search", "base": C.tx(""), "scope": 2, "deref": 0, "size": 0, "time": 0, "typesOnly": False, "filter": None, "attrs": [],
                                    "controls": []}, {"k": "extended", "name": C.tx("1.2.3"), "value": None, "controls": []}])
            # the application tries the call; admissible = the session accepts it (a refusal has no effect, C10)
            if call["k"] == "unbind" and rng.random() < 0.7:
                continue
            rep = do({"op": "call", "name": cn, "call": call})
            if rep["outcome"]["k"] not in ("sent", "unit"):
                continue
            sent[cn].append(C.msg_to_json(PS.call_message(call, rep["outcome"].get("id"))))
        elif r < 0.5 and s.state.name != "CLOSED" and kinds:
            i = rng.choice(sorted(kinds))
            kind = kinds[i]
            base = {"id": i, "controls": PS.small_controls(rng)}
            code = rng.choice([0, 0, 49, 14]) if kind == "bindReq" else rng.choice([0, 0, 32, 4])
            if kind == "bindReq":
                call = {"k": "bindResponse", "sasl": rng.choice([None, "aa"]), "code": code, "mdn": C.tx(""), "diag": C.tx(""), **base}
                final = True
            elif kind == "searchReq":
                x = rng.random()
                if x < 0.45:
                    vals = [rng.choice(["78", "62", "6161", "", "7a7a", "00", "ff"]) for _ in range(rng.choice([0, 1, 2, 3, 4]))]   # any order, repeats allowed
                    attrs = [{"name": C.tx(rng.choice(["cn", "objectClass", ""])), "vals": vals}] + ([{"name": C.tx("sn"), "vals": ["74", "61"]}] if rng.random() < 0.3 else [])
                    call = {"k": "entry", "name": C.tx("cn=x"), "attrs": attrs, **base}
                    final = False
                elif x < 0.6:
                    call = {"k": "reference", "uris": [C.tx("ldap://a")], **base}
                    final = False
                else:
                    call = {"k": "done", "code": code, "mdn": C.tx(""), "diag": C.tx(""), **base}
                    final = True
            elif rng.random() < 0.06:
                # designed termination: the server answers with the notice of disconnection (and closes)
                call = {"k": "extendedResponse", "name": C.tx(NOTICE), "value": None, "code": 52, "mdn": C.tx(""), "diag": C.tx(""), **base}
                final = True
            else:
                call = {"k": "extendedResponse", "name": rng.choice([None, C.tx("1.2.3")]), "value": rng.choice([None, "01"]), "code": code,
                        "mdn": C.tx(""), "diag": C.tx(""), **base}
                final = True
            rep = do({"op": "call", "name": sn, "call": call})
            if rep["outcome"]["k"] != "sent":
                continue
            sent[sn].append(C.msg_to_json(PS.call_message(call, i)))
            if final:
                kinds.pop(i)
        elif r < 0.72:
            src, dst, sess = (cn, sn, c) if rng.random() < 0.5 else (sn, cn, s)
            pending = len(getattr(sess, '_outgoing_buffer', b''))
            rep = do({"op": "call", "name": src, "call": {"k": "drain", "amount": PS.g_amount(rng, pending)}})
            pipe[dst] += bytes.fromhex(rep["outcome"]["b"])
        else:
            dst, sess = (cn, c) if rng.random() < 0.5 else (sn, s)
            if sess.state.name == "CLOSED":
                continue
            if pipe[dst]:
                k = rng.choice([len(pipe[dst]), len(pipe[dst]), 1, 3, max(len(pipe[dst]) // 2, 1), max(len(pipe[dst]) - 1, 1)])
                chunk, pipe[dst] = pipe[dst][:k], pipe[dst][k:]
            else:
                chunk = b""
            rep = do({"op": "call", "name": dst, "call": {"k": "receive", "chunk": chunk.hex()}})
            o = rep["outcome"]
            if o["k"] == "msgs":
                got[dst].extend(o["ms"])
                if dst == sn:
                    for m in o["ms"]:
                        kinds[m["id"]] = m["op"]["k"]
            else:
                log.append((len(reqs) - 1, dst, o))
    # final phase: let everything arrive, so that the agreement-at-quiescence clause is exercised on every history
    for _ in range(3):
        for src, dst, ss, ds in ((cn, sn, c, s), (sn, cn, s, c)):
            rep = do({"op": "call", "name": src, "call": {"k": "drain", "amount": None}})
            pipe[dst] += bytes.fromhex(rep["outcome"]["b"])
            if ds.state.name == "CLOSED" or not pipe[dst]:
                continue
            chunk, pipe[dst] = pipe[dst], b""
            rep = do({"op": "call", "name": dst, "call": {"k": "receive", "chunk": chunk.hex()}})
            o = rep["outcome"]
            if o["k"] == "msgs":
                got[dst].extend(o["ms"])
                if dst == sn:
                    for m in o["ms"]:
                        kinds[m["id"]] = m["op"]["k"]
            else:
                log.append((len(reqs) - 1, dst, o))
    # agreement probe through the API only: when everything has arrived, both sides are open and idle by the applications' own bookkeeping (every
    # request the server application saw has had its final response, every response has been handed to the client application), then no operation
    # is in progress on either side — so a new bind is admissible: the client accepts the call and the server accepts the request
    quiescent = not pipe[cn] and not pipe[sn] and c.state.name == "OPENED" and s.state.name in ("OPENED",) and not kinds \
        and len(got[sn]) == len(sent[cn]) and len(got[cn]) == len(sent[sn])
    if quiescent:
        rep = do({"op": "call", "name": cn, "call": {"k": "bind", "dn": C.tx(""), "cred": {"k": "simple", "pw": C.tx("")}, "controls": []}})
        if rep["outcome"]["k"] != "sent":
            log.append((len(reqs) - 1, cn, {"k": "probe: the client refuses a bind although no operation is in progress (all requests answered, all responses delivered)"}))
        else:
            rep = do({"op": "call", "name": cn, "call": {"k": "drain", "amount": None}})
            rep = do({"op": "call", "name": sn, "call": {"k": "receive", "chunk": rep["outcome"]["b"]}})
            if rep["outcome"]["k"] != "msgs":
                log.append((len(reqs) - 1, sn, {"k": "probe: the server refuses a bind request although no operation is in progress"}))
            elif not rep["outcome"]["ms"]:
                log.append((len(reqs) - 1, sn, {"k": "probe: a bind request sent at quiescence (everything drained and delivered) does not reach the server application"}))
            else:
                rep = do({"op": "call", "name": sn, "call": {"k": "bindResponse", "id": rep["outcome"]["ms"][0]["id"], "sasl": None, "code": 0, "mdn": C.tx(""),
                                                            "diag": C.tx(""), "controls": []}})
                rep = do({"op": "call", "name": sn, "call": {"k": "drain", "amount": None}})
                rep = do({"op": "call", "name": cn, "call": {"k": "receive", "chunk": rep["outcome"]["b"]}})
                if rep["outcome"]["k"] != "msgs" or c.state.name != "OPENED" or s.state.name != "OPENED":
                    log.append((len(reqs) - 1, cn, {"k": "probe: the bind made at quiescence does not complete on both sides"}))
    return reqs, sent, got, pipe, log, (c, s)


def strip_raw_all(ms):
    import p_c01
    return [p_c01.strip_raw(m) for m in ms]


def run(ctx):
    rng = ctx.rng
    violations = []
    hist = collections.Counter()
    distinct = set()
    all_reqs = []
    bounds = []
    samples = []
    n_hist = ctx.scale(300, 8000)
    for h in range(n_hist):
        name = f"j{h}"
        try:
            reqs, sent, got, pipe, log, (c, s) = gen_joint(rng, ctx.scale(40, 60), name)
        except AssertionError as e:
            # the generator believed a call admissible and the session refused it
            violations.append({"key": None, "what": "a call that the documented rules make admissible was refused", "detail": str(e)[:400]})
            continue
        cn, sn = name + "c", name + "s"
        # (1) no protocol error other than the designed terminations
        for idx, dst, o in log:
            if o["k"] == "ProtocolError":
                # designed: the batch contained an unbind (to the server) or a notice of disconnection
                designed = (dst == sn and any(m["op"]["k"] == "unbind" for m in sent[cn])) or \
                    (dst == cn and any(m["op"]["k"] == "extResp" and m["op"].get("name") == C.tx(NOTICE) for m in sent[sn]))
                if not designed:
                    violations.append({"key": None, "what": "a protocol error occurred in an admissible joint history", "history": reqs[: idx + 1]})
            elif o["k"].startswith("probe:"):
                violations.append({"key": None, "what": o["k"][7:], "history": reqs[: idx + 1]})
            else:
                violations.append({"key": None, "what": f"receive raised {o['k']} in an admissible joint history", "history": reqs[: idx + 1]})
        # (2) every message sent is received exactly once, in order, as an equal value (prefix while bytes are in flight)
        for src, dst in ((cn, sn), (sn, cn)):
            a, b = strip_raw_all(sent[src]), strip_raw_all(got[dst])
            if a[: len(b)] != b:
                violations.append({"key": None, "what": "messages received differ from the messages sent (lost / duplicated / reordered / altered)",
                                   "history": reqs, "direction": src + "->" + dst})
            closed = (c if dst == cn else s).state.name == "CLOSED"
            src_sess = c if src == cn else s
            if not closed and not pipe[dst] and not getattr(src_sess, '_outgoing_buffer', b'') and not getattr((c if dst == cn else s), '_incoming_buffer', b'') and a != b:
                violations.append({"key": None, "what": "all bytes delivered but not every sent message was received", "history": reqs})
        # (3) agreement at quiescence
        quiescent = not pipe[cn] and not pipe[sn] and not getattr(c, '_outgoing_buffer', b'') and not getattr(s, '_outgoing_buffer', b'')
        if quiescent:
            # (a designed termination closes both sides once its bytes have arrived: CLOSED must agree with CLOSED as well)
            norm = lambda st: "OPENED" if st == "BEFORE_OPEN" else st
            if norm(c.state.name) != norm(s.state.name):
                violations.append({"key": None, "what": f"quiescent but states disagree: client {c.state.name}, server {s.state.name}", "history": reqs})
        if quiescent and c.state.name != "CLOSED" and s.state.name != "CLOSED":
            if hasattr(c, '_outstanding_requests') and set(c._outstanding_requests) != set(s._outstanding_requests):
                violations.append({"key": None, "what": "quiescent but the two sides disagree on which operations are in progress", "history": reqs})
            hist["quiescent-end"] += 1
        hist["closed-end" if "CLOSED" in (c.state.name, s.state.name) else "open-end"] += 1
        distinct.add(tuple((q["name"][-1], q["call"]["k"]) for q in reqs if q["op"] == "call"))
        if h < 1:
            samples.append([{"name": q.get("name"), "call": q.get("call", q["op"])} for q in reqs[:10]])
        bounds.append((len(all_reqs), len(reqs)))
        all_reqs.extend(reqs)
    disagreements = []
    if ctx.driver_ok:
        a = drive.run_impl(copy.deepcopy(all_reqs))
        b = drive.run_model(all_reqs)
        for (start, ln) in bounds:
            for i in range(start, start + ln):
                if not drive.reply_eq(a[i], b[i]):
                    disagreements.append({"history": all_reqs[start: i + 1], "impl": a[i], "model": b[i]})
                    break
            if len(disagreements) >= 10:
                break
    return {
        "evaluations": sum(ln for _, ln in bounds),
        "distinct_nontrivial": len(distinct),
        "rule": "admissible joint histories of one client and one server joined by two simulated in-order byte pipes: pipelined requests (bind only when "
                "idle, nothing but bind/unbind while binding), server answers of the matching kind for ids it has received, drains of arbitrary amounts "
                "into the pipes, deliveries of arbitrary prefixes of the pipes (1 byte, 3 bytes, half, all-but-one, all, empty); checked: no protocol "
                "error other than after an unbind, received = prefix of sent in order and equal, equality once everything is delivered, agreement on "
                "state (BEFORE_OPEN ≈ OPENED) and on operations in progress at quiescence; every history is replayed on the Lean model; "
                "distinct = distinct (session, call kind) sequences",
        "samples": samples,
        "histogram": dict(sorted(hist.items())),
        "requests": len(all_reqs),
        "violations": violations,
        "disagreements": disagreements,
        "extra": {"histories": n_hist},
    }


def replay(ctx, payload):
    return PS.replay_history(payload)
