#!/venv/bin/python
"""Entry point of every registered check:  ./check C07 [--tier quick|thorough] [--replay FILE]

Order of work for property P (see DESIGN.md §0/§1):
  1. regenerate lean/Verif/Generated/* from /repo's working tree (translator);
  2. `lake build` the driver, the model, P's theorems; audit `#print axioms` and grep for
     sorry/admit/axiom/native_decide/...;
  3. run P's correspondence slice (model vs implementation on generated inputs) and P's
     failing-input search (the property statement tested directly on the implementation);
  4. decide: exit 0 / KNOWN-FINDING lines / VIOLATION lines, and write evidence/P.json.
Exit codes: 0 held, 1 violation (with a VIOLATION line), 2 infrastructure failure.
"""
from __future__ import annotations

import argparse
import importlib
import json
import os
import random
import re
import subprocess
import sys
import time
import traceback

HERE = os.path.dirname(os.path.abspath(__file__))
VERIF = os.path.normpath(os.path.join(HERE, ".."))
LEAN = os.path.join(VERIF, "lean")
sys.path.insert(0, HERE)

ALLOWED_AXIOMS = {"propext", "Classical.choice", "Quot.sound"}
FORBIDDEN = re.compile(r"\b(sorry|admit|native_decide|bv_decide|implemented_by|unsafe)\b|^\s*axiom\s|maxHeartbeats\s+0\b", re.M)

TRUSTED_BASE = [
    "Lean 4.33.0 kernel; axioms allowed: propext, Classical.choice, Quot.sound (audited with #print axioms on every property theorem); no native_decide, no bv_decide, no sorry, no own axioms",
    "Verif/Spec/*.lean: the specifications are the meaning of the properties (read against RFC 4511/4512/4515, X.690, RFC 2696)",
    "harness/translate.py: constants (Generated/Facts.lean) and regular expressions (Generated/Regexes.lean) regenerated from /repo's working tree on every run",
    "correspondence check (harness/*.py + lean/Main.lean): the hand-written Lean model is validated against the implementation on generated inputs, not verified",
    "CPython: unbounded int, immutable bytes/str, UTF-8 codec is a bijection on surrogate-free str",
]


def sh(cmd, cwd=None, timeout=3600):
    p = subprocess.run(cmd, cwd=cwd, capture_output=True, text=True, timeout=timeout)
    return p.returncode, p.stdout + p.stderr


def strip_comments(src: str) -> str:
    # remove /- ... -/ (nested not handled beyond one level of care) and -- comments
    out = []
    i = 0
    depth = 0
    n = len(src)
    while i < n:
        if src.startswith("/-", i):
            depth += 1
            i += 2
        elif depth and src.startswith("-/", i):
            depth -= 1
            i += 2
        elif depth:
            i += 1
        elif src.startswith("--", i):
            while i < n and src[i] != "\n":
                i += 1
        else:
            out.append(src[i])
            i += 1
    return "".join(out)


def props_theorems(prop: str):
    """theorems declared in Verif/Props/<prop>.lean as fully qualified names"""
    path = os.path.join(LEAN, "Verif", "Props", f"{prop}.lean")
    if not os.path.exists(path):
        return []
    src = strip_comments(open(path).read())
    out, stack = [], []
    for m in re.finditer(r"^(namespace|end|theorem)\s+([A-Za-z_][\w'.]*)", src, re.M):
        kw, name = m.group(1), m.group(2)
        if kw == "namespace":
            stack.append(name)
        elif kw == "end":
            if stack and stack[-1] == name:
                stack.pop()
        else:
            out.append(".".join(stack + [name]))
    return out


def lean_sources_for(prop: str, targets=None):
    """source files whose text is audited for forbidden constructs: the Props targets of the property and everything under
    Verif/ they import, transitively (files not imported by any target — e.g. proofs still being written for another
    theorem — are not part of this property's check), plus the driver"""
    roots = list(targets or []) or [f"Verif.Props.{prop}"]
    roots.append("Main")
    seen, todo, out = set(), list(roots), []
    while todo:
        mod = todo.pop()
        if mod in seen or not (mod.startswith("Verif") or mod == "Main"):
            continue
        seen.add(mod)
        path = os.path.join(LEAN, *mod.split(".")) + ".lean"
        if not os.path.exists(path):
            continue
        out.append(path)
        for m in re.finditer(r"^\s*(?:public\s+)?import\s+(\S+)", open(path).read(), re.M):
            todo.append(m.group(1))
    return sorted(out)


class Ctx:
    def __init__(self, prop, tier, seed):
        self.prop = prop
        self.tier = tier
        self.seed = seed
        self.rng = random.Random(f"{prop}:{seed}")
        self.t0 = time.time()
        self.notes = []

        self.boost = False       # set when a second tie is not in force: search as hard as the thorough tier does

    def scale(self, quick, thorough):
        if self.tier == "thorough":
            return thorough
        if self.boost and isinstance(quick, int) and isinstance(thorough, int) and not isinstance(quick, bool):
            # a second tie is not in force: count-like parameters (thorough >= 4 x quick) are multiplied by 4; depth-like parameters (sequence
            # lengths, enumeration depths: thorough < 4 x quick) keep their quick value — their cost grows exponentially
            return quick * 4 if thorough >= quick * 4 else quick
        return quick


def load_known():
    path = os.path.join(VERIF, "known_findings.json")
    try:
        return json.load(open(path))
    except FileNotFoundError:
        return {"known": [], "fixed": []}


def write_replay(prop, name, payload):
    d = os.path.join(VERIF, "replays")
    os.makedirs(d, exist_ok=True)
    path = os.path.join(d, f"{prop}_{name}.json")
    try:
        text = json.dumps(payload, indent=1, sort_keys=True, default=str)
    except Exception:  # noqa: BLE001  (keys of mixed types, cycles): keep the replay readable anyway
        text = json.dumps({"unserialisable_payload": repr(payload)[:20000]}, indent=1)
    with open(path, "w") as fh:
        fh.write(text)
    return path


class Infrastructure(Exception):
    """the machinery could not run (killed compiler, full disk, a library name the harness cannot resolve): exit 2, never a verdict"""


LEAN_ERROR = re.compile(r"^error: .*(Verif/|Main\.lean)|(Verif/\S+|Main)\.lean:\d+:\d+: error", re.M)


def lake_build(targets, timeout):
    """(ok, output).  A failed build is a broken proof obligation only when Lean reports an error in one of the project's files
    (the model or a proof no longer checks against the regenerated facts); a build that dies for another reason (compiler killed,
    disk, lock) is retried once and then reported as an infrastructure failure"""
    out = ""
    for attempt in range(2):
        rc, out = sh(["lake", "build"] + list(targets), cwd=LEAN, timeout=timeout)
        if rc == 0:
            return True, out
        if LEAN_ERROR.search(out):
            return False, out
        time.sleep(2)
    raise Infrastructure("lake build " + " ".join(targets) + " failed without a Lean error in the project's files: " + out[-600:])


def axiom_audit(name, targets, thms):
    """#print axioms for every theorem; returns (discharged, problems, axioms_seen)"""
    tmpd = os.path.join(LEAN, ".lake", "audit")
    os.makedirs(tmpd, exist_ok=True)
    f = os.path.join(tmpd, f"Audit_{name}.lean")
    with open(f, "w") as fh:
        for t in targets:
            fh.write(f"import {t}\n")
        for th in thms:
            fh.write(f"#print axioms {th}\n")
    rc, out = sh(["lake", "env", "lean", f], cwd=LEAN, timeout=1800)
    if rc != 0:
        return 0, ["axiom audit failed to run: " + out[-300:]], {}
    seen = {}
    for m in re.finditer(r"^'(.+)' depends on axioms: \[([^\]]*)\]", out, re.M):
        seen[m.group(1)] = [a.strip() for a in m.group(2).replace("\n", " ").split(",") if a.strip()]
    for m in re.finditer(r"^'(.+)' does not depend on any axioms", out, re.M):
        seen[m.group(1)] = []
    problems, ok = [], 0
    for th in thms:
        ax = seen.get(th)
        if ax is None:
            problems.append(f"audit: no #print axioms output for {th}")
        elif set(ax) - ALLOWED_AXIOMS:
            problems.append(f"audit: {th} depends on disallowed axioms {sorted(set(ax) - ALLOWED_AXIOMS)}")
        else:
            ok += 1
    return ok, problems, seen


def second_tie(prop, tie, evidence):
    """A SECOND tie between code and model, beside the correspondence check: definitions generated from the Python source by a translator
    (tie['translator']) and Lean theorems (tie['targets']) that the generated definitions equal the hand-written model's.  Returns
    'in force' or 'not in force: <why>'.  Not in force is NOT a broken obligation of the property — the property's theorems are about the
    hand-written model, which stays tied to the code by the correspondence check; it makes the check search harder (ctx.boost) and is
    recorded in the evidence."""
    why = None
    rc, out = sh(["/venv/bin/python", os.path.join(HERE, tie["translator"])])
    evidence["second_tie_translator"] = (out.strip().splitlines() or [""])[-1][:200]
    if rc != 0:
        why = f"translator exit {rc} ({'a function uses a construct outside the translated subset' if rc == 3 else 'failed'}): " + evidence["second_tie_translator"]
    thms = []
    if why is None:
        try:
            built, out = lake_build(tie["targets"], 3600)
        except Infrastructure as e:
            built, out = False, str(e)
        if not built:
            errs = [l for l in out.splitlines() if "error" in l][:4]
            why = "the tie theorems no longer check against the regenerated definitions: " + " | ".join(errs)[:600]
    if why is None:
        for t in tie["targets"]:
            thms += props_theorems(t.split(".")[-1])
        ok, problems, _ = axiom_audit(prop + "_tie", tie["targets"], thms)
        for path in lean_sources_for(prop, tie["targets"]):
            m = FORBIDDEN.search(strip_comments(open(path).read()))
            if m:
                problems.append(f"forbidden construct {m.group(0).strip()!r} in {os.path.relpath(path, VERIF)}")
        if problems:
            why = "; ".join(problems)[:600]
    if why is None and tie.get("validate"):
        # the translator is the trusted piece of this tie: the generated definitions are run against the real functions
        rc, out = sh(["/venv/bin/python", os.path.join(HERE, tie["validate"])], timeout=900)
        evidence["second_tie_translator_validation"] = " / ".join(out.strip().splitlines()[-3:])[:300]
        if rc != 0:
            why = "generated definitions and the Python functions disagree (or could not be compared): " + evidence["second_tie_translator_validation"]
    evidence["second_tie"] = {"what": tie["what"], "targets": tie["targets"], "theorems": thms,
                              "status": "in force" if why is None else "not in force: " + why}
    return evidence["second_tie"]["status"], thms


def build_and_audit(prop, mod, ctx, evidence):
    """returns (driver_ok, proofs_ok, broken:list[str])"""
    broken = []
    # 1. translator
    rc, out = sh(["/venv/bin/python", os.path.join(HERE, "translate.py")])
    evidence["translate"] = out.strip().splitlines()[-1] if out.strip() else ""
    if rc != 0:
        if "HarnessUnresolved" in out or "MemoryError" in out or "No space left" in out:
            raise Infrastructure("translator could not observe the code: " + out[-400:])
        broken.append("translator failed: " + out[-400:])
    # 2. driver + model
    driver_ok, out = lake_build(["driver"], 1800)
    if not driver_ok:
        broken.append("lake build driver failed (model no longer compiles against regenerated Generated/*): " + out[-800:])
    # 3. property theorems
    targets = getattr(mod, "LEAN_TARGETS", [f"Verif.Props.{prop}"])
    proofs_ok = True
    thms = []
    for t in targets:
        thms += props_theorems(t.split(".")[-1]) if t.startswith("Verif.Props.") else []
    built, out = lake_build(targets, 3600)
    if not built:
        proofs_ok = False
        errs = [l for l in out.splitlines() if "error" in l][:8]
        broken.append("lake build " + " ".join(targets) + " failed: " + " | ".join(errs))
    obligations = len(thms)
    discharged = 0
    axioms_seen = {}
    if proofs_ok and thms:
        tmpd = os.path.join(LEAN, ".lake", "audit")
        os.makedirs(tmpd, exist_ok=True)
        f = os.path.join(tmpd, f"Audit_{prop}.lean")
        with open(f, "w") as fh:
            for t in targets:
                fh.write(f"import {t}\n")
            for th in thms:
                fh.write(f"#print axioms {th}\n")
        rc, out = sh(["lake", "env", "lean", f], cwd=LEAN, timeout=1800)
        if rc != 0 and "error" not in out:
            rc, out = sh(["lake", "env", "lean", f], cwd=LEAN, timeout=1800)
            if rc != 0 and "error" not in out:
                raise Infrastructure("axiom audit could not run: " + out[-400:])
        if rc != 0:
            proofs_ok = False
            broken.append("axiom audit failed to run: " + out[-400:])
        else:
            for m in re.finditer(r"^'(.+)' depends on axioms: \[([^\]]*)\]", out, re.M):
                axioms_seen[m.group(1)] = [a.strip() for a in m.group(2).replace("\n", " ").split(",") if a.strip()]
            for m in re.finditer(r"^'(.+)' does not depend on any axioms", out, re.M):
                axioms_seen[m.group(1)] = []
            for th in thms:
                ax = axioms_seen.get(th)
                if ax is None:
                    broken.append(f"audit: no #print axioms output for {th}")
                    proofs_ok = False
                elif set(ax) - ALLOWED_AXIOMS:
                    broken.append(f"audit: {th} depends on disallowed axioms {sorted(set(ax) - ALLOWED_AXIOMS)}")
                    proofs_ok = False
                else:
                    discharged += 1
    # 4. forbidden constructs in sources
    for path in lean_sources_for(prop, targets):
        src = strip_comments(open(path).read())
        m = FORBIDDEN.search(src)
        if m:
            broken.append(f"forbidden construct {m.group(0).strip()!r} in {os.path.relpath(path, VERIF)}")
            proofs_ok = False
    ties = getattr(mod, "SECOND_TIE", None)
    ties = [ties] if isinstance(ties, dict) else list(ties or [])
    ctx.second_tie = None
    statuses = []
    for n_tie, tie in enumerate(ties):
        ev_ = {}
        status, tie_thms = second_tie(prop + (f"_{n_tie}" if n_tie else ""), tie, ev_)
        statuses.append(status)
        if n_tie == 0:
            evidence.update(ev_)
        else:
            evidence.setdefault("second_ties_more", []).append(ev_)
        if status == "in force":
            obligations += len(tie_thms)
            discharged += len(tie_thms)
            thms = thms + tie_thms
        else:
            ctx.boost = True
    if statuses:
        bad_ = [s_ for s_ in statuses if s_ != "in force"]
        ctx.second_tie = "in force" if not bad_ else " || ".join(bad_)
    evidence["obligations"] = obligations
    evidence["discharged"] = discharged if proofs_ok else min(discharged, max(obligations - 1, 0))
    evidence["theorems"] = thms
    evidence["axioms"] = sorted({a for v in axioms_seen.values() for a in v})
    return driver_ok, proofs_ok, broken


def leanchecker(targets, evidence, broken):
    rc, out = sh(["lake", "env", "leanchecker"] + targets, cwd=LEAN, timeout=3600)
    if rc != 0:  # once more: a re-checker killed for memory is not a rejection
        rc, out = sh(["lake", "env", "leanchecker"] + targets, cwd=LEAN, timeout=3600)
    evidence["leanchecker"] = "ok" if rc == 0 else "FAILED"
    if rc != 0:
        broken.append("leanchecker rejected the compiled proofs: " + out[-400:])


def main():
    ap = argparse.ArgumentParser()
    ap.add_argument("prop")
    ap.add_argument("--tier", default=os.environ.get("VERIF_TIER", "quick"), choices=["quick", "thorough"])
    ap.add_argument("--replay")
    ap.add_argument("--seed", type=int, default=int(os.environ.get("VERIF_SEED", "0")))
    args = ap.parse_args()
    prop = args.prop
    t0 = time.time()
    try:
        mod = importlib.import_module(f"p_{prop.lower()}")
    except Exception as e:  # noqa: BLE001
        traceback.print_exc()
        print(f"infrastructure: cannot load the check module for {prop}: {type(e).__name__}: {e}")
        return 2
    ctx = Ctx(prop, args.tier, args.seed)

    if args.replay:
        payload = json.load(open(args.replay))
        return mod.replay(ctx, payload)

    cov = {}
    try:
        # one check at a time regenerates Generated/* and builds (concurrent checks would race on the generated files and on .lake)
        import fcntl

        os.makedirs(os.path.join(LEAN, ".lake"), exist_ok=True)
        with open(os.path.join(LEAN, ".lake", "verif-build.lock"), "w") as lock:
            fcntl.flock(lock, fcntl.LOCK_EX)
            driver_ok, proofs_ok, broken = build_and_audit(prop, mod, ctx, cov)
            if args.tier == "thorough" and proofs_ok:
                leanchecker(getattr(mod, "LEAN_TARGETS", [f"Verif.Props.{prop}"]), cov, broken)
        ctx.driver_ok = driver_ok
        report = mod.run(ctx)
    except Infrastructure as e:
        print(f"infrastructure: {e}")
        return 2
    except subprocess.TimeoutExpired as e:
        print(f"infrastructure: timeout {e}")
        return 2
    except Exception:
        traceback.print_exc()
        print("infrastructure failure")
        return 2

    if int(report.get("evaluations", 0) or 0) == 0 and not report.get("violations") and not report.get("disagreements"):
        print("infrastructure: the check evaluated nothing (every generated case was skipped) — no verdict")
        return 2
    known = load_known()
    known_keys = {k["key"]: k for k in known.get("known", []) if k.get("property") == prop}
    exit_code = 0
    lines = []
    n_viol = 0
    seen_known = set()
    new_violations = []
    for v in report.get("violations", []):
        key = v.get("key")
        if key in known_keys:
            if key not in seen_known:
                seen_known.add(key)
                lines.append(f"KNOWN-FINDING: property={prop} {known_keys[key]['what']}")
            continue
        new_violations.append(v)
    for i, v in enumerate(new_violations[:5]):
        path = write_replay(prop, f"violation{i}", v)
        lines.append(f"VIOLATION property={prop} replay={os.path.relpath(path, VERIF)}")
        n_viol += 1
        exit_code = 1
    corr_bad = report.get("disagreements", [])
    if (broken or corr_bad) and not new_violations:
        payload = {
            "property": prop,
            "no_failing_input_found": True,
            "broken_obligations": broken,
            "correspondence_disagreements": corr_bad[:5],
            "note": "a proof obligation or the model/implementation correspondence no longer checks; "
                    "the failing-input search found no concrete violation of the property statement",
        }
        path = write_replay(prop, "unproved", payload)
        lines.append(f"VIOLATION property={prop} replay={os.path.relpath(path, VERIF)} no-failing-input-found")
        n_viol += 1
        exit_code = 1

    wall = time.time() - t0
    level = getattr(mod, "LEVEL", "proof")
    coverage = dict(cov)
    coverage.update({
        "checker_cmd": f"cd lean && lake build {' '.join(getattr(mod, 'LEAN_TARGETS', ['Verif.Props.' + prop]))} && lake env lean .lake/audit/Audit_{prop}.lean  # #print axioms"
                       + (" && lake env leanchecker ..." if args.tier == "thorough" else ""),
        "trusted_base": TRUSTED_BASE + getattr(mod, "EXTRA_TRUST", []),
        "evaluations": int(report.get("evaluations", 0)),
        "distinct_nontrivial": int(report.get("distinct_nontrivial", 0)),
        "rule": report.get("rule", ""),
        "samples": report.get("samples", [])[:8],
        "histogram": report.get("histogram", {}),
        "correspondence_requests": int(report.get("requests", 0)),
        "correspondence_disagreements": len(corr_bad),
        "broken_obligations": broken,
        "known_findings_seen": sorted(seen_known),
        "exhaustive": bool(report.get("exhaustive", False)),
    })
    if report.get("extra"):
        coverage.update(report["extra"])
    ev = {
        "property_id": prop,
        "tier": args.tier,
        "seed": args.seed,
        "level": level,
        "coverage": coverage,
        "assumptions": getattr(mod, "ASSUMPTIONS", []),
        "wall_s": round(wall, 2),
        "violations": n_viol,
    }
    # evidence/ holds only what was measured on /repo itself; an evaluation run against another tree (VERIF_REPO, used by
    # seed_eval.py for seeded changes and refactors) writes its evidence beside the replays, where it is not committed
    evid_dir = "evidence" if os.environ.get("VERIF_REPO", "/repo") == "/repo" else os.path.join("replays", "tmp-eval-evidence")
    os.makedirs(os.path.join(VERIF, evid_dir), exist_ok=True)
    try:
        text = json.dumps(ev, indent=1, sort_keys=True, default=str)
    except Exception:  # noqa: BLE001
        ev["coverage"]["samples"] = []
        ev["coverage"]["histogram"] = {str(k): v for k, v in (coverage.get("histogram") or {}).items()}
        text = json.dumps(ev, indent=1, default=str)
    with open(os.path.join(VERIF, evid_dir, f"{prop}.json"), "w") as fh:
        fh.write(text)
    for l in lines:
        print(l)
    if getattr(ctx, "second_tie", None) and ctx.second_tie != "in force":
        print(f"NOTE property={prop} second tie (definitions translated from the Python source) {ctx.second_tie[:300]} — the property's theorems "
              "stay tied to the code by the correspondence check; the search ran at up to 4x the quick scale")
    print(f"{prop} tier={args.tier} seed={args.seed}: obligations={coverage.get('obligations')} discharged={coverage.get('discharged')} "
          f"evaluations={coverage['evaluations']} disagreements={len(corr_bad)} violations={n_viol} wall={wall:.1f}s")
    return exit_code


if __name__ == "__main__":
    sys.exit(main())
