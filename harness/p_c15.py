"""C15 — the filter parser is total and only accepts what it can faithfully represent."""
from __future__ import annotations

import collections
import json

import codec as C
import drive
import p_filter as PF

LEAN_TARGETS = ["Verif.Props.C15", "Verif.Props.Ties", "Verif.Props.C13More"]
SECOND_TIE = {
    "what": "the recursive-descent parser behind LDAPFilter.from_string (_unpack_filter, _unpack_complex_filter, _unpack_simple_filter, "
            "_unpack_filter_extensible_header, _unpack_filter_substrings_value, from_string itself) translated statement by statement from the Python AST "
            "into Lean (harness/py2lean.py -> Generated/FilterGen.lean) and proved equal to the hand-written model of Model/FilterText.lean "
            "(Props/TiesFilter.lean: same tree, same consumed count, same error offset and length, for all inputs and all sufficient fuel); trusted boundary: "
            "_ATTRIBUTE_PATTERN.match = validAttr (tied by Props/Ties.lean), the re.sub-based _unpack_filter_value = the model's unescape, str.strip / encode",
    "translator": "py2lean.py",
    "targets": ["Verif.Props.TiesFilter", "Verif.Props.TiesFilterStr"],
    "validate": "p_filtergen.py",
}
LEVEL = "proof"
ASSUMPTIONS = [
    "text is a str that from_string can encode: Unicode scalar values and the surrogate-escape code points U+DC80..U+DCFF (which stand for the bytes "
    "0x80..0xFF); any other lone surrogate cannot be encoded to UTF-8 at all (UnicodeEncodeError before parsing starts) and is not text",
    "error offsets/lengths are byte offsets into the UTF-8 encoding of the stripped input (the parser's own coordinate system)",
]


def run(ctx):
    rng = ctx.rng
    texts = list(PF.FIXED_TEXTS)
    base = []
    for _ in range(ctx.scale(250, 8000)):
        t = PF.g_tree(rng, rng.choice([0, 1, 2, 3]))
        base.append(PF.sentence(rng, t, deco=rng.random() < 0.3))
    for s in base:
        texts.append(s)
        for _ in range(ctx.scale(8, 20)):
            texts.append(PF.mutate(rng, s))
    for _ in range(ctx.scale(1500, 50000)):
        texts.append(PF.random_text(rng))
    # error spans are byte coordinates: well-formed filters with multi-byte characters (raw UTF-8 or surrogate-escaped bytes in the value),
    # followed by 1-3 characters of trailing data, or cut short / broken at every position
    wide = ["(cn=日本)", "(cn=é)", "(&(cn=日本語日本語)(sn=ü))", "(cn=" + chr(0x1F600) + "*)", "(o:dn:=日本)", "(cn=" + chr(0xDCE9) + chr(0xDC80) + ")", "(|(a=ÿ)(b~=ñ))"]
    for w in wide:
        for junk in (")", "(", "x", "))", ")(", " x", "=", "(a=b)", "日", ")日"):
            texts.append(w + junk)
            texts.append(" " + w + junk + "\u3000")
        for i in range(len(w)):
            texts.append(w[:i])
            texts.append(w[:i] + ")" + w[i:])
            texts.append(w[:i] + "(" + w[i:])
    # size classes: long values (raw multi-byte text triples in the text form), long attribute option runs, wide lists — a few inputs each
    for n in (300, 8000, 22000, 30000, 70000):
        texts.append("(description=" + "é" * n + ")")
        texts.append("(description=" + "x" * n + ")")
        texts.append("(cn=" + "ab*" * (n // 3) + "c)")
    for n in (200, 600, 3000):
        texts.append("(|" + "(uid=%d)" * n % tuple(range(n)) + ")")
        texts.append("(&(objectClass=*)(|" + "(uid=é%d)" * n % tuple(range(n)) + "))")
        texts.append("(cn" + ";x-%d" * 50 % tuple(range(50)) + "=v)")
    # nesting between what can be printed and what can be parsed (F-C15n): accepted, but str() / == of the result exhaust the stack
    for n in (150, 300, 450):
        for op in "&|!":
            texts.append(("(" + op) * n + "(a=b)" + ")" * n)
    n_model_free = len(texts)
    # numeric OIDs with arcs of more decimal digits than the interpreter's int/str limit (4300 by default, 640 when lowered), valid and with a
    # leading zero, as attribute and as matching rule of every item kind: a filter or FilterSyntaxError, nothing else
    for digits in (641, 4301, 6000):
        arc = "7" * digits
        for oid in ("1.2." + arc, arc + ".1", "1." + arc + ".3", "1.2.0" + arc, "2.5.4." + arc + ";lang-x"):
            texts += ["(" + oid + "=v)", "(" + oid + ">=v)", "(" + oid + "=*)", "(" + oid + "=a*b)", "(cn:" + oid + ":=v)", "(" + oid + ":dn:=v)",
                      "(&(a=b)(" + oid + "~=v))"]
    violations = []
    hist = collections.Counter()
    distinct = set()
    reqs = []
    import sys as _sys
    if hasattr(_sys, "set_int_max_str_digits"):
        # the same long-arc texts once more with the limit an application may have lowered
        _prev = _sys.get_int_max_str_digits()
        _sys.set_int_max_str_digits(640)
        try:
            for t in [x for x in texts if len(x) > 640 and x.count("7") > 640][:60]:
                v, cls = PF.direct_total(t)
                hist["lowered-digit-limit:" + cls] += 1
                violations.extend(v)
        finally:
            _sys.set_int_max_str_digits(_prev)
    for n_, t in enumerate(texts):
        if n_ % 3000 == 1000:
            PF.earlier_failures(rng, hist)       # failed parses in between: a refused text must leave nothing behind
        v, cls = PF.direct_total(t)
        hist[cls] += 1
        violations.extend(v)
        distinct.add(t)
        nest = t.count("(!") + t.count("(&") + t.count("(|")
        if nest <= 100 or nest >= 2000:
            reqs.append({"op": "fparse", "cps": [ord(c) for c in t]})
    # exhaustive sweep: every Unicode scalar value in each kind of description position; anything accepted must be RFC 4512-valid
    templates = ["({c}=x)", "(a{c}=x)", "(a;{c}=x)", "(:{c}:=x)"] if ctx.tier == "thorough" else ["({c}=x)", "(a{c};b{c}=x)"]
    from codec import sansldap as _s
    _FSE = C.FilterSyntaxError
    swept = 0
    for tpl in templates:
        for cp in range(0x110000):
            if 0xD800 <= cp <= 0xDFFF and not (0xDC80 <= cp <= 0xDCFF):
                continue
            t = tpl.replace("{c}", chr(cp))
            swept += 1
            try:
                f = _s.LDAPFilter.from_string(t)
            except _FSE:
                continue
            except BaseException:  # noqa: BLE001
                pass
            v, cls = PF.direct_total(t)
            hist["sweep:" + cls] += 1
            violations.extend(v)
            if cp >= 128:
                reqs.append({"op": "fparse", "cps": [ord(c) for c in t]})
    hist["sweep:inputs"] = swept
    if len(reqs) > ctx.scale(6000, 60000):
        reqs = reqs[: len(PF.FIXED_TEXTS)] + rng.sample(reqs[len(PF.FIXED_TEXTS):], ctx.scale(6000, 60000))
    disagreements = []
    if ctx.driver_ok:
        bad, a, b = drive.correspond(reqs)
        for i, q, x, y in bad[:20]:
            disagreements.append({"request": {"op": "fparse", "text": "".join(chr(c) for c in q["cps"])[:300]}, "impl": x, "model": y})
    return {
        "evaluations": len(texts) + swept,
        "distinct_nontrivial": len(distinct),
        "rule": "fixed corner cases (past failures first), every kind of single-character edit (insert/delete/replace with structural characters, "
                "controls, newline, NUL, Unicode spaces, non-ASCII) of generated RFC 4515 sentences, random text over a structural alphabet, unbalanced and "
                "3000-deep nesting; each input: exception type, error span within the stripped UTF-8 input, and on acceptance RFC 4512 validity of every "
                "attribute/rule plus idempotence of the text form; the same inputs are parsed by the Lean model and results (tree or offset/length) compared; "
                "distinct = distinct input strings",
        "samples": [{"text": texts[len(PF.FIXED_TEXTS) + 3]}, {"text": "(&(="}],
        "histogram": dict(sorted(hist.items())),
        "requests": len(reqs),
        "violations": violations,
        "disagreements": disagreements,
    }


def replay(ctx, payload):
    print(json.dumps(payload, indent=1)[:3000])
    if "text" in payload:
        print("re-run:", PF.direct_total(payload["text"]))
    return 0
