"""Shared machinery for the byte-level receive properties C02, C05, C06: prepared sessions,
valid streams, chunkings, malformed inputs, and the direct property oracles."""
from __future__ import annotations

import copy
import json

import ber
import codec as C
import drive
import gen
import impl as IMPL
from codec import M, sansldap

NOTICE = "1.3.6.1.4.1.1466.20036"


# ------------------------------------------------------------------ prepared sessions

def prep_requests(kind: str, name: str):
    """line-protocol requests that bring a fresh session into a given state"""
    t = C.tx
    if kind == "server_fresh":
        return [{"op": "sess_new", "name": name, "role": "server"}]
    if kind == "server_mid":
        m = {"id": 1, "op": {"k": "extReq", "name": t("1.2.3"), "value": None}, "controls": []}
        data = C.msg_from_json(m).pack(M.PackingOptions())
        return [{"op": "sess_new", "name": name, "role": "server"},
                {"op": "call", "name": name, "call": {"k": "receive", "chunk": data.hex()}}]
    if kind == "server_binding":
        m = {"id": 1, "op": {"k": "bindReq", "version": 3, "name": t(""), "cred": {"k": "simple", "pw": t("")}}, "controls": []}
        data = C.msg_from_json(m).pack(M.PackingOptions())
        return [{"op": "sess_new", "name": name, "role": "server"},
                {"op": "call", "name": name, "call": {"k": "receive", "chunk": data.hex()}}]
    if kind == "server_registered":
        # the application registered the harness's custom control / filter / credential types before any traffic
        return [{"op": "sess_new", "name": name, "role": "server"}] + \
            [{"op": "call", "name": name, "call": {"k": "register", "what": w}} for w in ("control", "filter", "auth")]
    if kind == "client_registered":
        return prep_requests("client_mid", name)[:1] + \
            [{"op": "call", "name": name, "call": {"k": "register", "what": w}} for w in ("control", "filter", "auth")] + prep_requests("client_mid", name)[1:]
    if kind == "client_fresh":
        return [{"op": "sess_new", "name": name, "role": "client"}]
    if kind == "client_mid":
        return [{"op": "sess_new", "name": name, "role": "client"},
                {"op": "call", "name": name, "call": {"k": "extended", "name": t("1.2.3"), "value": None, "controls": []}},
                {"op": "call", "name": name, "call": {"k": "search", "base": t(""), "scope": 2, "deref": 0, "size": 0, "time": 0,
                                                     "typesOnly": False, "filter": None, "attrs": [], "controls": []}},
                {"op": "call", "name": name, "call": {"k": "extended", "name": t("1.2.4"), "value": "00", "controls": []}},
                {"op": "call", "name": name, "call": {"k": "drain", "amount": None}}]
    if kind == "client_pending":
        # as client_mid, but only part of the queued requests has been taken by the transport: output is pending when the next input arrives
        return prep_requests("client_mid", name)[:-1] + [{"op": "call", "name": name, "call": {"k": "drain", "amount": 5}}]
    if kind == "server_pending":
        # two requests received, one answered, the answer not yet taken by the transport
        reqs = prep_requests("server_mid", name)
        m = {"id": 2, "op": {"k": "extReq", "name": t("1.2.4"), "value": "00"}, "controls": []}
        data = C.msg_from_json(m).pack(M.PackingOptions())
        return reqs + [{"op": "call", "name": name, "call": {"k": "receive", "chunk": data.hex()}},
                       {"op": "call", "name": name, "call": {"k": "extendedResponse", "id": 2, "code": 0, "mdn": t(""), "diag": t(""), "refs": None,
                                                            "name": None, "value": None, "controls": []}}]
    raise KeyError(kind)


PREPS = ["server_fresh", "server_mid", "server_binding", "client_fresh", "client_mid", "client_pending", "server_pending"]


def valid_stream(rng, prep):
    """messages the prepared session accepts without error, as JSON"""
    msgs = []
    custom = prep.endswith("_registered")
    if prep.startswith("server"):
        nid = 10
        n = rng.choice([1, 1, 2, 3, 4, 6])
        for _ in range(n):
            kind = rng.choice(["extReq", "searchReq", "searchReq", "extReq"])
            msgs.append({"id": nid, "op": gen.g_op(rng, kind, depth=rng.choice([1, 2, 3]), allow_custom=custom),
                         "controls": gen.g_controls(rng, allow_custom=custom) if not custom or rng.random() < 0.5 else [gen.g_control(rng, True) for _ in range(2)]})
            nid += rng.choice([1, 1, 5])
    elif prep in ("client_mid", "client_registered", "client_pending"):
        # ids 1 (extended), 2 (search), 3 (extended) are outstanding
        seq = []
        for _ in range(rng.choice([0, 1, 2, 4])):
            seq.append((2, rng.choice(["searchEntry", "searchRef"])))
        if rng.random() < 0.6:
            seq.append((2, "searchDone"))
        for i in (1, 3):
            if rng.random() < 0.6:
                seq.insert(rng.randrange(len(seq) + 1), (i, "extResp"))
        if not seq:
            seq = [(1, "extResp")]
        for i, kind in seq:
            op = gen.g_op(rng, kind, depth=1)
            if kind == "extResp" and op.get("name") is not None and C.untx(op["name"]) == NOTICE:
                op["name"] = None
            msgs.append({"id": i, "op": op, "controls": gen.g_controls(rng, allow_custom=custom) if not custom or rng.random() < 0.5
                         else [gen.g_control(rng, True) for _ in range(2)]})
    else:
        msgs = []
    return msgs


def pack_all(msgs):
    return [C.msg_from_json(m).pack(M.PackingOptions()) for m in msgs]


# ------------------------------------------------------------------ feeding the implementation

def fresh(prep):
    im = IMPL.Impl()
    for r in prep_requests(prep, "x"):
        im.handle(r)
    return im, im.sessions["x"]


def feed_impl(prep, chunks, reuse_buffer=False):
    """returns (list of per-call results, session snapshot, returned message objects with their JSON at return time)"""
    import guard

    im, s = fresh(prep)
    results = []
    returned = []
    for n_, ch in enumerate(chunks):
        buf = bytearray(ch)
        try:
            # without buffer reuse the chunk arrives as one of the legal buffer kinds in turn (bytes, memoryview of signed / char / ctypes items, ...)
            arg = buf if reuse_buffer else IMPL.input_object(bytes(ch), IMPL.INPUT_KINDS[(n_ + len(chunks)) % len(IMPL.INPUT_KINDS)])
            ms = guard.guarded(lambda: s.receive(arg), 20.0)
            results.append(("msgs", [C.msg_to_json(m) for m in ms]))
            for m in ms:
                returned.append((m, json.dumps(C.msg_to_json(m), sort_keys=True)))
        except sansldap.ProtocolError as e:
            results.append(("ProtocolError", e.response))
            break
        except BaseException as e:  # noqa: BLE001
            results.append(("Other:" + type(e).__name__, None))
            break
        finally:
            if reuse_buffer:
                for i in range(len(buf)):
                    buf[i] = 0xEE
    return results, im.snapshot(s), returned, s


def all_msgs(results):
    out = []
    for k, v in results:
        if k == "msgs":
            out.extend(v)
    return out


# ------------------------------------------------------------------ malformed inputs

def corrupt_interior(rng, data: bytes):
    """keep the outer envelope complete, damage something inside; returns bytes or None"""
    try:
        top = ber.parse(data)[0]
    except Exception:  # noqa: BLE001
        return None
    nodes = [n for n in top.walk() if n is not top]
    if not nodes:
        return None
    n = rng.choice(nodes)
    how = rng.choice(["overrun", "overrun", "drop", "truncate", "empty", "shrinklen", "tag"])
    if how == "overrun":
        real = len(ber.encode(n)) - len(ber.enc_tag(n.cls, n.cons, n.num)) - len(ber.enc_len(len(n.content) if n.kids is None else len(b"".join(ber.encode(k) for k in n.kids)), n.len_form))
        n.len_override = real + rng.choice([1, 2, 5, 100, 70000])
    elif how == "shrinklen":
        body = len(n.content) if n.kids is None else len(b"".join(ber.encode(k) for k in n.kids))
        if body == 0:
            return None
        n.len_override = rng.randrange(0, body)
    elif how == "drop":
        parents = [p for p in top.walk() if p.kids]
        p = rng.choice(parents)
        p.kids.pop(rng.randrange(len(p.kids)))
    elif how == "truncate":
        if n.kids is None and n.content:
            n.content = n.content[: rng.randrange(len(n.content))]
        else:
            return None
    elif how == "empty":
        n.kids = None
        n.content = b""
    elif how == "tag":
        n.num = rng.choice([n.num + 1, 31, 0, 16, 4]) if rng.random() < 0.7 else n.num
        n.cls = rng.choice([0, 1, 2, 3])
        if rng.random() < 0.3:
            n.cons = not n.cons
    return ber.encode(top)


def reencode_lenforms(rng, data: bytes):
    """same TLV tree, other (valid) length encodings: long forms with leading zeros on random nodes, outer one included"""
    try:
        top = ber.parse(data)[0]
    except Exception:  # noqa: BLE001
        return None
    nodes = list(top.walk())
    for n in rng.sample(nodes, min(len(nodes), rng.choice([1, 1, 2, 3, len(nodes)]))):
        n.len_form = rng.choice([1, 2, 4, 4, 5])
    return ber.encode(top)


BAD_UTF8 = [b"\xff", b"\xe9", b"\xc3\x28", b"\xed\xa0\x80", b"\xf8\x88\x80\x80\x80", b"\xc0\xaf", b"a\x80"]


def corrupt_text(rng, data: bytes):
    """put octets that are not UTF-8 into one primitive element (lengths stay consistent)"""
    try:
        top = ber.parse(data)[0]
    except Exception:  # noqa: BLE001
        return None
    prims = [n for n in top.walk() if n.kids is None and not n.cons]
    if not prims:
        return None
    n = rng.choice(prims)
    bad = rng.choice(BAD_UTF8)
    n.content = rng.choice([bad, n.content + bad, bad + n.content])
    return ber.encode(top)


def corrupt_bytes(rng, data: bytes):
    """single-octet / structural corruption anywhere, outer header included"""
    b = bytearray(data)
    how = rng.choice(["flip", "set", "insert", "delete", "truncate", "lenbyte"])
    i = rng.randrange(len(b))
    if how == "flip":
        b[i] ^= 1 << rng.randrange(8)
    elif how == "set":
        b[i] = rng.choice([0x00, 0x80, 0xFF, 0x1F, 0x30, 0x7F, 0x81, 0x84])
    elif how == "insert":
        b.insert(i, rng.randrange(256))
    elif how == "delete":
        del b[i]
    elif how == "truncate":
        del b[i:]
    else:
        b[1 if len(b) > 1 else 0] = rng.choice([0x80, 0x81, 0x84, 0xFF, 0x00, 0x7F])
    return bytes(b)


def nesting_bomb(kind: str, depth: int) -> bytes:
    def tlv(tag, content):
        return bytes([tag]) + ber.enc_len(len(content)) + content
    f = bytes.fromhex("870161")
    for _ in range(depth):
        f = tlv({"not": 0xA2, "and": 0xA0, "or": 0xA1}[kind], f)
    sr = tlv(4, b"") + tlv(10, b"\0") + tlv(10, b"\0") + tlv(2, b"\0") + tlv(2, b"\0") + tlv(1, b"\0") + f + tlv(0x30, b"")
    return tlv(0x30, tlv(2, b"\x05") + tlv(0x63, sr))


FIXED_BAD = ["308100", "30820000", "308400000000", "3000", "30050201014200", "3006020101428100", "300802010142840000" + "0000", "300602810101" + "4200",
             "300402004200", "30050201016005", "0500", "3080", "30", "3081", "308400000005", "1f", "1f80", "1f2801", "ff",
             "3005020100ff00", "30060201017f0100", "300c02010163070400" + "0a0100" + "ff", "3003020101", "30020500",
             "300702010177020500", "3005020101620000", "30 0a 02 01 01 63 05 04 00 0a 01 09".replace(" ", ""),
             "30 1d 02 01 01 42 00 a0 16 30 14 04 12 31 2e 32 2e 38 34 30 2e 31 31 33 35 35 36 2e 31 2e 34 2e 33 31".replace(" ", "")]


def paged_without_value() -> bytes:
    m = M.UnbindRequest(message_id=1, controls=[sansldap.LDAPControl("1.2.840.113556.1.4.319", False, None)])
    return m.pack(M.PackingOptions())


# ------------------------------------------------------------------ correspondence helper

def history_requests(prep, name, chunks):
    reqs = [dict(r, name=name) if "name" in r else r for r in copy.deepcopy(prep_requests(prep, name))]
    for ch in chunks:
        reqs.append({"op": "call", "name": name, "call": {"k": "receive", "chunk": bytes(ch).hex()}})
    reqs.append({"op": "sess_del", "name": name})
    return reqs


# ------------------------------------------------------------------ the same ARGUMENT OBJECTS handed to several sends (implementation only)

def reused_argument_histories(rng, count, hist):
    """A session sends several messages built from the SAME argument objects (one PartialAttribute, one controls list, one filter tree, one
    list of URIs), which the caller edits in place between the sends, with drains in between.  Expected: every accepted send puts the encoding
    of the argument values AT THAT CALL on the wire — the drained stream is the concatenation of the harness's own BER encodings of them."""
    import mutate
    import p_c04

    out = []
    fr = p_c04.Freedom(rng, on=False)

    def enc(m):
        node, _ = p_c04.msg_tree(m, fr)
        return ber.encode(node)

    t = C.tx
    for n in range(count):
        role = rng.choice(["client", "server"])
        log = []
        expected = b""
        drained = b""
        try:
            if role == "server":
                s = sansldap.LDAPServer()
                for i in (1, 2):
                    s.receive(enc({"id": i, "op": {"k": "searchReq", "base": t(""), "scope": 2, "deref": 0, "size": 0, "time": 0, "typesOnly": False,
                                                   "filter": {"k": "present", "a": t("cn")}, "attrs": []}, "controls": []}))
                attr = M.PartialAttribute("cn", [rng.choice([b"x", b"", b"\xff\x00"]) for _ in range(rng.choice([1, 2, 3]))])
                attrs = [attr] + ([M.PartialAttribute("sn", [b"y"])] if rng.random() < 0.5 else [])
                ctrls = [C.control_from_json(gen.g_control(rng)) for _ in range(rng.choice([0, 1, 2]))]
                uris = [rng.choice(["ldap://a", "ldap://b/dc=x"]) for _ in range(rng.choice([1, 2]))]
                for step in range(rng.choice([2, 3, 4, 5])):
                    i = rng.choice([1, 2])
                    if rng.random() < 0.7:
                        s.search_result_entry(i, "cn=x", attrs, ctrls)
                        m = {"id": i, "op": {"k": "searchEntry", "name": t("cn=x"), "attrs": [{"name": t(a.name), "vals": [bytes(v).hex() for v in a.values]}
                                                                                             for a in attrs]},
                             "controls": [C.control_to_json(c) for c in ctrls]}
                    else:
                        s.search_result_reference(i, uris, ctrls)
                        m = {"id": i, "op": {"k": "searchRef", "uris": [t(u) for u in uris]}, "controls": [C.control_to_json(c) for c in ctrls]}
                    expected += enc(m)
                    log.append(("send", m))
                    if rng.random() < 0.4:
                        drained += s.data_to_send(rng.choice([None, 1, 7, 10 ** 6]))
                    # the caller edits ITS objects in place
                    k = mutate.edit_lists(attrs, rng) + mutate.edit_lists(uris, rng) + (mutate.edit_lists(ctrls, rng) if ctrls else 0)
                    if rng.random() < 0.5:
                        attr.values.append(rng.choice([b"z", b"", b"later"]))
                        k += 1
                    log.append(("edit-in-place", k))
            else:
                s = sansldap.LDAPClient()
                f = C.filter_from_json(gen.g_filter(rng, 3) if hasattr(gen, "g_filter") else {"k": "and", "fs": [{"k": "present", "a": t("cn")}]})
                if not mutate.lists_of(f):
                    f = sansldap.FilterAnd([f, sansldap.FilterPresent("cn")])
                wanted = [rng.choice(["cn", "sn", "1.1", "*"]) for _ in range(rng.choice([1, 2]))]
                ctrls = [C.control_from_json(gen.g_control(rng)) for _ in range(rng.choice([0, 1, 2]))]
                for step in range(rng.choice([2, 3, 4])):
                    i = s.search_request("dc=x", filter=f, attributes=wanted, controls=ctrls)
                    m = {"id": i, "op": {"k": "searchReq", "base": t("dc=x"), "scope": 2, "deref": 0, "size": 0, "time": 0, "typesOnly": False,
                                         "filter": C.filter_to_json(f), "attrs": [t(a) for a in wanted]}, "controls": [C.control_to_json(c) for c in ctrls]}
                    expected += enc(m)
                    log.append(("send", m))
                    if rng.random() < 0.4:
                        drained += s.data_to_send(rng.choice([None, 1, 7, 10 ** 6]))
                    k = mutate.edit_lists(f, rng) + mutate.edit_lists(wanted, rng) + (mutate.edit_lists(ctrls, rng) if ctrls else 0)
                    log.append(("edit-in-place", k))
            drained += s.data_to_send()
        except BaseException as e:  # noqa: BLE001
            hist["reused-arguments:" + type(e).__name__] += 1
            continue
        hist["reused-arguments:sessions"] += 1
        if drained != expected:
            out.append({"key": None, "what": "the drained stream is not the concatenation of the encodings of the messages as they were AT EACH CALL: the same "
                        "argument objects (attribute / controls / filter / URI lists) were handed to several sends and edited in place in between",
                        "role": role, "log": log, "drained": drained.hex(), "expected": expected.hex()})
            if len(out) >= 5:
                break
    return out


# ------------------------------------------------------------------ a LARGE backlog of pending output (implementation only)

def large_backlog_histories(rng, count, hist):
    """Tens of KiB to a few MiB of output queued on one session before the transport takes any of it (a slow peer), then partial drains of
    explicit amounts interleaved with further sends.  Expected: whatever the library does about large backlogs, the drained stream is the
    concatenation of the harness's own encodings of the accepted sends, in call order."""
    import p_c04

    out = []
    fr = p_c04.Freedom(rng, on=False)

    def enc(m):
        node, _ = p_c04.msg_tree(m, fr)
        return ber.encode(node)

    t = C.tx
    for n in range(count):
        role = rng.choice(["server", "server", "client"])
        expected, drained, log = b"", b"", []
        try:
            if role == "server":
                s = sansldap.LDAPServer()
                s.receive(enc({"id": 1, "op": {"k": "searchReq", "base": t(""), "scope": 2, "deref": 0, "size": 0, "time": 0, "typesOnly": False,
                                               "filter": {"k": "present", "a": t("cn")}, "attrs": []}, "controls": []}))
            else:
                s = sansldap.LDAPClient()
            seq = 0

            def send(size):
                nonlocal expected, seq
                seq += 1
                val = bytes([seq % 251]) * size
                if role == "server":
                    s.search_result_entry(1, "cn=%d" % seq, [M.PartialAttribute("photo", [val])])
                    m = {"id": 1, "op": {"k": "searchEntry", "name": t("cn=%d" % seq), "attrs": [{"name": t("photo"), "vals": [val.hex()]}]}, "controls": []}
                else:
                    i = s.extended_request("1.2.3", val)
                    m = {"id": i, "op": {"k": "extReq", "name": t("1.2.3"), "value": val.hex()}, "controls": []}
                expected += enc(m)

            total = rng.choice([40_000, 66_000, 90_000, 140_000, 300_000, 1_100_000])
            piece = rng.choice([1024, 1024, 4000, 20_000])
            while len(expected) < total:
                send(piece)
            log.append(("queued", len(expected)))
            for _ in range(rng.choice([2, 4, 8])):
                amount = rng.choice([1, 100, 16384, 16384, 65535, 65536, 65537, len(expected) - len(drained) - 1, 30_000])
                drained += s.data_to_send(amount)
                log.append(("drain", amount))
                for _k in range(rng.choice([0, 1, 2])):
                    send(rng.choice([10, 1024, 70_000]))
                    log.append(("send", seq))
            drained += s.data_to_send()
        except BaseException as e:  # noqa: BLE001
            hist["large-backlog:" + type(e).__name__] += 1
            continue
        hist["large-backlog:sessions"] += 1
        if drained != expected:
            k = next((i for i in range(min(len(drained), len(expected))) if drained[i] != expected[i]), min(len(drained), len(expected)))
            out.append({"key": None, "what": "with a large backlog of pending output and partial drains, the drained stream is not the concatenation of the "
                        "encodings of the accepted sends in call order (lost, repeated or REORDERED)", "role": role, "log": log, "bytes_expected": len(expected),
                        "bytes_drained": len(drained), "first_difference_at": k, "expected_there": expected[k: k + 24].hex(), "drained_there": drained[k: k + 24].hex()})
            if len(out) >= 5:
                break
    return out


# ------------------------------------------------------------------ sends whose PACKING fails (implementation only)

UNENCODABLE = ["1.2.\ud800", "\udfff", "cn=\udc80x", "a\udcffb"]


def failed_pack_histories(rng, count, hist):
    """Two sessions make successful sends interleaved with sends whose packing must fail (a str argument that UTF-8 cannot encode) and drains
    of arbitrary amounts.  Expected: a failed call queues nothing, on its own session or any other — the drained stream of each session is the
    concatenation of the encodings (built by the harness's own BER encoder, not by the library) of exactly its successful sends."""
    import p_c04

    out = []
    fr = p_c04.Freedom(rng, on=False)

    def enc(m):
        node, _ = p_c04.msg_tree(m, fr)
        return ber.encode(node)

    t = C.tx
    for n in range(count):
        role = rng.choice(["client", "client", "server"])
        sess, expected, drained, log = {}, {}, {}, []
        for who in "AB":
            s = sansldap.LDAPClient() if role == "client" else sansldap.LDAPServer()
            if role == "server":
                for i in (1, 2, 3):
                    s.receive(enc({"id": i, "op": {"k": "extReq", "name": t("1.2"), "value": None}, "controls": []}))
            sess[who], expected[who], drained[who] = s, b"", b""
        for _ in range(rng.choice([3, 4, 6, 8])):
            who = rng.choice("AB")
            s = sess[who]
            r = rng.random()
            try:
                if r < 0.35:
                    bad = rng.choice(UNENCODABLE)
                    log.append((who, "failing-send", bad.encode("utf-8", "surrogatepass").hex()))
                    if role == "client":
                        k = rng.choice([0, 1, 2])
                        (s.extended_request(bad) if k == 0 else s.search_request(bad) if k == 1 else s.bind_simple(bad, "pw"))
                    else:
                        s.extended_response(rng.choice([1, 2, 3]), diagnostics_message=bad)
                    hist["failed-pack:accepted"] += 1       # (an implementation may also accept it; then nothing is expected of this step)
                    expected[who] = None
                elif r < 0.8:
                    v = rng.choice([None, b"", b"\x00\xff"])
                    if role == "client":
                        i = s.extended_request("1.2.3", v)
                        m = {"id": i, "op": {"k": "extReq", "name": t("1.2.3"), "value": None if v is None else v.hex()}, "controls": []}
                    else:
                        i = rng.choice([1, 2, 3])
                        s.extended_response(i, value=v)
                        m = {"id": i, "op": {"k": "extResp", "res": {"code": 0, "mdn": t(""), "diag": t(""), "refs": []}, "name": None,
                                             "value": None if v is None else v.hex()}, "controls": []}
                    log.append((who, "send", m["id"]))
                    if expected[who] is not None:
                        expected[who] += enc(m)
                else:
                    amount = rng.choice([None, 0, 1, 5, 10 ** 6])
                    drained[who] += s.data_to_send(amount)
                    log.append((who, "drain", amount))
            except sansldap.LDAPError:
                log.append((who, "refused", None))
            except Exception as e:  # noqa: BLE001
                log.append((who, "raised", type(e).__name__))
                hist["failed-pack:" + type(e).__name__] += 1
        for who in "AB":
            drained[who] += sess[who].data_to_send()
            hist["failed-pack:sessions"] += 1
            if expected[who] is not None and drained[who] != expected[who]:
                out.append({"key": None, "what": "the drained stream is not the concatenation of the encodings of the successful sends after a send whose "
                            "packing failed (bytes of a failed send reached the wire, possibly of another session)", "role": role, "session": who,
                            "steps": log, "drained": drained[who].hex(), "expected": expected[who].hex()})
        if len(out) >= 5:
            break
    return out
