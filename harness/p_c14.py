"""C14 — filter text is parsed as RFC 4515 defines it."""
from __future__ import annotations

import collections
import json

import codec as C
import drive
import p_filter as PF
from codec import sansldap, M

LEAN_TARGETS = ["Verif.Props.C14", "Verif.Props.Ties"]
SECOND_TIE = {
    "what": "the recursive-descent parser behind LDAPFilter.from_string (_unpack_filter, _unpack_complex_filter, _unpack_simple_filter, "
            "_unpack_filter_extensible_header, _unpack_filter_substrings_value, from_string itself) translated statement by statement from the Python AST "
            "into Lean (harness/py2lean.py -> Generated/FilterGen.lean) and proved equal to the hand-written model of Model/FilterText.lean "
            "(Props/TiesFilter.lean: same tree, same consumed count, same error offset and length, for all inputs and all sufficient fuel); trusted boundary: "
            "_ATTRIBUTE_PATTERN.match = validAttr (tied by Props/Ties.lean), the re.sub-based _unpack_filter_value = the model's unescape, str.strip / encode",
    "translator": "py2lean.py",
    "targets": ["Verif.Props.TiesFilter", "Verif.Props.TiesFilterStr"],
    "validate": "p_filtergen.py",
}
LEVEL = "proof"
ASSUMPTIONS = [
    "the reference is a generator that walks the RFC 4515 productions (plus the documented tolerated spaces) from a tree, so every "
    "sentence comes with the tree it denotes; substring components are non-empty (RFC 4517 §3.3.30)",
]


def direct(tree, text):
    try:
        got = sansldap.LDAPFilter.from_string(text)
    except BaseException as e:  # noqa: BLE001
        return {"key": None, "what": f"an RFC 4515 sentence is rejected: {type(e).__name__}: {e}"[:200], "text": text, "tree": tree}
    gj = C.filter_to_json(got)
    if gj != tree:
        return {"key": None, "what": "the parser returns a different tree than the grammar denotes", "text": text, "tree": tree, "parsed": gj}
    return None


def run(ctx):
    rng = ctx.rng
    n = ctx.scale(3000, 200000)
    cases = []
    for _ in range(n):
        t = PF.g_tree(rng, rng.choice([0, 1, 2, 3, 4, 6]))
        s = PF.outer_spaces(rng, PF.sentence(rng, t, deco=rng.random() < 0.5))
        cases.append((t, s))
    # deep nesting within the interpreter stack
    for d in (50, 100):
        t = {"k": "eq", "a": C.tx("a"), "v": b"b".hex()}
        for _ in range(d):
            t = {"k": "not", "f": t}
        cases.append((t, PF.sentence(rng, t, deco=False)))
    # wide at a shallow depth: many alternatives in one list (bulk lookups), and lists of lists
    for width in (64, 600, 2500):
        leaf = lambda i: {"k": "eq", "a": C.tx("uid"), "v": str(i).encode().hex()}
        t = {"k": "or", "fs": [leaf(i) for i in range(width)]}
        cases.append((t, PF.sentence(rng, t, deco=False)))
        t = {"k": "and", "fs": [{"k": "present", "a": C.tx("objectClass")}, {"k": "or", "fs": [leaf(i) for i in range(width)]}]}
        cases.append((t, PF.sentence(rng, t, deco=True)))
    violations = []
    hist = collections.Counter()
    shapes = set()
    reqs = []
    enc_reqs = []
    for n_, (t, s) in enumerate(cases):
        if n_ % 400 == 200:
            PF.earlier_failures(rng, hist)       # failed parses in between: a refused text must leave nothing behind
        hist[t["k"]] += 1
        hist["spaces" if "  " in s or s != s.strip() or "( " in s else "plain"] += 1
        hist["escapes:upper" if any(c in s for c in ("\\2A", "\\5C", "\\C3")) else "escapes:other"] += 1
        shapes.add((PF.tree_shape(t), " " in s, "\\" in s))
        v = direct(t, s)
        if v:
            violations.append(v)
    sub = cases[:: max(1, len(cases) // ctx.scale(2500, 30000))] + cases[-2:]
    for t, s in sub:
        reqs.append({"op": "fparse", "cps": [ord(c) for c in s]})
    # "the bytes it then encodes for a search request are the RFC 4511 encoding of that tree":
    # pack a SearchRequest carrying the parsed filter and read it back with the strict decoder
    strict = []
    for t, s in sub[: ctx.scale(800, 8000)]:
        try:
            f = sansldap.LDAPFilter.from_string(s)
        except BaseException:  # noqa: BLE001
            continue
        m = M.SearchRequest(message_id=1, controls=[], base_object="", scope=M.SearchScope.SUBTREE, deref_aliases=M.DereferencingPolicy.NEVER,
                            size_limit=0, time_limit=0, types_only=False, filter=f, attributes=[])
        strict.append((t, s, m.pack(M.PackingOptions())))
        enc_reqs.append({"op": "rfcdec", "hex": strict[-1][2].hex()})
    disagreements = []
    if ctx.driver_ok:
        bad, a, b = drive.correspond(reqs)
        for i, q, x, y in bad[:20]:
            disagreements.append({"request": q, "impl": x, "model": y})
        reps = drive.run_model(enc_reqs)
        for (t, s, data), rep in zip(strict, reps):
            if "ok" not in rep or rep["ok"]["op"].get("filter") != t:
                violations.append({"key": None, "what": "search request bytes for the parsed filter are not the RFC 4511 encoding of the denoted tree",
                                   "text": s, "tree": t, "hex": data.hex(), "strict_decoder": rep})
    return {
        "evaluations": len(cases),
        "distinct_nontrivial": len(shapes),
        "rule": "sentences generated by walking the RFC 4515 productions from RFC-valid trees with random choices (hex case, raw vs escaped octets, "
                "raw UTF-8, empty values, options, OIDs, dn in any case, tolerated spaces, depth ≤ 100); each must parse to its tree; a sample is replayed "
                "on the Lean model and its SearchRequest encoding is read back by the strict RFC 4511 decoder; distinct = (tree shape, has spaces, has escapes)",
        "samples": [{"tree": cases[5][0], "sentence": cases[5][1]}],
        "histogram": dict(sorted(hist.items())),
        "requests": len(reqs) + len(enc_reqs),
        "violations": violations,
        "disagreements": disagreements,
    }


def replay(ctx, payload):
    print(json.dumps(payload, indent=1)[:3000])
    if "text" in payload and "tree" in payload:
        print("re-run:", direct(payload["tree"], payload["text"]))
    return 0
