#!/usr/bin/env python3
"""py2lean_session: syntax-directed translation of the session bookkeeping of sansldap/_session.py to Lean 4.

Usage:  /venv/bin/python harness/py2lean_session.py [--check] [--out FILE] [--src FILE] [--messages FILE]
        env VERIF_REPO (default /repo): reads $VERIF_REPO/src/sansldap/_session.py and .../_messages.py

The sources are only PARSED (module `ast`); the library is neither imported nor executed.
Output: lean/Verif/Generated/SessionGen.lean (namespace Verif.SessionGen), rewritten on every run.
Exit codes: 0 every requested method translated; 3 at least one method is outside the subset (for it, and
for every method that calls it, a stub `def <name>_untranslated : String := "<reason>"` is emitted); 1 with
--check when the file on disk differs from what would be generated; 2 a crash (Python traceback).

Scheme (details: design_notes/py2lean_session.md).
  * The instance fields (read from the `self.x = ...` statements of the `__init__` methods) become the
    structure `St`; `_packing_options` is opaque (encoding is abstract) and dropped.
  * A method `C.m(self, a, ..) -> T` becomes `def C_m (self : St) (a : A) .. : Res St T`, where
    `Res St T = Except Exc T × St`: outcome and fields on leaving.  `self.x = e` is a record update of the
    (shadowed) variable `self`; `raise E(..)` is `(.error E, self)`; `return e` is `(.ok e, self)`.
  * Dynamic dispatch is resolved statically by SPECIALISATION: every method is translated once per concrete
    class (`LDAPClient`, `LDAPServer`) of `self`; `self.m(..)` resolves along that class' MRO, `super().m(..)`
    to the next definition after the defining class.  A base-class method without any `self.m()` call is
    emitted once (`LDAPSession_data_to_send`); otherwise `LDAPClient_LDAPSession_receive` etc.
  * A call that can raise is `Res.bind (call) fun result self => rest`.
  * `if`: (1) a branch that always leaves gets no continuation; (2) an `if` whose branches only assign
    becomes a value-level `if` over the assigned variables (`self` included); (3) otherwise the rest of the
    block is copied into every branch that can fall through.  `if x is None:` on an Optional is a `match`.
  * `for v in xs:` becomes a structurally recursive function over the list carrying `self`.
  * `try/except`: `Res.tryCatch body (fun e self => match e with <one arm per clause> | e => re-raise) rest`.
  * A statement mentioning `ASN1Reader` / `unpack_ldap_message` is ABSTRACTED: the generated function takes a
    parameter `abs<k> : Abstracted (types of the variables/fields the statement assigns)`.
  * f-strings and everything only used for exception texts are dropped; `str(e)` of a caught exception is
    the parameter `exc_text`.
"""
from __future__ import annotations

import ast
import os
import sys

HERE = os.path.dirname(os.path.abspath(__file__))
DEFAULT_OUT = os.path.join(HERE, "..", "lean", "Verif", "Generated", "SessionGen.lean")

# entry points: (class, method); callees are pulled in on demand
TARGETS = [
    ("LDAPClient", "__init__"), ("LDAPServer", "__init__"),
    ("LDAPClient", "data_to_send"), ("LDAPServer", "data_to_send"),
    ("LDAPClient", "_send"), ("LDAPServer", "_send"),
    ("LDAPClient", "unbind"), ("LDAPServer", "unbind"),
    ("LDAPClient", "_process_incoming_message"), ("LDAPServer", "_process_incoming_message"),
    ("LDAPClient", "receive"), ("LDAPServer", "receive"),
    ("LDAPClient", "bind"), ("LDAPClient", "bind_simple"), ("LDAPClient", "bind_sasl"),
    ("LDAPClient", "extended_request"), ("LDAPClient", "search_request"),
    ("LDAPServer", "bind_response"), ("LDAPServer", "extended_response"),
    ("LDAPServer", "search_result_entry"), ("LDAPServer", "search_result_reference"),
    ("LDAPServer", "search_result_done"),
]
CONCRETE = ["LDAPClient", "LDAPServer"]
OPAQUE_FIELDS = {"_packing_options"}
OPAQUE_NAMES = {"ASN1Reader", "unpack_ldap_message"}

# Python message class -> (constructor of the model's `Op`, dataclass fields in constructor order)
MSG_CTOR = {
    "BindRequest": ("bindReq", ["version", "name", "authentication"]),
    "BindResponse": ("bindResp", ["result", "server_sasl_creds"]),
    "UnbindRequest": ("unbind", []),
    "SearchRequest": ("searchReq", ["base_object", "scope", "deref_aliases", "size_limit", "time_limit",
                                    "types_only", "filter", "attributes"]),
    "SearchResultEntry": ("searchEntry", ["object_name", "attributes"]),
    "SearchResultDone": ("searchDone", ["result"]),
    "SearchResultReference": ("searchRef", ["uris"]),
    "ExtendedRequest": ("extReq", ["name", "value"]),
    "ExtendedResponse": ("extResp", ["result", "name", "value"]),
}
# other value constructors: class -> (lean constructor prefix, fields with their types)
VALUE_CTOR = {
    "LDAPResult": ("LdapResult.mk", [("result_code", "int"), ("matched_dn", "str"),
                                     ("diagnostics_message", "str"), ("referrals", ("opt", ("list", "str")))],
                   "result"),
    "SimpleCredential": ("Cred.simple", [("password", "str")], "cred"),
    "SaslCredential": ("Cred.sasl", [("mechanism", "str"), ("credentials", ("opt", "bytes"))], "cred"),
    "FilterPresent": ("Filter.present", [("attribute", "str")], "filter"),
}
# attribute of a message object, usable under an isinstance guard: (class, attr) -> (lean fn, type)
MSG_ATTR = {
    ("ExtendedResponse", "name"): ("extRespName", ("opt", "str")),
    ("ExtendedResponse", "result"): ("msgResult", "result"),
    ("BindResponse", "result"): ("msgResult", "result"),
    ("SearchResultDone", "result"): ("msgResult", "result"),
}
OPTMSG_ATTR = {("ExtendedResponse", "name"): ("extRespNameOpt", ("opt", "str"))}
RESULT_ATTR = {"result_code": ("code", "int"), "matched_dn": ("matchedDn", "str"),
               "diagnostics_message": ("diag", "str"), "referrals": ("referrals", ("opt", ("list", "str")))}
BUILTIN_EXC = {"ValueError": "valueError", "NotImplementedError": "notImplementedError",
               "RecursionError": "recursionError", "KeyError": "keyError"}

LEAN_KEYWORDS = {
    "end", "at", "from", "fun", "open", "in", "do", "then", "else", "match", "with", "let", "have",
    "show", "by", "if", "instance", "structure", "class", "where", "def", "theorem", "namespace",
    "section", "import", "return", "for", "unless", "mut", "try", "catch", "finally", "using", "this",
    "Type", "Prop", "Sort", "deriving", "extends", "export", "local", "private", "protected", "partial",
    "unsafe", "macro", "syntax", "notation", "universe", "variable", "abbrev", "axiom", "example",
    "inductive", "mutual", "infix", "prefix", "postfix", "calc", "nomatch", "nofun", "exists", "forall",
}


class Unsupported(Exception):
    def __init__(self, node, msg):
        line = getattr(node, "lineno", "?")
        super().__init__(f"line {line}: {msg}")


def lname(py: str) -> str:
    n = py.lstrip("_") or py
    if n in LEAN_KEYWORDS:
        n += "_py"
    return n


def lean_type(ty) -> str:
    simple = {"int": "Int", "bool": "Bool", "bytes": "List Nat", "str": "List Nat", "none": "Unit",
              "msg": "Msg", "control": "Control", "filter": "Filter", "cred": "Cred", "result": "LdapResult",
              "attr": "(List Nat × List (List Nat))", "state": "SessionState", "optmsg": "Option Msg",
              "reader": "List Nat"}
    if isinstance(ty, str):
        if ty in simple:
            return simple[ty]
    elif ty[0] == "opt":
        return f"Option {atom(lean_type(ty[1]))}"
    elif ty[0] == "list":
        return f"List {atom(lean_type(ty[1]))}"
    elif ty[0] == "set":
        return "List Int"
    elif ty[0] == "tuple":
        return " × ".join(atom(lean_type(x)) for x in ty[1])
    raise ValueError(f"no Lean type for {ty!r}")


def wrapped(s: str) -> bool:
    """is the whole of s enclosed by one matching pair of brackets"""
    if not s or s[0] not in "([⟨{":
        return False
    depth = 0
    for i, ch in enumerate(s):
        if ch in "([⟨{":
            depth += 1
        elif ch in ")]⟩}":
            depth -= 1
            if depth == 0:
                return i == len(s) - 1
    return False


def atom(s: str) -> str:
    return f"({s})" if ((" " in s or s.startswith("!")) and not wrapped(s)) else s


def bytes_lit(s: str) -> str:
    return "[" + ", ".join(str(b) for b in s.encode("utf-8")) + "]"


def paren(lines):
    if len(lines) == 1:
        return ["(" + lines[0] + ")"]
    return ["(" + lines[0]] + lines[1:-1] + [lines[-1] + ")"]


def ind(lines, n=2):
    return [" " * n + ln for ln in lines]


# ---------------------------------------------------------------------------------------------------
# facts read from the two modules


class Facts:
    def __init__(self, session_tree: ast.Module, messages_tree: ast.Module):
        self.classes: dict[str, ast.ClassDef] = {}
        self.msg_bases: dict[str, list[str]] = {}
        self.msg_fields: dict[str, list[str]] = {}
        self.int_enums: dict[str, list[tuple[str, int]]] = {}
        self.int_enum_open: set[str] = set()
        self.str_enums: dict[str, list[tuple[str, str]]] = {}
        self.auto_enums: dict[str, list[str]] = {}
        self.exc_bases: dict[str, str] = {}
        self.exc_fields: dict[str, list[str]] = {}
        for node in messages_tree.body:
            if isinstance(node, ast.ClassDef):
                bases = [ast.unparse(b) for b in node.bases]
                if any(b in ("enum.IntEnum", "IntEnum") for b in bases):
                    self.read_int_enum(node)
                else:
                    self.msg_bases[node.name] = bases
                    self.msg_fields[node.name] = [
                        st.target.id for st in node.body
                        if isinstance(st, ast.AnnAssign) and isinstance(st.target, ast.Name)
                        and not (isinstance(st.value, ast.Call) and "init=False" in ast.unparse(st.value))]
        for node in session_tree.body:
            if not isinstance(node, ast.ClassDef):
                continue
            bases = [ast.unparse(b) for b in node.bases]
            if bases == ["str", "enum.Enum"]:
                self.str_enums[node.name] = [
                    (st.targets[0].id, st.value.value) for st in node.body
                    if isinstance(st, ast.Assign) and isinstance(st.value, ast.Constant)
                    and isinstance(st.value.value, str)]
            elif bases == ["enum.Enum"]:
                members = []
                for st in node.body:
                    if isinstance(st, ast.Assign):
                        if ast.unparse(st.value) != "enum.auto()":
                            raise Unsupported(st, "enum member that is not enum.auto()")
                        members.append(st.targets[0].id)
                self.auto_enums[node.name] = members
            elif bases and (bases[0] == "Exception" or bases[0] in self.exc_bases):
                self.exc_bases[node.name] = bases[0]
                fields = list(self.exc_fields.get(bases[0], []))
                for st in node.body:
                    if isinstance(st, ast.FunctionDef) and st.name == "__init__":
                        args = [a.arg for a in st.args.args[2:]]     # self, msg, then the attributes
                        stored = {ast.unparse(s.targets[0]) for s in st.body
                                  if isinstance(s, ast.Assign) and ast.unparse(s.value) in args}
                        for a in args:
                            if f"self.{a}" not in stored:
                                raise Unsupported(st, f"exception attribute {a} is not stored as self.{a}")
                        fields = args
                self.exc_fields[node.name] = fields
            else:
                self.classes[node.name] = node

    def read_int_enum(self, node):
        members = []
        for st in node.body:
            if (isinstance(st, ast.Assign) and len(st.targets) == 1 and isinstance(st.targets[0], ast.Name)
                    and isinstance(st.value, ast.Constant) and isinstance(st.value.value, int)):
                members.append((st.targets[0].id, st.value.value))
            elif isinstance(st, ast.FunctionDef) and st.name == "_missing_":
                self.int_enum_open.add(node.name)
        self.int_enums[node.name] = members

    def concrete_subclasses(self, marker: str) -> list[str]:
        return [c for c in MSG_CTOR if marker in self.msg_bases.get(c, [])]

    def mro(self, cls: str) -> list[str]:
        out = [cls]
        node = self.classes[cls]
        for b in node.bases:
            bn = ast.unparse(b)
            if bn in self.classes:
                out += self.mro(bn)
        return out

    def find_method(self, cls_chain: list[str], name: str):
        for c in cls_chain:
            for st in self.classes[c].body:
                if isinstance(st, ast.FunctionDef) and st.name == name:
                    return c, st
        return None

    def has_self_call(self, fn: ast.FunctionDef) -> bool:
        for n in ast.walk(fn):
            if isinstance(n, ast.Call) and isinstance(n.func, ast.Attribute):
                v = n.func.value
                if isinstance(v, ast.Name) and v.id == "self":
                    return True
                if isinstance(v, ast.Call) and ast.unparse(v) == "super()":
                    return True
        return False


# ---------------------------------------------------------------------------------------------------


class Env:
    def __init__(self):
        self.vars: dict[str, object] = {}      # python local -> type
        self.facts: set[tuple[str, str]] = set()   # (expression text, message class) known isinstance
        self.dropped: set[str] = set()          # str-valued locals that only feed exception texts
        self.dead: set[str] = set()             # message locals handed to a method that mutates them
        self.exc: dict[str, tuple[str, list[str]]] = {}   # caught exception variable -> (class, fields)
        self.reader_src: dict[str, str] = {}    # ASN1Reader local -> the bytearray FIELD it views (if any)

    def copy(self):
        e = Env()
        e.vars = dict(self.vars)
        e.facts = set(self.facts)
        e.dropped = set(self.dropped)
        e.dead = set(self.dead)
        e.exc = dict(self.exc)
        e.reader_src = dict(self.reader_src)
        return e


class FnInfo:
    def __init__(self, name, params, ret, extras, mutates):
        self.name = name          # lean name
        self.params = params      # [(py name, type, default ast or None)]
        self.ret = ret
        self.extras = extras      # [(lean name, lean type)] extra (oracle) parameters
        self.mutates = mutates    # indices of message parameters whose message_id is overwritten


class Translator:
    def __init__(self, facts: Facts):
        self.f = facts
        self.fields: dict[str, object] = {}     # python field name -> type
        self.field_order: list[str] = []
        self.done: dict[tuple[str, str, str], object] = {}   # (selfcls, defcls, method) -> FnInfo | str(reason)
        self.out_defs: list[list[str]] = []
        self.emitted_names: set[str] = set()
        self.failed = False
        self.discover_fields()

    # -- fields -------------------------------------------------------------------------------------
    def discover_fields(self):
        for cname, cls in self.f.classes.items():
            for st in cls.body:
                if isinstance(st, ast.FunctionDef) and st.name == "__init__":
                    for s in st.body:
                        tgt = None
                        if isinstance(s, ast.Assign) and len(s.targets) == 1:
                            tgt, val, ann = s.targets[0], s.value, None
                        elif isinstance(s, ast.AnnAssign):
                            tgt, val, ann = s.target, s.value, s.annotation
                        if (tgt is not None and isinstance(tgt, ast.Attribute)
                                and isinstance(tgt.value, ast.Name) and tgt.value.id == "self"):
                            if tgt.attr in OPAQUE_FIELDS:
                                continue
                            ty = self.field_type(val, ann)
                            if tgt.attr in self.fields and self.fields[tgt.attr] != ty:
                                raise Unsupported(s, f"field {tgt.attr} has two types")
                            if tgt.attr not in self.fields:
                                self.fields[tgt.attr] = ty
                                self.field_order.append(tgt.attr)

    def field_type(self, val, ann):
        if ann is not None:
            a = ast.unparse(ann)
            if a in ("t.Set[int]", "typing.Set[int]", "set[int]"):
                return ("set", "int")
        src = ast.unparse(val)
        if isinstance(val, ast.Constant) and isinstance(val.value, int) and not isinstance(val.value, bool):
            return "int"
        if src == "bytearray()":
            return "bytes"
        if isinstance(val, ast.Attribute) and isinstance(val.value, ast.Name) and val.value.id in self.f.auto_enums:
            if val.value.id != "SessionState":
                raise Unsupported(val, "enum other than SessionState")
            return "state"
        raise Unsupported(val, f"cannot type the field initialiser {src}")

    def field_default(self, ty):
        if ty == "int":
            return "0"
        if ty == "state":
            return "default"
        return "[]"

    # -- annotations ----------------------------------------------------------------------------------
    def ann_type(self, node):
        s = ast.unparse(node)
        simple = {"int": "int", "bool": "bool", "bytes": "bytes", "str": "str", "None": "none",
                  "LDAPMessage": "msg", "LDAPControl": "control", "LDAPFilter": "filter",
                  "AuthenticationCredential": "cred", "PartialAttribute": "attr"}
        if s in simple:
            return simple[s]
        if s in self.f.int_enums:
            return "int"
        if isinstance(node, ast.Subscript):
            head = ast.unparse(node.value)
            if head in ("t.Optional", "typing.Optional"):
                return ("opt", self.ann_type(node.slice))
            if head in ("t.List", "typing.List", "list"):
                return ("list", self.ann_type(node.slice))
            if head in ("t.Union", "typing.Union"):
                parts = [self.ann_type(e) if ast.unparse(e) not in ("bytearray", "memoryview") else "bytes"
                         for e in node.slice.elts]
                if len(set(parts)) == 1:
                    return parts[0]
        raise Unsupported(node, f"annotation {s} is outside the subset")

    # -- method resolution ----------------------------------------------------------------------------
    def fn_name(self, selfcls, defcls, fn):
        m = lname(fn.name) if fn.name != "__init__" else "init"
        if defcls == selfcls:
            return f"{selfcls}_{m}"
        if not self.f.has_self_call(fn):
            return f"{defcls}_{m}"
        return f"{selfcls}_{defcls}_{m}"

    def require(self, selfcls, start_chain, method, node):
        """translate (once) the definition of `method` found along start_chain, for self of class selfcls"""
        found = self.f.find_method(start_chain, method)
        if found is None:
            raise Unsupported(node, f"no method {method} along {start_chain}")
        defcls, fn = found
        name = self.fn_name(selfcls, defcls, fn)
        key = name
        if key in self.done:
            info = self.done[key]
            if isinstance(info, str):
                raise Unsupported(node, f"calls {name}, which is untranslated")
            if info is None:
                raise Unsupported(node, f"recursion through {name}")
            return info
        self.done[key] = None
        try:
            info = MethodTranslator(self, selfcls, defcls, fn, name).run()
            self.done[key] = info
            return info
        except Unsupported as e:
            self.failed = True
            reason = f"{defcls}.{fn.name}: {e}"
            self.done[key] = reason
            esc = reason.replace("\\", "\\\\").replace('"', '\\"')
            self.out_defs.append([f"/-- NOT TRANSLATED -/", f'def {name}_untranslated : String := "{esc}"'])
            print(f"py2lean_session: {name} NOT translated: {reason}", file=sys.stderr)
            raise Unsupported(node, f"calls {name}, which is untranslated") from None

    # -- output ---------------------------------------------------------------------------------------
    def render(self, src_desc: str) -> str:
        f = self.f
        L = []
        L.append(f"/- GENERATED by harness/py2lean_session.py from {src_desc}.  Do not edit.")
        L.append("   Runtime: Verif/PyRtSession.lean.  Scheme: design_notes/py2lean_session.md. -/")
        L.append("import Verif.PyRtSession")
        L.append("")
        L.append("set_option linter.unusedVariables false")
        L.append("")
        L.append("namespace Verif.SessionGen")
        L.append("")
        L.append("open Verif Verif.PyRtS")
        L.append("")
        for en, members in f.auto_enums.items():
            L.append(f"/-- `class {en}(enum.Enum)` -/")
            L.append(f"inductive {en} where")
            L.append("  " + " ".join(f"| {m}" for m in members))
            L.append("  deriving DecidableEq, Repr, Inhabited")
            L.append("")
        for en, members in f.str_enums.items():
            for m, v in members:
                L.append(f"/-- `{en}.{m}` = {v!r} (UTF-8 octets) -/")
                L.append(f"def {en}_{m} : List Nat := {bytes_lit(v)}")
            L.append("")
        for en in sorted(self.used_int_enum_members):
            cls, m = en
            val = dict(f.int_enums[cls])[m]
            L.append(f"def {cls}_{m} : Int := {val}")
        for cls in sorted(self.used_int_enum_ctor):
            vals = ", ".join(str(v) for _, v in f.int_enums[cls])
            L.append(f"/-- member values of `class {cls}(enum.IntEnum)` -/")
            L.append(f"def {cls}_members : List Int := [{vals}]")
        L.append("")
        for marker in ("Request", "Response"):
            subs = f.concrete_subclasses(marker)
            L.append(f"/-- the concrete message classes with base `{marker}` (class statements of _messages.py) -/")
            L.append(f"def {marker}_classes : List MsgClass := [" + ", ".join("." + c for c in subs) + "]")
        L.append("")
        L.append("/-- the instance fields assigned in the `__init__` methods (`_packing_options` is opaque) -/")
        L.append("structure St where")
        for fld in self.field_order:
            ty = self.fields[fld]
            L.append(f"  {lname(fld)} : {lean_type(ty)} := {self.field_default(ty)}")
        L.append("  deriving Repr, Inhabited")
        L.append("")
        for d in self.out_defs:
            L.extend(d)
            L.append("")
        for c in CONCRETE:
            found = f.find_method(f.mro(c), "__init__") if c in f.classes else None
            if found is not None:
                nm = self.fn_name(c, found[0], found[1])
                if isinstance(self.done.get(nm), FnInfo):
                    L.append(f"/-- the fields after `{c}()` -/")
                    L.append(f"def {c}_new : St := ({nm} default).2")
                    L.append("")
        L.append("end Verif.SessionGen")
        return "\n".join(L) + "\n"

    used_int_enum_members: set = set()
    used_int_enum_ctor: set = set()


# ---------------------------------------------------------------------------------------------------


class MethodTranslator:
    def __init__(self, tr: Translator, selfcls: str, defcls: str, fn: ast.FunctionDef, name: str):
        self.tr = tr
        self.f = tr.f
        self.selfcls = selfcls
        self.defcls = defcls
        self.fn = fn
        self.name = name
        self.extras: list[tuple[str, str]] = []
        self.aux_defs: list[list[str]] = []
        self.nfor = 0
        self.nwhile = 0
        self.for_cache = {}
        self.nabs = 0
        self.ntmp = 0
        self.mutates: set[int] = set()
        self.ret = "none"

    def tmp(self, base="t"):
        self.ntmp += 1
        return f"{base}{self.ntmp}_"

    def add_extra(self, name, ty):
        if (name, ty) not in self.extras:
            if any(n == name for n, _ in self.extras):
                raise Unsupported(self.fn, f"two different extra parameters named {name}")
            self.extras.append((name, ty))

    # -- entry ----------------------------------------------------------------------------------------
    def run(self) -> FnInfo:
        fn = self.fn
        a = fn.args
        if a.vararg or a.kwarg or a.kwonlyargs or a.posonlyargs:
            raise Unsupported(fn, "parameter kinds other than plain positional-or-keyword")
        params = []
        defaults = [None] * (len(a.args) - len(a.defaults)) + list(a.defaults)
        env = Env()
        for arg, dflt in list(zip(a.args, defaults))[1:]:
            if arg.annotation is None:
                raise Unsupported(arg, "parameter without annotation")
            ty = self.tr.ann_type(arg.annotation)
            params.append((arg.arg, ty, dflt))
            env.vars[arg.arg] = ty
        self.params = params
        self.ret = self.tr.ann_type(fn.returns) if fn.returns is not None else "none"
        body = self.block(fn.body, env, self.fallthrough_end)
        sig = [f"(self : St)"] + [f"({lname(p)} : {lean_type(ty)})" for p, ty, _ in params]
        sig += [f"({n} : {t})" for n, t in self.extras]
        head = f"def {self.name} " + " ".join(sig) + f" : Res St {atom(lean_type(self.ret))} :="
        doc = f"/-- `{self.defcls}.{fn.name}` (line {fn.lineno}) for `self : {self.selfcls}` -/"
        if self.name.startswith(self.defcls + "_") and self.defcls != self.selfcls:
            doc = f"/-- `{self.defcls}.{fn.name}` (line {fn.lineno}); no `self.m()` call, the same for every subclass -/"
        for d in self.aux_defs:
            self.tr.out_defs.append(d)
        self.tr.out_defs.append([doc, head] + ind(body))
        return FnInfo(self.name, params, self.ret, list(self.extras), set(self.mutates))

    def fallthrough_end(self, env):
        if self.ret != "none":
            raise Unsupported(self.fn, "end of body reached in a method that returns a value")
        return ["(.ok (), self)"]

    # -- blocks ---------------------------------------------------------------------------------------
    def always_leaves(self, stmts) -> bool:
        for st in stmts:
            if isinstance(st, (ast.Return, ast.Raise)):
                return True
            if isinstance(st, ast.If) and st.orelse and self.always_leaves(st.body) and self.always_leaves(st.orelse):
                return True
        return False

    def is_simple(self, stmts, env) -> bool:
        """only assignments (no raise / return / call that can raise): rule (2)"""
        for st in stmts:
            if isinstance(st, ast.Pass):
                continue
            if isinstance(st, ast.Expr) and isinstance(st.value, ast.Constant):
                continue
            if isinstance(st, (ast.Assign, ast.AugAssign, ast.AnnAssign)):
                val = st.value
                if val is not None and self.can_raise(val):
                    return False
                continue
            if isinstance(st, ast.Expr) and isinstance(st.value, ast.Call):
                c = st.value
                if isinstance(c.func, ast.Attribute) and c.func.attr in ("add", "discard", "extend") \
                        and not any(self.can_raise(x) for x in c.args):
                    continue
                return False
            if isinstance(st, ast.If):
                if self.can_raise(st.test) or not self.is_simple(st.body, env) or not self.is_simple(st.orelse, env):
                    return False
                continue
            return False
        return True

    def can_raise(self, e) -> bool:
        for n in ast.walk(e):
            if isinstance(n, ast.Call):
                fsrc = ast.unparse(n.func)
                if fsrc in ("isinstance", "len", "bool", "bytes", "set", "bytearray", "str"):
                    continue
                if fsrc in MSG_CTOR or fsrc in VALUE_CTOR:
                    continue
                if isinstance(n.func, ast.Attribute) and n.func.attr == "pack":
                    continue
                return True
        return False

    def assigned(self, stmts) -> list[str]:
        """names ('self' for any field) assigned in a simple block, in order of first assignment"""
        out = []

        def add(n):
            if n not in out:
                out.append(n)
        for st in stmts:
            if isinstance(st, (ast.Assign, ast.AugAssign, ast.AnnAssign)):
                tgts = st.targets if isinstance(st, ast.Assign) else [st.target]
                for t in tgts:
                    if isinstance(t, ast.Name):
                        add(t.id)
                    elif isinstance(t, ast.Attribute) and isinstance(t.value, ast.Name):
                        if t.value.id == "self":
                            add("self")
                        else:
                            add(f"{t.value.id}.{t.attr}")
            elif isinstance(st, ast.Expr) and isinstance(st.value, ast.Call) and isinstance(st.value.func, ast.Attribute):
                tgt = st.value.func.value
                if isinstance(tgt, ast.Attribute) and isinstance(tgt.value, ast.Name) and tgt.value.id == "self":
                    add("self")
                elif isinstance(tgt, ast.Name):
                    add(tgt.id)
            elif isinstance(st, ast.If):
                for n in self.assigned(st.body) + self.assigned(st.orelse):
                    add(n)
        return out

    def mentions_opaque(self, st) -> bool:
        return any(isinstance(n, ast.Name) and n.id in OPAQUE_NAMES for n in ast.walk(st))

    # -- dropped texts must be effect-free (audit item S3) -------------------------------------------------
    TEXT_PURE_CALLS = ("str", "repr", "len", "type", "int", "hex", "sorted", "list", "tuple", "bool")
    TEXT_PURE_ATTRS = ("name", "value", "__name__", "__class__", "__qualname__")

    def check_text(self, node, env):
        """Every expression that is evaluated only for a DROPPED text (f-string pieces, the message argument of an
        exception constructor, the test of an `if` that only extends a text) must be effect-free and must not be
        able to raise something else: names bound here, attributes the translator itself can type (fields of
        `self`, dataclass fields under a dominating isinstance test, enum members), `.name` / `.value` /
        `__name__` of such a value, constants, subscripts, comparisons, arithmetic, and calls to a small
        whitelist of builtins (`str`, `repr`, `len`, `type`, `int`, `hex`, `sorted`, `list`, `tuple`, `bool`,
        `"..".join`).  Anything else (`.pop()`, `.clear()`, `.add()`, `.remove()`, unknown functions, unknown
        attributes, comprehensions, walrus, await, lambda ...) puts the whole method outside the subset."""
        def bad(n, why):
            raise Unsupported(n, f"dropped exception text is not provably effect-free: {why} in `{ast.unparse(n)}`")
        if node is None or isinstance(node, ast.Constant):
            return
        if isinstance(node, ast.JoinedStr):
            for v in node.values:
                self.check_text(v, env)
            return
        if isinstance(node, ast.FormattedValue):
            self.check_text(node.value, env)
            self.check_text(node.format_spec, env)
            return
        if isinstance(node, ast.Name):
            if not isinstance(node.ctx, ast.Load):
                bad(node, "a store")
            if node.id in env.vars or node.id in env.dropped or node.id == "self" \
                    or (node.id in env.exc and not node.id.startswith("__")):
                return
            bad(node, f"name {node.id} is not bound in the method")
        if isinstance(node, ast.Attribute):
            if node.attr in self.TEXT_PURE_ATTRS:
                return self.check_text(node.value, env)
            try:
                _, _, pre = self.expr(node, env)
            except Unsupported as u:
                bad(node, f"attribute the translator cannot type ({u})")
            if pre:
                bad(node, "a raising operation")
            return
        if isinstance(node, ast.Subscript):
            self.check_text(node.value, env)
            return self.check_text(node.slice, env)
        if isinstance(node, ast.Slice):
            for x in (node.lower, node.upper, node.step):
                self.check_text(x, env)
            return
        if isinstance(node, (ast.Tuple, ast.List)):
            for x in node.elts:
                self.check_text(x, env)
            return
        if isinstance(node, ast.Compare):
            for x in [node.left] + list(node.comparators):
                self.check_text(x, env)
            return
        if isinstance(node, ast.BinOp):
            self.check_text(node.left, env)
            return self.check_text(node.right, env)
        if isinstance(node, ast.BoolOp):
            for x in node.values:
                self.check_text(x, env)
            return
        if isinstance(node, ast.UnaryOp):
            return self.check_text(node.operand, env)
        if isinstance(node, ast.IfExp):
            for x in (node.test, node.body, node.orelse):
                self.check_text(x, env)
            return
        if isinstance(node, ast.Call):
            f = node.func
            ok = (isinstance(f, ast.Name) and f.id in self.TEXT_PURE_CALLS) or \
                 (isinstance(f, ast.Attribute) and f.attr == "join" and isinstance(f.value, ast.Constant)
                  and isinstance(f.value.value, str))
            if not ok:
                bad(node, f"call of `{ast.unparse(f)}` (not in the whitelist of effect-free builtins)")
            if node.keywords:
                bad(node, "keyword arguments")
            for x in node.args:
                self.check_text(x, env)
            return
        bad(node, f"expression {type(node).__name__}")

    def all_dropped(self, stmts, env) -> bool:
        for st in stmts:
            if isinstance(st, ast.AugAssign) and isinstance(st.target, ast.Name) and st.target.id in env.dropped \
                    and isinstance(st.value, (ast.JoinedStr, ast.Constant)):
                self.check_text(st.value, env)
                continue
            return False
        return True

    def pure_test(self, e, env) -> bool:
        if not all(isinstance(n, (ast.Name, ast.Attribute, ast.Load)) for n in ast.walk(e)):
            return False
        self.check_text(e, env)      # the test of an `if` that is dropped with its body
        return True

    def block(self, stmts, env: Env, k) -> list[str]:
        if not stmts:
            return k(env)
        st, rest = stmts[0], stmts[1:]

        def cont(env2):
            return self.block(rest, env2, k)

        if isinstance(st, ast.Pass) or (isinstance(st, ast.Expr) and isinstance(st.value, ast.Constant)):
            return cont(env)
        # (round 12, audit item S2) statements that mention ASN1Reader / unpack_ldap_message are no longer
        # abstracted as a whole: `reader = ASN1Reader(x)`, `while reader:` with the unpack call inside, and
        # `reader.get_remaining_data()` are translated; only the call `unpack_ldap_message(reader, options)` itself
        # is the oracle parameter `unpack`.
        if isinstance(st, ast.Return):
            return self.stmt_return(st, env)
        if isinstance(st, ast.Raise):
            return self.stmt_raise(st, env)
        if isinstance(st, (ast.Assign, ast.AnnAssign)):
            return self.stmt_assign(st, env, cont)
        if isinstance(st, ast.AugAssign):
            return self.stmt_augassign(st, env, cont)
        if isinstance(st, ast.Expr) and isinstance(st.value, ast.Call):
            return self.stmt_call(st.value, env, cont)
        if isinstance(st, ast.If):
            return self.stmt_if(st, env, cont, rest_empty=not rest)
        if isinstance(st, ast.For):
            return self.stmt_for(st, env, cont)
        if isinstance(st, ast.Try):
            return self.stmt_try(st, env, cont)
        if isinstance(st, ast.While):
            return self.stmt_while(st, env, cont)
        raise Unsupported(st, f"statement {type(st).__name__} is outside the subset")

    # -- simple statements ----------------------------------------------------------------------------
    def with_prelude(self, prelude, lines):
        """prelude: [(lean var, lean Res expression)] evaluated first, in order"""
        out = lines
        for var, rexpr in reversed(prelude):
            out = [f"Res.bind {atom(rexpr)} fun {var} self =>"] + out
        return out

    def stmt_return(self, st, env):
        if st.value is None:
            return ["(.ok (), self)"]
        call = self.as_method_call(st.value)
        if call is not None:
            lean, ty, prelude = self.method_call(call, env, st)
            self.check_ret(ty, st)
            return self.with_prelude(prelude, [lean])
        lean, ty, prelude = self.expr(st.value, env)
        self.check_ret(ty, st)
        lean = self.coerce(lean, ty, self.ret, st)
        return self.with_prelude(prelude, [f"(.ok {atom(lean)}, self)"])

    def check_ret(self, ty, node):
        if not self.compatible(ty, self.ret):
            raise Unsupported(node, f"returns {ty!r} from a method annotated {self.ret!r}")

    def compatible(self, ty, want):
        if ty == want:
            return True
        if {ty, want} <= {"bytes", "str"}:
            return False
        if isinstance(want, tuple) and want[0] == "opt":
            return ty == ("opt", None) or self.compatible(ty, want[1])
        if isinstance(want, tuple) and want[0] == "list" and ty == ("list", None):
            return True
        return False

    def coerce(self, lean, ty, want, node):
        if ty == want:
            return lean
        if isinstance(want, tuple) and want[0] == "opt":
            if ty == ("opt", None):
                return "none"
            if isinstance(ty, tuple) and ty[0] == "opt":
                return lean
            return f"some {atom(self.coerce(lean, ty, want[1], node))}"
        if isinstance(want, tuple) and want[0] == "list" and ty == ("list", None):
            return "[]"
        raise Unsupported(node, f"cannot use a value of type {ty!r} where {want!r} is expected")

    def stmt_raise(self, st, env):
        if st.exc is None:
            # bare re-raise inside a handler
            cur = env.exc.get("__current__")
            if cur is None:
                raise Unsupported(st, "bare raise outside an except clause")
            return [f"(.error {cur}, self)"]
        e = st.exc
        if not isinstance(e, ast.Call) or not isinstance(e.func, ast.Name):
            raise Unsupported(st, "raise of something that is not a constructor call")
        cls = e.func.id
        if cls in BUILTIN_EXC:
            for a_ in e.args:
                self.check_text(a_, env)
            if e.keywords:
                raise Unsupported(st, "keyword argument of a builtin exception")
            return [f"(.error .{BUILTIN_EXC[cls]}, self)"]
        if cls not in self.f.exc_bases:
            raise Unsupported(st, f"raise of unknown exception class {cls}")
        fields = self.f.exc_fields[cls]
        if cls == "LDAPError":
            ctor = ".ldapError"
        elif cls == "ProtocolError":
            ctor = ".protocolError"
        else:
            raise Unsupported(st, f"exception class {cls}")
        vals = {f: ("none", ("opt", None)) for f in fields}
        pos = e.args[1:]       # args[0] is the message text: dropped, after the effect-freeness check
        if e.args:
            self.check_text(e.args[0], env)
        for f_, a_ in zip(fields, pos):
            vals[f_] = self.expr(a_, env)[:2]
        for kw in e.keywords:
            if kw.arg not in fields:
                raise Unsupported(st, f"keyword {kw.arg} of {cls}")
            lean, ty, prelude = self.expr(kw.value, env)
            if prelude:
                raise Unsupported(st, "raising operation inside raise")
            vals[kw.arg] = (lean, ty)
        want = {"request": ("opt", "msg"), "response": ("opt", "bytes")}
        args = " ".join(atom(self.coerce(vals[f_][0], vals[f_][1], want[f_], st)) for f_ in fields)
        return [f"(.error ({ctor} {args}), self)" if args else f"(.error {ctor}, self)"]

    def field_target(self, t):
        return (isinstance(t, ast.Attribute) and isinstance(t.value, ast.Name) and t.value.id == "self")

    def stmt_assign(self, st, env, cont):
        if isinstance(st, ast.Assign):
            if len(st.targets) != 1:
                raise Unsupported(st, "chained assignment")
            tgt, val = st.targets[0], st.value
        else:
            tgt, val = st.target, st.value
            if val is None:
                raise Unsupported(st, "annotation without value")
        if self.field_target(tgt) and tgt.attr in OPAQUE_FIELDS:
            if self.can_raise_self(val):
                raise Unsupported(st, "opaque field initialised by a method call")
            return cont(env)
        # reader = ASN1Reader(x): the reader is the list of its remaining octets
        if isinstance(val, ast.Call) and ast.unparse(val.func) == "ASN1Reader":
            if not (isinstance(tgt, ast.Name) and len(val.args) == 1 and not val.keywords):
                raise Unsupported(st, "ASN1Reader(..) other than `name = ASN1Reader(x)`")
            lean, ty, prelude = self.expr(val.args[0], env)
            if ty != "bytes" or prelude:
                raise Unsupported(st, "ASN1Reader over something that is not bytes")
            if tgt.id in env.vars and env.vars[tgt.id] != "reader":
                raise Unsupported(st, f"{tgt.id} rebound to an ASN1Reader")
            env = env.copy()
            env.vars[tgt.id] = "reader"
            env.reader_src.pop(tgt.id, None)
            if self.field_target(val.args[0]):
                env.reader_src[tgt.id] = val.args[0].attr      # a view of that bytearray: no in-place change below
            return [f"let {lname(tgt.id)} : List Nat := {lean}"] + cont(env)
        # self.f = bytearray(reader.get_remaining_data()): the remaining octets; the call EMPTIES the reader
        grd = self.get_remaining_data_of(val, env)
        if grd is not None:
            if not (self.field_target(tgt) and self.tr.fields.get(tgt.attr) == "bytes"):
                raise Unsupported(st, "get_remaining_data() assigned to something that is not a bytes field")
            env = env.copy()
            if env.reader_src.get(grd) == tgt.attr:
                env.reader_src.pop(grd)        # the field is REBOUND to a fresh copy, the old object is not changed
            return [f"let self := {{ self with {lname(tgt.attr)} := {lname(grd)} }}",
                    f"let {lname(grd)} : List Nat := []"] + cont(env)
        # dropped text
        if isinstance(tgt, ast.Name) and self.is_text_only(val, env):
            self.check_text(val, env)
            env = env.copy()
            env.dropped.add(tgt.id)
            env.vars.pop(tgt.id, None)
            return cont(env)
        call = self.as_method_call(val)
        if call is not None:
            if not isinstance(tgt, ast.Name):
                raise Unsupported(st, "method result assigned to a non-name")
            lean, ty, prelude = self.method_call(call, env, st)
            env = env.copy()
            env.vars[tgt.id] = ty
            return self.with_prelude(prelude, [f"Res.bind {atom(lean)} fun {lname(tgt.id)} self =>"] + cont(env))
        lean, ty, prelude = self.expr(val, env)
        env = env.copy()
        if self.field_target(tgt):
            if tgt.attr not in self.tr.fields:
                raise Unsupported(st, f"assignment to unknown field {tgt.attr}")
            fty = self.tr.fields[tgt.attr]
            lean = self.coerce_field(lean, ty, fty, st)
            return self.with_prelude(prelude, [f"let self := {{ self with {lname(tgt.attr)} := {lean} }}"] + cont(env))
        if isinstance(tgt, ast.Attribute) and isinstance(tgt.value, ast.Name) and tgt.value.id in env.exc:
            cls, flds = env.exc[tgt.value.id]
            if tgt.attr not in flds:
                raise Unsupported(st, f"exception attribute {tgt.attr}")
            want = {"request": ("opt", "msg"), "response": ("opt", "bytes")}[tgt.attr]
            lean = self.coerce(lean, ty, want, st)
            return self.with_prelude(prelude, [f"let {tgt.value.id}_{tgt.attr} := {lean}"] + cont(env))
        if not isinstance(tgt, ast.Name):
            raise Unsupported(st, "assignment target outside the subset")
        if isinstance(st, ast.AnnAssign):
            aty = self.tr.ann_type(st.annotation)
            lean = self.coerce(lean, ty, aty, st)
            ty = aty
        if ty == ("opt", None) or ty == ("list", None):
            raise Unsupported(st, "cannot type the assigned value")
        env.vars[tgt.id] = ty
        env.dead.discard(tgt.id)
        return self.with_prelude(prelude, [f"let {lname(tgt.id)} : {lean_type(ty)} := {lean}"] + cont(env))

    def get_remaining_data_of(self, val, env):
        """`R.get_remaining_data()`, possibly inside `bytearray(..)` / `bytes(..)`, R an ASN1Reader local -> R"""
        if isinstance(val, ast.Call) and isinstance(val.func, ast.Name) and val.func.id in ("bytearray", "bytes") \
                and len(val.args) == 1 and not val.keywords:
            val = val.args[0]
        if (isinstance(val, ast.Call) and isinstance(val.func, ast.Attribute) and val.func.attr == "get_remaining_data"
                and isinstance(val.func.value, ast.Name) and env.vars.get(val.func.value.id) == "reader"
                and not val.args and not val.keywords):
            return val.func.value.id
        return None

    def coerce_field(self, lean, ty, fty, node):
        if ty == fty:
            return lean
        if fty == ("set", "int") and ty == ("set", None):
            return lean
        raise Unsupported(node, f"field of type {fty!r} assigned a {ty!r}")

    def can_raise_self(self, e):
        return any(isinstance(n, ast.Name) and n.id == "self" and False for n in ast.walk(e)) or \
            any(self.as_method_call(n) is not None for n in ast.walk(e) if isinstance(n, ast.Call))

    def is_text_only(self, val, env):
        if isinstance(val, ast.JoinedStr):
            return True
        return False

    def stmt_augassign(self, st, env, cont):
        tgt = st.target
        if isinstance(tgt, ast.Name) and tgt.id in env.dropped:
            self.check_text(st.value, env)
            return cont(env)
        if not isinstance(st.op, (ast.Add, ast.Sub)):
            raise Unsupported(st, "augmented assignment other than += / -=")
        op = "+" if isinstance(st.op, ast.Add) else "-"
        lean, ty, prelude = self.expr(st.value, env)
        if ty != "int":
            raise Unsupported(st, "augmented assignment on a non-int")
        if self.field_target(tgt):
            if self.tr.fields.get(tgt.attr) != "int":
                raise Unsupported(st, f"field {tgt.attr} is not an int")
            f_ = lname(tgt.attr)
            return self.with_prelude(prelude, [f"let self := {{ self with {f_} := self.{f_} {op} {atom(lean)} }}"] + cont(env))
        if isinstance(tgt, ast.Name) and env.vars.get(tgt.id) == "int":
            n = lname(tgt.id)
            return self.with_prelude(prelude, [f"let {n} : Int := {n} {op} {atom(lean)}"] + cont(env))
        raise Unsupported(st, "augmented assignment target")

    def stmt_call(self, c: ast.Call, env, cont):
        call = self.as_method_call(c)
        if call is not None:
            lean, ty, prelude = self.method_call(call, env, c)
            return self.with_prelude(prelude, [f"Res.bind {atom(lean)} fun _ self =>"] + cont(env))
        fsrc = ast.unparse(c.func)
        if fsrc == "object.__setattr__":
            if (len(c.args) == 3 and isinstance(c.args[0], ast.Name) and env.vars.get(c.args[0].id) == "msg"
                    and isinstance(c.args[1], ast.Constant) and c.args[1].value == "message_id"):
                lean, ty, prelude = self.expr(c.args[2], env)
                if ty != "int":
                    raise Unsupported(c, "message_id set to a non-int")
                n = c.args[0].id
                for i, (p, _, _) in enumerate(self.params):
                    if p == n:
                        self.mutates.add(i)
                return self.with_prelude(prelude, [f"let {lname(n)} : Msg := {{ {lname(n)} with id := {lean} }}"] + cont(env))
            raise Unsupported(c, "object.__setattr__ other than (msg, 'message_id', int)")
        if isinstance(c.func, ast.Attribute):
            recv, meth = c.func.value, c.func.attr
            if self.field_target(recv) and recv.attr in self.tr.fields:
                fty = self.tr.fields[recv.attr]
                f_ = lname(recv.attr)
                if fty == ("set", "int") and meth in ("add", "discard", "remove") and len(c.args) == 1:
                    lean, ty, prelude = self.expr(c.args[0], env)
                    if ty != "int":
                        raise Unsupported(c, "set element that is not an int")
                    if meth == "add":
                        return self.with_prelude(prelude, [f"let self := {{ self with {f_} := setAdd self.{f_} {atom(lean)} }}"] + cont(env))
                    if meth == "discard":
                        return self.with_prelude(prelude, [f"let self := {{ self with {f_} := setDiscard self.{f_} {atom(lean)} }}"] + cont(env))
                    t = self.tmp()
                    return self.with_prelude(prelude, [
                        f"Res.bind (Res.lift self (setRemove self.{f_} {atom(lean)})) fun {t} self =>",
                        f"let self := {{ self with {f_} := {t} }}"] + cont(env))
                if fty == "bytes" and meth == "extend" and len(c.args) == 1:
                    if recv.attr in env.reader_src.values():
                        raise Unsupported(c, f"in-place change of {recv.attr} while an ASN1Reader views it")
                    lean, ty, prelude = self.expr(c.args[0], env)
                    if ty != "bytes":
                        raise Unsupported(c, "extend with a non-bytes value")
                    return self.with_prelude(prelude, [f"let self := {{ self with {f_} := self.{f_} ++ {atom(lean)} }}"] + cont(env))
            if isinstance(recv, ast.Name) and meth == "append" and len(c.args) == 1 and not c.keywords \
                    and isinstance(env.vars.get(recv.id), tuple) and env.vars[recv.id][0] == "list" \
                    and env.vars[recv.id][1] is not None:
                lean, ty, prelude = self.expr(c.args[0], env)
                if ty != env.vars[recv.id][1] or prelude:
                    raise Unsupported(c, "append of a value of another type")
                n = lname(recv.id)
                return [f"let {n} : {lean_type(env.vars[recv.id])} := {n} ++ [{lean}]"] + cont(env)
            if isinstance(recv, ast.Name) and meth == "insert" and len(c.args) == 2 and not c.keywords \
                    and isinstance(c.args[0], ast.Constant) and c.args[0].value == 0 and not isinstance(c.args[0].value, bool) \
                    and isinstance(env.vars.get(recv.id), tuple) and env.vars[recv.id][0] == "list" \
                    and env.vars[recv.id][1] is not None:
                lean, ty, prelude = self.expr(c.args[1], env)
                if ty != env.vars[recv.id][1] or prelude:
                    raise Unsupported(c, "insert of a value of another type")
                n = lname(recv.id)
                return [f"let {n} : {lean_type(env.vars[recv.id])} := [{lean}] ++ {n}"] + cont(env)
        raise Unsupported(c, f"call statement {ast.unparse(c)[:60]} is outside the subset")

    # -- method calls ---------------------------------------------------------------------------------
    def as_method_call(self, e):
        """(kind, method name, call) for self.m(..) / super().m(..)"""
        if isinstance(e, ast.Call) and isinstance(e.func, ast.Attribute):
            v = e.func.value
            if isinstance(v, ast.Name) and v.id == "self":
                return ("self", e.func.attr, e)
            if isinstance(v, ast.Call) and ast.unparse(v) == "super()":
                return ("super", e.func.attr, e)
        return None

    def method_call(self, call, env, node):
        kind, meth, c = call
        mro = self.f.mro(self.selfcls)
        if kind == "self":
            chain = mro
        else:
            chain = mro[mro.index(self.defcls) + 1:]
        info = self.tr.require(self.selfcls, chain, meth, node)
        # bind arguments
        given = {}
        if len(c.args) > len(info.params):
            raise Unsupported(c, "too many arguments")
        for (p, _, _), a in zip(info.params, c.args):
            given[p] = a
        for kw in c.keywords:
            if kw.arg is None or kw.arg in given or kw.arg not in [p for p, _, _ in info.params]:
                raise Unsupported(c, f"keyword argument {kw.arg}")
            given[kw.arg] = kw.value
        prelude, args = [], []
        for i, (p, pty, dflt) in enumerate(info.params):
            a = given.get(p, dflt)
            if a is None:
                raise Unsupported(c, f"missing argument {p}")
            lean, ty, pre = self.expr(a, env)
            prelude += pre
            if not self.compatible(ty, pty):
                raise Unsupported(c, f"argument {p}: {ty!r} given, {pty!r} expected")
            args.append(atom(self.coerce(lean, ty, pty, c)))
            if i in info.mutates:
                if isinstance(a, ast.Name):
                    env.dead.add(a.id)
                    for j, (q, _, _) in enumerate(self.params):
                        if q == a.id:
                            self.mutates.add(j)
                else:
                    raise Unsupported(c, "a mutated message argument must be a local name")
        for n, t in info.extras:
            self.add_extra(n, t)
            args.append(n)
        return (" ".join([info.name, "self"] + args), info.ret, prelude)

    # -- if -------------------------------------------------------------------------------------------
    def none_test(self, test, env):
        """(var, is_none_branch_first) for `x is None` / `x is not None` on an Optional local"""
        if (isinstance(test, ast.Compare) and len(test.ops) == 1 and isinstance(test.left, ast.Name)
                and isinstance(test.comparators[0], ast.Constant) and test.comparators[0].value is None
                and isinstance(test.ops[0], (ast.Is, ast.IsNot))):
            ty = env.vars.get(test.left.id)
            if isinstance(ty, tuple) and ty[0] == "opt":
                return test.left.id, isinstance(test.ops[0], ast.Is)
        return None

    def stmt_if(self, st: ast.If, env, cont, rest_empty):
        # an `if` that only extends an exception text
        if not st.orelse and self.all_dropped(st.body, env) and self.pure_test(st.test, env):
            return cont(env)
        nt = self.none_test(st.test, env)
        simple = self.is_simple(st.body, env) and self.is_simple(st.orelse, env)
        if simple:
            return self.if_join(st, env, cont, nt)
        # rules (1) and (3)
        then_leaves = self.always_leaves(st.body)
        else_leaves = bool(st.orelse) and self.always_leaves(st.orelse)

        def leave_k(env2):
            raise Unsupported(st, "internal: continuation of a branch that always leaves")
        if nt is not None:
            var, none_first = nt
            inner = env.vars[var][1]
            env_none, env_some = env.copy(), env.copy()
            env_some.vars[var] = inner
            none_body, some_body = (st.body, st.orelse) if none_first else (st.orelse, st.body)
            a = self.block(none_body, env_none, cont)
            b = self.block(some_body, env_some, cont)
            v = lname(var)
            return [f"match {v} with", f"| none =>"] + ind(paren(a)) + [f"| some {v} =>"] + ind(paren(b))
        cond, env_t, env_f = self.cond(st.test, env)
        a = self.block(st.body, env_t, cont)
        b = self.block(st.orelse, env_f, cont)
        return [f"if {cond} then"] + ind(paren(a)) + ["else"] + ind(paren(b))

    def if_join(self, st, env, cont, nt):
        names = [n for n in self.assigned(st.body) + self.assigned(st.orelse)]
        seen, join = set(), []
        for n in names:
            if n in seen:
                continue
            seen.add(n)
            if n == "self" or n in env.vars:
                join.append(n)
            elif "." in n and n.split(".")[0] in env.exc:
                join.append(n)
        if not join:
            return cont(env)

        def lean_of(n):
            return n.replace(".", "_") if "." in n else lname(n)
        tup = ", ".join(lean_of(n) for n in join)
        tup_e = f"({tup})" if len(join) > 1 else tup
        result_envs = []

        def end_k(env2):
            result_envs.append(env2)
            return [tup_e]
        if nt is not None:
            var, none_first = nt
            inner = env.vars[var][1]
            env_none, env_some = env.copy(), env.copy()
            env_some.vars[var] = inner
            none_body, some_body = (st.body, st.orelse) if none_first else (st.orelse, st.body)
            a = self.block(none_body, env_none, end_k)
            b = self.block(some_body, env_some, end_k)
            v = lname(var)
            val = [f"match {v} with", f"| none =>"] + ind(paren(a)) + [f"| some {v} =>"] + ind(paren(b))
        else:
            cond, env_t, env_f = self.cond(st.test, env)
            a = self.block(st.body, env_t, end_k)
            b = self.block(st.orelse, env_f, end_k)
            val = [f"if {cond} then"] + ind(paren(a)) + ["else"] + ind(paren(b))
        e1, e2 = result_envs[0], result_envs[1]
        env = env.copy()
        for n in join:
            if n == "self" or "." in n:
                continue
            if e1.vars.get(n) != e2.vars.get(n):
                raise Unsupported(st, f"variable {n} has different types after the branches of an if")
            env.vars[n] = e1.vars[n]
        val = paren(val)
        return [f"let {tup_e} :=" ] + ind(val) + cont(env)

    def cond(self, test, env):
        """(lean Bool expression, env for the true branch, env for the false branch)"""
        lean, ty, prelude = self.expr(test, env, boolctx=True)
        if prelude:
            raise Unsupported(test, "raising operation in a condition")
        lean = self.truth(lean, ty, test)
        env_t, env_f = env.copy(), env.copy()
        self.collect_facts(test, env_t, True)
        self.collect_facts(test, env_f, False)
        return lean, env_t, env_f

    def collect_facts(self, test, env, positive):
        if isinstance(test, ast.UnaryOp) and isinstance(test.op, ast.Not):
            self.collect_facts(test.operand, env, not positive)
        elif isinstance(test, ast.BoolOp):
            if (isinstance(test.op, ast.And) and positive) or (isinstance(test.op, ast.Or) and not positive):
                for v in test.values:
                    self.collect_facts(v, env, positive)
        elif positive:
            fact = self.isinstance_fact(test)
            if fact:
                env.facts.add(fact)

    def isinstance_fact(self, e):
        if (isinstance(e, ast.Call) and ast.unparse(e.func) == "isinstance" and len(e.args) == 2
                and isinstance(e.args[1], ast.Name) and e.args[1].id in MSG_CTOR):
            return (ast.unparse(e.args[0]), e.args[1].id)
        return None

    def truth(self, lean, ty, node):
        if ty == "bool":
            return lean
        if ty in ("bytes", "str") or (isinstance(ty, tuple) and ty[0] in ("set", "list")):
            return f"!({lean}).isEmpty"
        if ty == "int":
            return f"({lean} != 0)"
        raise Unsupported(node, f"truth value of a {ty!r}")

    # -- for ------------------------------------------------------------------------------------------
    def stmt_for(self, st: ast.For, env, cont):
        if st.orelse:
            raise Unsupported(st, "for ... else")
        if not (isinstance(st.iter, ast.Name) and isinstance(env.vars.get(st.iter.id), tuple)
                and env.vars[st.iter.id][0] == "list"):
            raise Unsupported(st, "for over something that is not a list-typed local")
        if not isinstance(st.target, ast.Name):
            raise Unsupported(st, "for target")
        for n in ast.walk(st):
            if isinstance(n, (ast.Break, ast.Continue, ast.Return)):
                raise Unsupported(n, "break / continue / return inside for")
        elem_ty = env.vars[st.iter.id][1]
        # the body may assign only fields and names that are not bound outside
        outer_assigned = [n for n in self.deep_assigned(st.body) if n in env.vars or n == st.iter.id]
        if outer_assigned:
            raise Unsupported(st, f"for body assigns outer variables {outer_assigned}")
        self.nfor += 1
        fname = f"{self.name}_for{self.nfor}"
        free = [n for n in self.free_names(st.body) if n in env.vars and n != st.target.id]
        benv = env.copy()
        benv.vars[st.target.id] = elem_ty
        extras_before = len(self.extras)

        def body_end(env2):
            return [f"{fname} PLACEHOLDER_ARGS it_ self"]
        body = self.block(st.body, benv, body_end)
        import re
        used = [(n, t) for n, t in self.extras if any(re.search(rf"\b{re.escape(n)}\b", ln) for ln in body)]
        params = [f"({lname(n)} : {lean_type(env.vars[n])})" for n in free] + [f"({n} : {t})" for n, t in used]
        argtxt = " ".join([lname(n) for n in free] + [n for n, _ in used])
        body = [ln.replace(" PLACEHOLDER_ARGS", (" " + argtxt) if argtxt else "") for ln in body]
        d = [f"/-- the `for {st.target.id} in {st.iter.id}:` loop of `{self.defcls}.{self.fn.name}` (line {st.lineno}) -/",
             f"def {fname} " + " ".join(params) + (" " if params else "") +
             f": List {atom(lean_type(elem_ty))} → St → Res St Unit",
             "  | [], self => (.ok (), self)",
             f"  | {lname(st.target.id)} :: it_, self =>"] + ind(body, 4)
        cached = self.for_cache.get(id(st))
        if cached is not None and [ln.replace(cached[0], fname) for ln in cached[1]] == d:
            self.nfor -= 1
            fname = cached[0]
        else:
            self.aux_defs.append(d)
            self.for_cache[id(st)] = (fname, d)
        call = f"{fname}{(' ' + argtxt) if argtxt else ''} {lname(st.iter.id)} self"
        return [f"Res.bind ({call}) fun _ self =>"] + cont(env)

    def deep_assigned(self, stmts):
        out = []
        for st in stmts:
            for n in ast.walk(st):
                if isinstance(n, ast.Name) and isinstance(n.ctx, ast.Store):
                    out.append(n.id)
        return out

    def free_names(self, stmts):
        out = []
        for st in stmts:
            for n in ast.walk(st):
                if isinstance(n, ast.Name) and isinstance(n.ctx, ast.Load) and n.id not in out:
                    out.append(n.id)
        return out

    # -- while reader: (the unpacking loops of `receive`) ------------------------------------------------
    UNPACK_TYPE = "List Nat → Except Err (Msg × List Nat)"

    def stmt_while(self, st: ast.While, env, cont):
        """
            while R:                                      R : ASN1Reader local
                try:
                    V = unpack_ldap_message(R, self._packing_options)
                except NotEnougData:
                    H...; break                           H: statements of the subset, no loop control
                B...                                      B: statements of the subset, no loop control
        becomes a recursive function over a fuel counter carrying R (its remaining octets), the outer locals the
        body assigns, and `self`.  `unpack R` is the ORACLE for the call: `.ok (V, R')` = the message and the
        reader position after it, `.error .notEnough` = NotEnougData with the reader where it was, any other
        `.error e` = the exception class `unpackExc e`, which leaves the loop and the statement.
        """
        if st.orelse:
            raise Unsupported(st, "while ... else")
        if not (isinstance(st.test, ast.Name) and env.vars.get(st.test.id) == "reader"):
            raise Unsupported(st, "while over something that is not an ASN1Reader local")
        R = st.test.id
        if not st.body or not isinstance(st.body[0], ast.Try):
            raise Unsupported(st, "while body does not start with try: V = unpack_ldap_message(..)")
        t, B = st.body[0], st.body[1:]
        ok = (not t.orelse and not t.finalbody and len(t.body) == 1 and isinstance(t.body[0], ast.Assign)
              and len(t.body[0].targets) == 1 and isinstance(t.body[0].targets[0], ast.Name)
              and isinstance(t.body[0].value, ast.Call) and ast.unparse(t.body[0].value.func) == "unpack_ldap_message"
              and len(t.body[0].value.args) == 2 and not t.body[0].value.keywords
              and isinstance(t.body[0].value.args[0], ast.Name) and t.body[0].value.args[0].id == R
              and ast.unparse(t.body[0].value.args[1]) == "self._packing_options"
              and len(t.handlers) == 1 and t.handlers[0].type is not None
              and ast.unparse(t.handlers[0].type) == "NotEnougData" and t.handlers[0].name is None
              and t.handlers[0].body and isinstance(t.handlers[0].body[-1], ast.Break))
        if not ok:
            raise Unsupported(t, "try inside while is not `V = unpack_ldap_message(R, self._packing_options)` "
                                 "/ `except NotEnougData: ...; break`")
        V = t.body[0].targets[0].id
        H = t.handlers[0].body[:-1]
        for s_ in H + B:
            for n in ast.walk(s_):
                if isinstance(n, (ast.Break, ast.Continue, ast.Return, ast.Raise, ast.While, ast.For, ast.Try)):
                    raise Unsupported(n, f"{type(n).__name__} inside the while body")
        if V in env.vars:
            raise Unsupported(t, f"{V} is bound before the loop")
        # loop-carried variables: the reader, then the outer locals the body assigns / appends to
        carried = [R]
        for s_ in H + B:
            for n in ast.walk(s_):
                nm = None
                if isinstance(n, ast.Name) and isinstance(n.ctx, ast.Store):
                    nm = n.id
                elif isinstance(n, ast.Call) and isinstance(n.func, ast.Attribute) and isinstance(n.func.value, ast.Name) \
                        and n.func.attr in ("append", "extend", "insert", "clear", "pop", "remove", "add", "discard"):
                    nm = n.func.value.id
                if nm is not None and nm in env.vars and nm not in carried:
                    carried.append(nm)
        free = [n for n in self.free_names(H + B) if n in env.vars and n not in carried and n != V]
        self.add_extra("unpack", self.UNPACK_TYPE)
        self.nwhile += 1
        fname = f"{self.name}_while{self.nwhile}"
        tys = [lean_type(env.vars[n]) for n in carried]
        names = [lname(n) for n in carried]
        tup = names[0] if len(names) == 1 else "(" + ", ".join(names) + ")"
        exit_ = [f"(.ok {tup}, self)"]
        params = ["(unpack : " + self.UNPACK_TYPE + ")"] + [f"({lname(n)} : {lean_type(env.vars[n])})" for n in free]
        argtxt = " ".join(["unpack"] + [lname(n) for n in free])
        henv = env.copy()
        hb = self.block(H, henv, lambda e: list(exit_))
        benv = env.copy()
        benv.vars[V] = "msg"
        bb = self.block(B, benv, lambda e: [f"{fname} {argtxt} fuel_ " + " ".join(names) + " self"])
        r = lname(R)
        pats = ", ".join(names)
        d = [f"/-- the `while {R}:` loop of `{self.defcls}.{self.fn.name}` (line {st.lineno}); `fuel_` bounds the number of",
             f"    iterations (the caller passes the number of octets left), `unpack` is `unpack_ldap_message` -/",
             f"def {fname} " + " ".join(params) + " : Nat → " + " → ".join(atom(x) for x in tys) +
             f" → St → Res St {atom(' × '.join(atom(x) for x in tys))}",
             f"  | 0, {pats}, self =>",
             f"    if !({r}).isEmpty then (.error .recursionError, self) else {exit_[0]}",
             f"  | fuel_ + 1, {pats}, self =>",
             f"    if !({r}).isEmpty then",
             f"      (match unpack {r} with",
             f"      | .error .notEnough =>"] + ind(paren(hb), 8) + [
             f"      | .error err_ => (.error (unpackExc err_), self)",
             f"      | .ok ({lname(V)}, {r}) =>"] + ind(paren(bb), 8) + [
             f"      )",
             f"    else",
             f"      {exit_[0]}"]
        cached = self.for_cache.get(id(st))
        if cached is not None and [ln.replace(cached[0], fname) for ln in cached[1]] == d:
            self.nwhile -= 1
            fname = cached[0]
        else:
            self.aux_defs.append(d)
            self.for_cache[id(st)] = (fname, d)
        w = self.tmp("w")
        out = [f"Res.bind ({fname} {argtxt} ({r}).length " + " ".join(names) + f" self) fun {w} self =>"]
        for i, n in enumerate(carried):
            proj = w
            if len(carried) > 1:
                proj += "".join(".2" for _ in range(i)) + (".1" if i < len(carried) - 1 else "")
            out.append(f"let {lname(n)} : {lean_type(env.vars[n])} := {proj}")
        return out + cont(env)

    # -- try ------------------------------------------------------------------------------------------
    def exc_ctor_patterns(self, tynode, node):
        names = [ast.unparse(e) for e in tynode.elts] if isinstance(tynode, ast.Tuple) else [ast.unparse(tynode)]
        pats = []
        for n in names:
            if n in BUILTIN_EXC:
                pats.append((n, "." + BUILTIN_EXC[n]))
            elif n == "ProtocolError":
                pats.append((n, "PROTO"))
            else:
                raise Unsupported(node, f"except clause for {n}")
        return pats

    def stmt_try(self, st: ast.Try, env, cont):
        if st.finalbody or st.orelse:
            raise Unsupported(st, "try with else / finally")
        body_returns = self.always_leaves(st.body)
        has_return = any(isinstance(n, ast.Return) for s in st.body for n in ast.walk(s))
        if has_return and not body_returns:
            raise Unsupported(st, "try body that both returns and falls through")
        # locals assigned in the body that are bound before: the value the body yields on fall-through
        carried = []
        for s in st.body:
            if any(isinstance(n, ast.While) for n in ast.walk(s)):
                # a statement with a loop: every outer local stored to or changed in place anywhere inside
                for n, _ in self.abstracted_targets(s, env):
                    if n != "self" and not n.startswith("self.") and n not in carried:
                        carried.append(n)
            else:
                for n in self.shallow_assigned_names(s):
                    if n in env.vars and n not in carried:
                        carried.append(n)
        if body_returns:
            body_ty = lean_type(self.ret)
            body = self.block(st.body, env.copy(), lambda e: (_ for _ in ()).throw(Unsupported(st, "internal")))
        else:
            tup = ", ".join(lname(n) for n in carried) if carried else "()"
            tup_e = f"({tup})" if len(carried) != 1 else tup
            body_ty = " × ".join(atom(lean_type(env.vars[n])) for n in carried) if carried else "Unit"
            body = self.block(st.body, env.copy(), lambda e: [f"(.ok {tup_e}, self)"])
        # handlers
        arms = []
        for h in st.handlers:
            if h.type is None:
                raise Unsupported(h, "bare except")
            pats = self.exc_ctor_patterns(h.type, h)
            for pyname, pat in pats:
                henv = env.copy()
                for n in carried:
                    pass      # handlers see the values from before the try (checked: not read below)
                for n in self.free_names(h.body):
                    if n in carried:
                        raise Unsupported(h, f"handler reads {n}, which the try body assigns")
                if pat == "PROTO":
                    ev = h.name or "exc_"
                    flds = self.f.exc_fields["ProtocolError"]
                    henv.exc[ev] = ("ProtocolError", flds)
                    binders = " ".join(f"{ev}_{f_}" for f_ in flds)
                    henv.exc["__current__"] = f"(.protocolError {binders})"
                    henv.exc["__currentvar__"] = (ev, flds)
                    hb = self.block(h.body, henv, lambda e: (_ for _ in ()).throw(
                        Unsupported(h, "handler that falls through")))
                    arms.append([f"| .protocolError {binders} =>"] + ind(paren(hb)))
                else:
                    if h.name:
                        henv.dropped.add(h.name)     # only usable inside texts
                    henv.exc["__current__"] = pat
                    hb = self.block(h.body, henv, lambda e: (_ for _ in ()).throw(
                        Unsupported(h, "handler that falls through")))
                    arms.append([f"| {pat} =>"] + ind(paren(hb)))
        arms.append(["| exc_ => (.error exc_, self)"])
        handler = ["(fun exc_ self =>", "  match exc_ with"] + ind([ln for arm in arms for ln in arm]) + ["  )"]
        out = ["Res.tryCatch"] + ind(paren([f"show Res St {atom(body_ty)} from"] + ind(body))) + ind(handler)
        if body_returns:
            out += ind(["(fun r_ self => (.ok r_, self))"])
            return out
        env2 = env.copy()
        pat = (lname(carried[0]) if len(carried) == 1 else
               ("(" + ", ".join(lname(n) for n in carried) + ")") if carried else "_")
        rest = cont(env2)
        out += ind([f"(fun {pat} self =>"] + ind(rest) + [")"])
        return out

    def shallow_assigned_names(self, st):
        out = []
        if isinstance(st, (ast.Assign, ast.AnnAssign, ast.AugAssign)):
            tgts = st.targets if isinstance(st, ast.Assign) else [st.target]
            for t in tgts:
                if isinstance(t, ast.Name):
                    out.append(t.id)
        elif isinstance(st, ast.If):
            for s in st.body + st.orelse:
                out += self.shallow_assigned_names(s)
        return out

    # -- abstracted statements ------------------------------------------------------------------------
    def abstracted_targets(self, st, env):
        """[(name | 'self.f', type)] assigned by the statement among variables bound before it / fields"""
        out = []

        def add(n, ty):
            if all(n != m for m, _ in out):
                out.append((n, ty))
        for n in ast.walk(st):
            tgt = None
            if isinstance(n, ast.Name) and isinstance(n.ctx, ast.Store):
                if n.id in env.vars:
                    add(n.id, env.vars[n.id])
            elif isinstance(n, ast.Attribute) and isinstance(n.ctx, ast.Store):
                if self.field_target(n):
                    if n.attr not in self.tr.fields:
                        raise Unsupported(n, f"abstracted statement assigns unknown field {n.attr}")
                    add("self." + n.attr, self.tr.fields[n.attr])
                else:
                    raise Unsupported(n, "abstracted statement assigns an attribute of a non-self object")
            elif isinstance(n, ast.Call) and isinstance(n.func, ast.Attribute):
                recv, meth = n.func.value, n.func.attr
                if meth in ("append", "extend", "add", "remove", "discard", "clear", "pop", "insert"):
                    if isinstance(recv, ast.Name) and recv.id in env.vars:
                        add(recv.id, env.vars[recv.id])
                    elif self.field_target(recv):
                        add("self." + recv.attr, self.tr.fields[recv.attr])
                if self.as_method_call(n) is not None:
                    raise Unsupported(n, "abstracted statement calls a method of self")
            elif isinstance(n, (ast.Return, ast.Raise)):
                raise Unsupported(n, "return / raise inside an abstracted statement")
        return out

    def abstracted(self, st, env, cont):
        targets = self.abstracted_targets(st, env)
        self.nabs += 1
        pname = f"abs{self.nabs}"
        tys = [lean_type(t) for _, t in targets]
        ptype = "Abstracted " + atom(" × ".join(atom(t) for t in tys) if tys else "Unit")
        self.add_extra(pname, ptype)
        lines = [f"-- abstracted statement (line {st.lineno}): assigns " + ", ".join(n for n, _ in targets)]
        for i, (n, _) in enumerate(targets):
            proj = f"{pname}.vals"
            if len(targets) > 1:
                proj += "".join(".2" for _ in range(i)) + (".1" if i < len(targets) - 1 else "")
            if n.startswith("self."):
                lines.append(f"let self := {{ self with {lname(n[5:])} := {proj} }}")
            else:
                lines.append(f"let {lname(n)} : {lean_type(env.vars[n])} := {proj}")
        lines.append(f"match {pname}.raised with")
        lines.append("| some exc_ => (.error exc_, self)")
        lines.append("| none =>")
        return lines + ind(paren(cont(env)))

    # -- expressions ----------------------------------------------------------------------------------
    def expr(self, e, env: Env, boolctx=False):
        """-> (lean text, type, prelude)"""
        if isinstance(e, ast.Constant):
            v = e.value
            if v is None:
                return ("none", ("opt", None), [])
            if isinstance(v, bool):
                return ("true" if v else "false", "bool", [])
            if isinstance(v, int):
                return (str(v) if v >= 0 else f"({v})", "int", [])
            if isinstance(v, str):
                return (f"({bytes_lit(v)} : List Nat)", "str", [])
            if isinstance(v, bytes):
                return ("([" + ", ".join(str(b) for b in v) + "] : List Nat)", "bytes", [])
            raise Unsupported(e, "constant")
        if isinstance(e, ast.List) and not e.elts:
            return ("[]", ("list", None), [])
        if isinstance(e, ast.Name):
            if e.id in env.dead:
                raise Unsupported(e, f"{e.id} is read after a callee overwrote its message_id")
            if e.id in env.vars:
                return (lname(e.id), env.vars[e.id], [])
            raise Unsupported(e, f"name {e.id} is not a typed local")
        if isinstance(e, ast.Attribute):
            return self.attribute(e, env)
        if isinstance(e, ast.UnaryOp) and isinstance(e.op, ast.Not):
            lean, ty, pre = self.expr(e.operand, env, boolctx=True)
            return (f"!{atom(self.truth(lean, ty, e))}", "bool", pre)
        if isinstance(e, ast.BoolOp):
            return self.boolop(e, env, boolctx)
        if isinstance(e, ast.Compare):
            return self.compare(e, env)
        if isinstance(e, ast.BinOp) and isinstance(e.op, (ast.Add, ast.Sub)):
            l, lt, p1 = self.expr(e.left, env)
            r, rt, p2 = self.expr(e.right, env)
            if lt == rt == "int":
                return (f"{atom(l)} {'+' if isinstance(e.op, ast.Add) else '-'} {atom(r)}", "int", p1 + p2)
            raise Unsupported(e, "arithmetic on non-ints")
        if isinstance(e, ast.Subscript):
            return self.subscript(e, env)
        if isinstance(e, ast.Call):
            return self.call_expr(e, env)
        raise Unsupported(e, f"expression {type(e).__name__} is outside the subset")

    def attribute(self, e: ast.Attribute, env):
        v = e.value
        if isinstance(v, ast.Name):
            if v.id == "self":
                if e.attr in self.tr.fields:
                    return (f"self.{lname(e.attr)}", self.tr.fields[e.attr], [])
                raise Unsupported(e, f"field {e.attr} is not modelled")
            if v.id in self.f.auto_enums:
                if e.attr not in self.f.auto_enums[v.id]:
                    raise Unsupported(e, f"no member {e.attr}")
                return (f"{v.id}.{e.attr}", "state", [])
            if v.id in self.f.int_enums:
                if e.attr not in dict(self.f.int_enums[v.id]):
                    raise Unsupported(e, f"no member {e.attr}")
                self.tr.used_int_enum_members.add((v.id, e.attr))
                return (f"{v.id}_{e.attr}", "int", [])
            if v.id in self.f.str_enums:
                if e.attr not in dict(self.f.str_enums[v.id]):
                    raise Unsupported(e, f"no member {e.attr}")
                return (f"{v.id}_{e.attr}", "str", [])
            if v.id in env.exc and v.id not in ("__current__",):
                cls, flds = env.exc[v.id]
                if e.attr in flds:
                    ty = {"request": "optmsg", "response": ("opt", "bytes")}[e.attr]
                    return (f"{v.id}_{e.attr}", ty, [])
            if env.vars.get(v.id) == "msg":
                if e.attr == "message_id":
                    return (f"{lname(v.id)}.id", "int", [])
                return self.guarded_attr(e, v, env, MSG_ATTR)
            if env.vars.get(v.id) == "result" and e.attr in RESULT_ATTR:
                fld, ty = RESULT_ATTR[e.attr]
                return (f"{lname(v.id)}.{fld}", ty, [])
        # ExtendedOperations.X.value
        if (e.attr == "value" and isinstance(v, ast.Attribute) and isinstance(v.value, ast.Name)
                and v.value.id in self.f.str_enums):
            return self.attribute(v, env)
        # e.request.name, msg.result.result_code
        if isinstance(v, ast.Attribute):
            base, bty, pre = self.attribute(v, env)
            if bty == "optmsg":
                return self.guarded_attr(e, v, env, OPTMSG_ATTR, base)
            if bty == "result" and e.attr in RESULT_ATTR:
                fld, ty = RESULT_ATTR[e.attr]
                return (f"({base}).{fld}", ty, pre)
        raise Unsupported(e, f"attribute {ast.unparse(e)} is outside the subset")

    def guarded_attr(self, e, v, env, table, base=None):
        src = ast.unparse(v)
        for (cls, attr), (fn, ty) in table.items():
            if attr == e.attr and (src, cls) in env.facts:
                if e.attr not in self.f.msg_fields.get(cls, []):
                    raise Unsupported(e, f"{cls} has no dataclass field {e.attr}")
                return (f"{fn} {atom(base or lname(src))}", ty, [])
        raise Unsupported(e, f"attribute {ast.unparse(e)} without a dominating isinstance test")

    def boolop(self, e: ast.BoolOp, env, boolctx):
        is_and = isinstance(e.op, ast.And)
        if not boolctx and not is_and and len(e.values) == 2:
            # `x or default`
            l, lt, p1 = self.expr(e.values[0], env)
            r, rt, p2 = self.expr(e.values[1], env)
            if p1 or p2:
                raise Unsupported(e, "raising operation in `or`")
            if isinstance(lt, tuple) and lt[0] == "opt":
                inner = lt[1]
                if inner in ("str", "bytes") or (isinstance(inner, tuple) and inner[0] == "list"):
                    return (f"optOrEmpty {atom(l)} {atom(self.coerce(r, rt, inner, e))}", inner, [])
                if inner in ("filter", "cred", "control"):    # objects without __bool__/__len__: truthy
                    if rt != inner:
                        raise Unsupported(e, "`or` default of another type")
                    return (f"Option.getD {atom(l)} {atom(r)}", inner, [])
            if lt in ("str", "bytes") or (isinstance(lt, tuple) and lt[0] == "list"):
                return (f"orEmpty {atom(l)} {atom(self.coerce(r, rt, lt, e))}", lt, [])
            raise Unsupported(e, f"`or` on a {lt!r}")
        if not boolctx:
            raise Unsupported(e, "and / or outside a condition")
        parts = []
        env2 = env.copy()
        for v in e.values:
            lean, ty, pre = self.expr(v, env2, boolctx=True)
            if pre:
                raise Unsupported(e, "raising operation in a condition")
            parts.append(atom(self.truth(lean, ty, v)))
            # later operands are evaluated knowing the earlier ones were true (and) / false (or)
            self.collect_facts(v, env2, is_and)
        return ((" && " if is_and else " || ").join(parts), "bool", [])

    def compare(self, e: ast.Compare, env):
        if len(e.ops) != 1:
            raise Unsupported(e, "chained comparison")
        op = e.ops[0]
        l, lt, p1 = self.expr(e.left, env)
        r, rt, p2 = self.expr(e.comparators[0], env)
        if p1 or p2:
            raise Unsupported(e, "raising operation in a comparison")
        if isinstance(op, (ast.Is, ast.IsNot)):
            if rt != ("opt", None):
                raise Unsupported(e, "`is` with something other than None")
            if lt == "optmsg" or (isinstance(lt, tuple) and lt[0] == "opt"):
                t = f"({l}).isNone"
                return (t if isinstance(op, ast.Is) else f"!{t}", "bool", [])
            raise Unsupported(e, "`is None` on a non-Optional")
        if isinstance(op, (ast.In, ast.NotIn)):
            if rt == ("set", "int") and lt == "int":
                t = f"setContains {atom(r)} {atom(l)}"
                return (t if isinstance(op, ast.In) else f"!({t})", "bool", [])
            raise Unsupported(e, "`in` on something other than a set of ints")
        if isinstance(op, (ast.Eq, ast.NotEq)):
            sym = "==" if isinstance(op, ast.Eq) else "!="
            if lt == rt and lt in ("int", "state", "bool", "str", "bytes"):
                return (f"({atom(l)} {sym} {atom(r)})", "bool", [])
            if lt == ("opt", "str") and rt == "str":
                return (f"({atom(l)} {sym} some {atom(r)})", "bool", [])
            raise Unsupported(e, f"comparison of {lt!r} with {rt!r}")
        if isinstance(op, (ast.Lt, ast.LtE, ast.Gt, ast.GtE)) and lt == rt == "int":
            sym = {ast.Lt: "<", ast.LtE: "≤", ast.Gt: ">", ast.GtE: "≥"}[type(op)]
            return (f"decide ({atom(l)} {sym} {atom(r)})", "bool", [])
        raise Unsupported(e, "comparison outside the subset")

    def subscript(self, e: ast.Subscript, env):
        base, bty, pre = self.expr(e.value, env)
        if bty != "bytes" or not isinstance(e.slice, ast.Slice) or e.slice.step is not None:
            raise Unsupported(e, "subscript other than a bytes slice")
        lo, hi = e.slice.lower, e.slice.upper
        if lo is None and hi is not None:
            h, ht, p2 = self.expr(hi, env)
            if ht != "int":
                raise Unsupported(e, "slice bound that is not an int")
            return (f"PyRt.sliceTo {atom(base)} {atom(h)}", "bytes", pre + p2)
        if lo is not None and hi is None:
            l, lt, p2 = self.expr(lo, env)
            if lt != "int":
                raise Unsupported(e, "slice bound that is not an int")
            return (f"PyRt.sliceFrom {atom(base)} {atom(l)}", "bytes", pre + p2)
        raise Unsupported(e, "slice shape")

    def call_expr(self, e: ast.Call, env):
        fsrc = ast.unparse(e.func)
        if self.as_method_call(e) is not None:
            lean, ty, prelude = self.method_call(self.as_method_call(e), env, e)
            t = self.tmp("r")
            return (t, ty, prelude + [(t, lean)])
        if fsrc == "isinstance" and len(e.args) == 2:
            x, xt, pre = self.expr(e.args[0], env)
            cls_nodes = e.args[1].elts if isinstance(e.args[1], ast.Tuple) else [e.args[1]]
            concrete, markers = [], []
            for c in cls_nodes:
                n = ast.unparse(c)
                if n in MSG_CTOR:
                    if n not in self.f.msg_bases:
                        raise Unsupported(e, f"{n} is not a class of _messages.py")
                    concrete.append("." + n)
                elif n in ("Request", "Response") and n in self.f.msg_bases:
                    markers.append(f"{n}_classes")
                else:
                    raise Unsupported(e, f"isinstance against {n}")
            lst = " ++ ".join(([("[" + ", ".join(concrete) + "]")] if concrete else []) + markers)
            if len(markers) + (1 if concrete else 0) > 1:
                lst = f"({lst})"
            if xt == "msg":
                return (f"isInstance {atom(x)} {lst}", "bool", pre)
            if xt == "optmsg":
                return (f"isInstanceOpt {atom(x)} {lst}", "bool", pre)
            raise Unsupported(e, f"isinstance on a {xt!r}")
        if fsrc == "len" and len(e.args) == 1:
            x, xt, pre = self.expr(e.args[0], env)
            if xt == "bytes":
                return (f"PyRt.len {atom(x)}", "int", pre)
            if isinstance(xt, tuple) and xt[0] in ("set", "list"):
                return (f"(({x}).length : Int)", "int", pre)
            raise Unsupported(e, "len of this type")
        if fsrc in ("bytes", "bytearray") and len(e.args) == 1:
            x, xt, pre = self.expr(e.args[0], env)
            if xt == "bytes":
                return (x, "bytes", pre)
            raise Unsupported(e, f"{fsrc}() of a non-bytes value")
        if fsrc == "bytearray" and not e.args:
            return ("([] : List Nat)", "bytes", [])
        if fsrc == "set" and not e.args:
            return ("([] : List Int)", ("set", "int"), [])
        if fsrc == "str" and len(e.args) == 1 and isinstance(e.args[0], ast.Name) \
                and ("__currentvar__" in env.exc and env.exc["__currentvar__"][0] == e.args[0].id):
            self.add_extra("exc_text", "List Nat")
            return ("exc_text", "str", [])
        if isinstance(e.func, ast.Attribute) and e.func.attr == "pack" and len(e.args) == 1 \
                and ast.unparse(e.args[0]) == "self._packing_options":
            x, xt, pre = self.expr(e.func.value, env)
            if xt != "msg":
                raise Unsupported(e, ".pack of a non-message")
            return (f"encMsg {atom(x)}", "bytes", pre)
        if fsrc in self.f.int_enums and len(e.args) == 1:
            x, xt, pre = self.expr(e.args[0], env)
            if xt != "int":
                raise Unsupported(e, "enum constructor on a non-int")
            if fsrc in self.f.int_enum_open:
                return (x, "int", pre)        # `_missing_` accepts every int
            self.tr.used_int_enum_ctor.add(fsrc)
            t = self.tmp()
            return (t, "int", pre + [(t, f"Res.lift self (enumOf {fsrc}_members {atom(x)})")])
        if fsrc in MSG_CTOR:
            return self.msg_ctor(e, fsrc, env)
        if fsrc in VALUE_CTOR:
            return self.value_ctor(e, fsrc, env)
        raise Unsupported(e, f"call of {fsrc} is outside the subset")

    FIELD_TYPES = {
        "version": "int", "name": None, "authentication": "cred", "result": "result",
        "server_sasl_creds": ("opt", "bytes"), "base_object": "str", "scope": "int", "deref_aliases": "int",
        "size_limit": "int", "time_limit": "int", "types_only": "bool", "filter": "filter",
        "attributes": None, "object_name": "str", "uris": ("list", "str"), "value": ("opt", "bytes"),
    }

    def msg_field_type(self, cls, fld):
        if fld == "name":
            return ("opt", "str") if cls == "ExtendedResponse" else "str"
        if fld == "attributes":
            return ("list", "attr") if cls == "SearchResultEntry" else ("list", "str")
        return self.FIELD_TYPES[fld]

    def ctor_args(self, e, fields, env, what):
        if e.args:
            raise Unsupported(e, f"positional arguments in {what}(...)")
        kws = {kw.arg: kw.value for kw in e.keywords}
        if set(kws) != {f for f, _ in fields}:
            raise Unsupported(e, f"{what}(...) must give exactly the fields {[f for f, _ in fields]}")
        # Python evaluates keyword arguments in source order
        vals, prelude = {}, []
        for kw in e.keywords:
            want = dict(fields)[kw.arg]
            lean, ty, pre = self.expr(kw.value, env)
            prelude += pre
            if not self.compatible(ty, want):
                raise Unsupported(e, f"{what}.{kw.arg}: {ty!r} given, {want!r} expected")
            vals[kw.arg] = atom(self.coerce(lean, ty, want, e))
        return vals, prelude

    def msg_ctor(self, e, cls, env):
        opc, flds = MSG_CTOR[cls]
        declared = self.f.msg_fields.get(cls)
        if declared is None or declared != flds:
            raise Unsupported(e, f"dataclass fields of {cls} are {declared}, the table says {flds}")
        if self.f.msg_fields.get("LDAPMessage") != ["message_id", "controls"]:
            raise Unsupported(e, "fields of LDAPMessage changed")
        fields = [("message_id", "int"), ("controls", ("list", "control"))] + \
                 [(f_, self.msg_field_type(cls, f_)) for f_ in flds]
        vals, prelude = self.ctor_args(e, fields, env, cls)
        op = " ".join([f"Op.{opc}"] + [vals[f_] for f_ in flds])
        return (f"(⟨{vals['message_id']}, {op}, {vals['controls']}⟩ : Msg)", "msg", prelude)

    def value_ctor(self, e, cls, env):
        ctor, fields, ty = VALUE_CTOR[cls]
        if e.args and not e.keywords and len(e.args) == len(fields) == 1:
            e = ast.Call(func=e.func, args=[], keywords=[ast.keyword(arg=fields[0][0], value=e.args[0])])
        vals, prelude = self.ctor_args(e, fields, env, cls)
        return (f"({ctor} " + " ".join(vals[f_] for f_, _ in fields) + ")", ty, prelude)


# ---------------------------------------------------------------------------------------------------


def main(argv):
    repo = os.environ.get("VERIF_REPO", "/repo")
    src = os.path.join(repo, "src", "sansldap", "_session.py")
    msgs = os.path.join(repo, "src", "sansldap", "_messages.py")
    out = DEFAULT_OUT
    check = False
    i = 0
    while i < len(argv):
        if argv[i] == "--check":
            check = True
        elif argv[i] == "--out":
            i += 1
            out = argv[i]
        elif argv[i] == "--src":
            i += 1
            src = argv[i]
        elif argv[i] == "--messages":
            i += 1
            msgs = argv[i]
        else:
            print(__doc__)
            return 2
        i += 1
    with open(src) as fh:
        stree = ast.parse(fh.read())
    with open(msgs) as fh:
        mtree = ast.parse(fh.read())
    facts = Facts(stree, mtree)
    tr = Translator(facts)
    tr.used_int_enum_members = set()
    tr.used_int_enum_ctor = set()
    for cls, meth in TARGETS:
        if cls not in facts.classes:
            tr.failed = True
            tr.out_defs.append([f'def {cls}_{lname(meth)}_untranslated : String := "class {cls} not found"'])
            continue
        try:
            tr.require(cls, facts.mro(cls), meth, facts.classes[cls])
        except Unsupported:
            pass
    text = tr.render("src/sansldap/_session.py (class hierarchy: src/sansldap/_messages.py)")
    if check:
        try:
            with open(out) as fh:
                old = fh.read()
        except FileNotFoundError:
            old = None
        if old != text:
            print("py2lean_session: generated file is STALE", file=sys.stderr)
            return 1
        return 3 if tr.failed else 0
    os.makedirs(os.path.dirname(out), exist_ok=True)
    with open(out, "w") as fh:
        fh.write(text)
    return 3 if tr.failed else 0


if __name__ == "__main__":
    sys.exit(main(sys.argv[1:]))
