"""Executes line-protocol requests on the real sansldap code (in-process, from /repo/src) and
returns replies in the same canonical JSON form the Lean driver prints."""
from __future__ import annotations

import json

import codec as C
from codec import sansldap, M, CT
from sansldap import asn1 as A
from sansldap.asn1 import ASN1Reader, ASN1Tag, TagClass


def _options(regs) -> M.PackingOptions:
    o = M.PackingOptions()
    regs = regs or {}
    if regs.get("control"):
        o.control.choices.append(CT.CustomControl)
    if regs.get("filter"):
        o.filter.choices.append(CT.CustomFilter)
    if regs.get("auth"):
        o.authentication.choices.append(CT.CustomAuth)
    return o


_OBS = {}


def _observable(key):
    """An internal buffer is compared only while it means what the model's field means — calibrated once per process on a fresh
    session through the public API: after one complete request plus three octets of the next one have been delivered to a server,
    the incoming buffer holds exactly those three octets; after one accepted call the outgoing buffer holds exactly what
    data_to_send() then returns.  (A buffer that is compacted lazily, or a queue of chunks with a read offset, fails this and is then
    simply not compared; wrongly kept or dropped octets still show in the messages and bytes the API returns.)"""
    if key not in ("residue", "out"):
        return True
    if key not in _OBS:
        ok = False
        try:
            if key == "residue":
                srv = sansldap.LDAPServer()
                cl = sansldap.LDAPClient()
                cl.extended_request("1.2")
                one = bytes(cl.data_to_send())
                srv.receive(one + one[:3])
                ok = bytes(srv._incoming_buffer) == one[:3]
            else:
                cl = sansldap.LDAPClient()
                cl.extended_request("1.2")
                held = bytes(cl._outgoing_buffer)
                ok = held == bytes(cl.data_to_send()) and bytes(cl._outgoing_buffer) == b""
        except Exception:  # noqa: BLE001
            ok = False
        _OBS[key] = ok
    return _OBS[key]


# the buffer kinds deliveries rotate through: buffers of UNSIGNED octets (what sockets, ssl objects and recv_into hand out).  memoryviews of
# signed-char / char / ctypes items are accepted by the unchanged library too (it reads octets with struct), but a refactor that indexes the view
# (`view[0]`) instead is behaviour-preserving for every ordinary caller and is in the false-alarm corpus (harmless/asn1): those kinds are outside
# the domain the checks judge (DESIGN.md, "buffer kinds"); `EXOTIC_KINDS` are only observed (C07 histogram)
class _StrSub(str):
    """a str subclass (legal wherever a str is): equal to and hashing like the plain string"""


def as_name(name, salt=0):
    """the same OID as another legal str object: the ExtendedOperations member with that value (a str-mixin enum), a str subclass instance,
    or the plain str"""
    if name is None:
        return None
    if salt % 3 == 0:
        for m_ in sansldap.ExtendedOperations:
            if m_.value == name:
                return m_
    if salt % 3 == 1:
        return _StrSub(name)
    return name


INPUT_KINDS = ["bytes", "bytes", "bytearray", "memoryview", "bytes", "memoryview-bytearray", "bytes"]
EXOTIC_KINDS = ["memoryview-signed", "memoryview-char", "memoryview-ctypes"]


def input_object(b: bytes, kind: str):
    """the same octets as another legal buffer object: bytes, bytearray, memoryview (format 'B'), memoryview over array('b') (format 'b':
    items are SIGNED), memoryview cast to 'c' (items are bytes objects), memoryview over a ctypes c_ubyte array (format '<B')"""
    if kind == "bytearray":
        return bytearray(b)
    if kind == "memoryview":
        return memoryview(bytes(b))
    if kind == "memoryview-bytearray":
        return memoryview(bytearray(b))
    if kind == "memoryview-signed":
        import array
        a = array.array("b", bytes(len(b)))
        memoryview(a).cast("B")[:] = b
        return memoryview(a)
    if kind == "memoryview-char":
        return memoryview(bytes(b)).cast("c")
    if kind == "memoryview-ctypes":
        import ctypes
        return memoryview((ctypes.c_ubyte * len(b)).from_buffer_copy(b)) if b else memoryview(b"")
    return bytes(b)


import guard  # noqa: E402


class Impl:
    def __init__(self):
        self.sessions = {}
        self.retained = {}    # session name -> [(message object handed out by receive, its JSON at that time)]

    # ------------------------------------------------------------ pure ops
    def pure(self, op, j):
        if op == "int_pack":
            return {"hex": C.pack_integer(j["v"]).hex()}
        if op in ("int_read", "bool_read", "octets_read"):
            data = bytes.fromhex(j["hex"])
            r = ASN1Reader(data)
            try:
                if op == "int_read":
                    v = r.read_integer()
                elif op == "bool_read":
                    v = r.read_boolean()
                else:
                    v = r.read_octet_string().hex()
            except BaseException as e:  # noqa: BLE001
                return {"err": C.err_name(e)}
            return {"ok": {"v": v, "rest": len(r.get_remaining_data())}}
        if op == "bool_pack":
            return {"hex": C.pack_boolean(j["v"]).hex()}
        if op == "octets_pack":
            return {"hex": C.pack_octets(bytes.fromhex(j["hex"])).hex()}
        if op == "hdr_pack":
            hdr = C.pack_header(j["cls"], j["cons"], j["num"], j["len"])
            return {"hex": hdr.hex()} if hdr is not None else {"skip": True}
        if op == "tlv_pack":
            return {"hex": C.pack_tlv(j["cls"], j["cons"], j["num"], bytes.fromhex(j["content"])).hex()}
        if op == "hdr_read":
            try:
                h = ASN1Reader(bytes.fromhex(j["hex"])).peek_header()
            except BaseException as e:  # noqa: BLE001
                return {"err": C.err_name(e)}
            return {"ok": {"cls": int(h.tag.tag_class), "cons": bool(h.tag.is_constructed), "num": int(h.tag.tag_number),
                           "hlen": h.tag_length, "len": h.length}}
        if op == "utf8":
            try:
                bytes.fromhex(j["hex"]).decode("utf-8")
                return {"ok": True}
            except UnicodeDecodeError:
                return {"ok": False}
        if op == "enc":
            m = C.msg_from_json(j["msg"])
            return {"hex": m.pack(M.PackingOptions()).hex()}
        if op == "dec":
            data = bytes.fromhex(j["hex"])
            r = ASN1Reader(data)
            try:
                m = M.unpack_ldap_message(r, _options(j.get("regs")))
            except BaseException as e:  # noqa: BLE001
                return {"err": C.err_name(e)}
            return {"ok": {"msg": C.msg_to_json(m), "rest": len(r.get_remaining_data())}}
        if op == "ftext":
            return {"hex": str(C.filter_from_json(j["filter"])).encode("utf-8", errors="surrogatepass").hex()}
        if op == "fparse":
            FilterSyntaxError = C.FilterSyntaxError

            text = "".join(chr(c) for c in j["cps"])
            import p_filter as _PF

            try:
                f = _PF.guarded(lambda: sansldap.LDAPFilter.from_string(text))
            except FilterSyntaxError as e:
                return {"err": {"off": e.offset, "len": e.length}}
            except BaseException as e:  # noqa: BLE001
                return {"err": "Other:" + type(e).__name__}
            try:
                return {"ok": C.filter_to_json(f)}
            except RecursionError:
                return {"skip": True}      # accepted, but too deep for the harness to serialise: not compared
        if op == "stext":
            import p_schema as PS

            return {"text": PS.cps(str(PS.def_from_json(j["kind"], j["def"])))}
        if op == "sparse":
            import p_schema as PS

            text = PS.uncps(j["cps"])
            try:
                d = PS.CLS[j["kind"]].from_string(text)
            except ValueError:
                return {"err": "ValueError"}
            except BaseException as e:  # noqa: BLE001
                return {"err": "Other:" + type(e).__name__}
            return {"ok": PS.def_to_json(d)}
        if op == "attr_valid":
            text = bytes.fromhex(j["hex"]).decode("utf-8")
            # observed through the public parser: an attribute description is valid iff `(<attr>=x)` is accepted with that attribute
            if not text or any(c in "=()*\\<>~: \x00" for c in text):
                from names import NS

                pat = NS.find("_ATTRIBUTE_PATTERN")
                return {"ok": bool(pat.match(text)) if pat is not None else False}
            try:
                f = sansldap.LDAPFilter.from_string("(" + text + "=x)")
                return {"ok": getattr(f, "attribute", None) == text}
            except C.FilterSyntaxError:
                return {"ok": False}
        raise KeyError(op)

    # ------------------------------------------------------------ sessions
    def snapshot(self, s):
        """public state plus, where the current code still has them in a readable shape, four internal fields; a field that cannot
        be read (renamed, retyped) is left out and then not compared (drive.strip_unobservable) — the behavioural rules do not need it"""
        d = {"state": s.state.name}

        def octets(v):
            try:
                return bytes(v).hex()
            except Exception:  # noqa: BLE001
                return b"".join(bytes(x) for x in v).hex()  # a queue of chunks

        def ids(v):
            return sorted({int(x) for x in v})

        for key, attr, conv in (("out", "_outgoing_buffer", octets), ("outstanding", "_outstanding_requests", ids),
                                ("searches", "_search_requests", ids), ("residue", "_incoming_buffer", octets)):
            if not _observable(key):
                continue
            try:
                d[key] = conv(getattr(s, attr))
            except Exception:  # noqa: BLE001
                pass
        return d

    def notification_kind(self, resp):
        if resp is None:
            return "none"
        try:
            r = ASN1Reader(resp)
            m = M.unpack_ldap_message(r, M.PackingOptions())
            if r.get_remaining_data():
                return "other:trailing:" + resp.hex()
        except BaseException as e:  # noqa: BLE001
            return "other:undecodable:" + resp.hex()
        if isinstance(m, M.UnbindRequest) and m.message_id == 0 and not m.controls:
            return "unbind"
        if (
            isinstance(m, M.ExtendedResponse)
            and m.message_id == 0
            and m.name == "1.3.6.1.4.1.1466.20036"
            and int(m.result.result_code) == 2
            and m.value is None
            and not m.controls
        ):
            return "notice"
        return "other:" + resp.hex()

    def call(self, s, c):
        """one API call; every second call goes through the convenience spellings of the same call (bind_simple / bind_sasl, keyword
        arguments, parameters left at their defaults when the value IS the default) — by the documentation these are the same call"""
        k = c["k"]
        ctrls = [C.control_from_json(x) for x in c.get("controls") or []]
        self._alt = not getattr(self, "_alt", False)
        alt = self._alt

        def opt(d):
            """drop parameters whose value is the documented default"""
            return {n: v for n, (v, default) in d.items() if not (alt and v == default and type(v) is type(default))}

        if k == "bind":
            cred = C.cred_from_json(c["cred"])
            dn = C.untx(c["dn"])
            if alt and isinstance(cred, sansldap.SimpleCredential):
                return s.bind_simple(dn or None, cred.password or None, **opt({"controls": (ctrls, [])}))
            if alt and isinstance(cred, sansldap.SaslCredential):
                return s.bind_sasl(cred.mechanism, dn or None, cred.credentials, **opt({"controls": (ctrls, [])}))
            return s.bind(dn, cred, controls=ctrls)
        if k == "search":
            f = None if c.get("filter") is None else C.filter_from_json(c["filter"])
            attrs = [C.untx(a) for a in c["attrs"]]
            if alt:
                return s.search_request(**opt({"base_object": (C.untx(c["base"]), ""), "scope": (c["scope"], 2), "dereferencing_policy": (c["deref"], 0),
                                               "size_limit": (c["size"], 0), "time_limit": (c["time"], 0), "types_only": (c["typesOnly"], False),
                                               "attributes": (attrs, []), "controls": (ctrls, [])}), filter=f)
            return s.search_request(C.untx(c["base"]), c["scope"], c["deref"], c["size"], c["time"], c["typesOnly"], f, attrs, ctrls)
        if k == "extended":
            if alt:
                return s.extended_request(as_name(C.untx(c["name"]), self._bump_nm()), **opt({"value": (C.ounhx(c.get("value")), None), "controls": (ctrls, [])}))
            return s.extended_request(C.untx(c["name"]), C.ounhx(c.get("value")), ctrls)
        if k == "unbind":
            return s.unbind()
        if k == "bindResponse":
            if alt:
                return s.bind_response(c["id"], **opt({"sasl_creds": (C.ounhx(c.get("sasl")), None), "result_code": (sansldap.LDAPResultCode(c["code"]), sansldap.LDAPResultCode.SUCCESS),
                                                        "matched_dn": (C.untx(c["mdn"]), ""), "diagnostics_message": (C.untx(c["diag"]), ""), "controls": (ctrls, [])}))
            return s.bind_response(c["id"], C.ounhx(c.get("sasl")), sansldap.LDAPResultCode(c["code"]), C.untx(c["mdn"]),
                                   C.untx(c["diag"]), ctrls)
        if k == "extendedResponse":
            if alt:
                return s.extended_response(c["id"], **opt({"name": (as_name(C.ountx(c.get("name")), self._bump_nm()), None), "value": (C.ounhx(c.get("value")), None),
                                                            "result_code": (sansldap.LDAPResultCode(c["code"]), sansldap.LDAPResultCode.SUCCESS),
                                                            "matched_dn": (C.untx(c["mdn"]), ""), "diagnostics_message": (C.untx(c["diag"]), ""),
                                                            "controls": (ctrls, [])}))
            return s.extended_response(c["id"], C.ountx(c.get("name")), C.ounhx(c.get("value")),
                                       sansldap.LDAPResultCode(c["code"]), C.untx(c["mdn"]), C.untx(c["diag"]), ctrls)
        if k == "entry":
            attrs = [M.PartialAttribute(C.untx(a["name"]), [C.unhx(v) for v in a["vals"]]) for a in c["attrs"]]
            if alt:
                return s.search_result_entry(c["id"], object_name=C.untx(c["name"]), attributes=attrs, **opt({"controls": (ctrls, [])}))
            return s.search_result_entry(c["id"], C.untx(c["name"]), attrs, ctrls)
        if k == "reference":
            return s.search_result_reference(c["id"], [C.untx(u) for u in c["uris"]], **opt({"controls": (ctrls, [])}))
        if k == "done":
            if alt:
                return s.search_result_done(c["id"], **opt({"result_code": (sansldap.LDAPResultCode(c["code"]), sansldap.LDAPResultCode.SUCCESS),
                                                             "matched_dn": (C.untx(c["mdn"]), ""), "diagnostics_message": (C.untx(c["diag"]), ""),
                                                             "controls": (ctrls, [])}))
            return s.search_result_done(c["id"], sansldap.LDAPResultCode(c["code"]), C.untx(c["mdn"]), C.untx(c["diag"]), ctrls)
        if k == "receive":
            # the chunk is handed over as one of the buffer kinds a transport may use (all accepted by receive): the kinds rotate per Impl
            self._rx = getattr(self, "_rx", 0) + 1
            return s.receive(input_object(C.unhx(c["chunk"]), INPUT_KINDS[self._rx % len(INPUT_KINDS)]))
        if k == "drain":
            return s.data_to_send(c.get("amount"))
        if k == "register":
            w = c["what"]
            if w == "control":
                return s.register_control(CT.CustomControl)
            if w == "filter":
                return s.register_filter(CT.CustomFilter)
            if w == "auth":
                return s.register_auth_credential(CT.CustomAuth)
        raise KeyError(k)

    def _bump_nm(self):
        self._nm = getattr(self, "_nm", 0) + 1
        return self._nm

    def outcome(self, s, c):
        try:
            r = guard.guarded(lambda: self.call(s, c), 8.0)
        except sansldap.ProtocolError as e:
            return {"k": "ProtocolError", "resp": self.notification_kind(e.response)}, e
        except sansldap.LDAPError as e:
            return {"k": "LDAPError"}, e
        except ValueError as e:
            return {"k": "ValueError"}, e
        except KeyError as e:
            return {"k": "KeyError"}, e
        except AttributeError as e:
            if c["k"] in ("bind", "search", "extended", "bindResponse", "extendedResponse", "entry", "reference", "done"):
                return {"k": "NotApplicable"}, e
            return {"k": "Other:AttributeError"}, e
        except BaseException as e:  # noqa: BLE001
            return {"k": "Other:" + type(e).__name__}, e
        if r is None:
            return {"k": "unit"}, None
        if isinstance(r, (bytes, bytearray)):
            return {"k": "bytes", "b": bytes(r).hex()}, None
        if isinstance(r, list):
            return {"k": "msgs", "ms": [C.msg_to_json(m) for m in r]}, r
        if isinstance(r, int):
            return {"k": "sent", "id": int(r)}, None
        return {"k": "Other:return:" + type(r).__name__}, None

    def handle(self, j):
        op = j["op"]
        if op == "sess_new":
            s = sansldap.LDAPClient() if j["role"] == "client" else sansldap.LDAPServer()
            self.sessions[j["name"]] = s
            return {"ok": self.snapshot(s)}
        if op == "sess_del":
            self.sessions.pop(j["name"], None)
            return {"ok": None}
        if op == "call":
            s = self.sessions[j["name"]]
            o, r = self.outcome(s, j["call"])
            if o.get("k") == "msgs" and isinstance(r, list):
                keep = self.retained.setdefault(j["name"], [])
                for m, mj in zip(r, o["ms"]):
                    keep.append((m, json.loads(json.dumps(mj))))
            return {"outcome": o, "sess": self.snapshot(s)}
        if op == "retained":
            # the message objects receive() handed to the caller earlier, looked at again now: they are the caller's results and
            # nothing that happens later (on this or any other session) may change them
            changed = []
            for m, at_time in self.retained.get(j["name"], []):
                try:
                    now = C.msg_to_json(m)
                except BaseException as e:  # noqa: BLE001
                    now = {"error": type(e).__name__}
                if now != at_time:
                    changed.append({"at_time": at_time, "now": now})
            return {"retained": len(self.retained.get(j["name"], [])), "changed": changed[:3]}
        return self.pure(op, j)
