"""Shared machinery for the session properties C08, C09, C10, C12 (and C19): a generator of
joint client/server histories (as line-protocol requests), replay on implementation and
model, and executable monitors that test the property statements directly on the
implementation's trace."""
from __future__ import annotations

import collections
import copy
import json

import codec as C
import drive
import gen
import impl as IMPL
from codec import M, sansldap

NOTICE = "1.3.6.1.4.1.1466.20036"
SEND_KINDS = ("bind", "search", "extended", "unbind", "bindResponse", "extendedResponse", "entry", "reference", "done")
CLIENT_REQ = ("bind", "search", "extended")
SERVER_RESP = ("bindResponse", "extendedResponse", "entry", "reference", "done")
FINAL_RESP = ("bindResponse", "extendedResponse", "done")


# ------------------------------------------------------------------ history generation

def small_controls(rng):
    return gen.g_controls(rng) if rng.random() < 0.15 else []


def g_client_call(rng, custom=False):
    """`custom`: the session has the harness's custom control / filter / credential types registered and may use them"""
    r = rng.random()
    if r < 0.3:
        cred = {"k": "simple", "pw": C.tx(rng.choice(["", "pw"]))} if rng.random() < 0.6 else \
            {"k": "sasl", "mech": C.tx(rng.choice(["GSSAPI", ""])), "creds": rng.choice([None, "", "0102"])}
        if custom and rng.random() < 0.4:
            cred = {"k": "custom", "v": C.tx(rng.choice(["u:p", ""]))}
        return {"k": "bind", "dn": C.tx(rng.choice(["", "cn=a"])), "cred": cred, "controls": small_controls(rng)}
    if r < 0.6:
        return {"k": "search", "base": C.tx(rng.choice(["", "dc=x"])), "scope": rng.choice([0, 1, 2]), "deref": rng.choice([0, 3]),
                "size": rng.choice([0, 10, 1, 2, 3]), "time": rng.choice([0, 0, 1]), "typesOnly": rng.random() < 0.3,
                "filter": None if rng.random() < 0.5 else gen.g_filter(rng, 2, allow_custom=custom), "attrs": [C.tx("cn")] if rng.random() < 0.5 else [],
                "controls": small_controls(rng) if not custom else (gen.g_controls(rng, allow_custom=True) if rng.random() < 0.4 else [])}
    if r < 0.9:
        return {"k": "extended", "name": C.tx(rng.choice(["1.3.6.1.4.1.1466.20037", "1.2.3", NOTICE])), "value": rng.choice([None, "", "00ff"]),
                "controls": small_controls(rng)}
    return {"k": "unbind"}


def pick_id(rng, sess, retired):
    out = sorted(getattr(sess, "_outstanding_requests", []))
    srch = sorted(getattr(sess, "_search_requests", []))
    r = rng.random()
    if r < 0.55 and out:
        return rng.choice(out)
    if r < 0.65 and srch:
        return rng.choice(srch)
    if r < 0.8 and retired:
        return rng.choice(sorted(retired))
    return rng.choice([0, 1, 2, 3, 7, 99, -1])


# result codes that are NOT saslBindInProgress (14) but become 14 when truncated to 8 / 16 / 32 / 64 bits, or have 14 as their magnitude
NEAR14 = [14 + 2**32, 14 - 2**32, 14 + 2**64, 14 + 256, 14 + 65536, -14, 14 - 2**64]


def g_server_call(rng, sess, retired):
    i = pick_id(rng, sess, retired)
    code = rng.choice([0, 0, 0, 14, 49, 2, 4096, 14, rng.choice(NEAR14)])
    r = rng.random()
    base = {"id": i, "controls": small_controls(rng)}
    # matched DN and diagnostic message: empty, equal, and DIFFERENT from each other (every result-carrying call)
    mdn, diag = rng.choice([("", ""), ("", "d"), ("cn=m", ""), ("cn=m", "diagnostic text"), ("x", "x"), ("dc=a,dc=b", "cn=m")])
    if r < 0.25:
        return {"k": "bindResponse", "sasl": rng.choice([None, "aa"]), "code": code, "mdn": C.tx(mdn), "diag": C.tx(diag), **base}
    if r < 0.45:
        name = rng.choice([None, None, "1.2.3", NOTICE])
        return {"k": "extendedResponse", "name": None if name is None else C.tx(name), "value": rng.choice([None, "01"]), "code": code,
                "mdn": C.tx(mdn), "diag": C.tx(diag), **base}
    if r < 0.6:
        return {"k": "entry", "name": C.tx("cn=x"), "attrs": [{"name": C.tx("cn"), "vals": [rng.choice(["78", "62", "", "7a"]) for _ in range(rng.choice([1, 2, 3]))]}]
                if rng.random() < 0.5 else [], **base}
    if r < 0.7:
        return {"k": "reference", "uris": [C.tx("ldap://a")], **base}
    if r < 0.92:
        return {"k": "done", "code": code, "mdn": C.tx(mdn), "diag": C.tx(diag), **base}
    return {"k": "unbind"}


def g_amount(rng, pending):
    return rng.choice([None, None, 0, 1, max(pending - 1, 0), pending, pending + 1, 10**6, -1, -pending - 1, pending // 2, 3])


def ad_notice(i: int) -> bytes:
    """the notice of disconnection as Active Directory frames it (MS-ADTS): an ExtendedResponse without responseName and the OID in a
    `[10]` element of the LDAPMessage envelope, after the protocolOp"""
    import ber as _ber

    def tlv(tag, content):
        return bytes([tag]) + _ber.enc_len(len(content)) + content

    mid = i.to_bytes(max(1, (i.bit_length() + 8) // 8), "big", signed=True) if i else b"\0"
    return tlv(0x30, tlv(2, mid) + tlv(0x78, tlv(0x0A, b"\x34") + tlv(4, b"") + tlv(4, b"")) + tlv(0x8A, NOTICE.encode()))


def crafted_for_client(rng, client, retired):
    """a single response-ish message carrying a candidate id class, packed by the library"""
    i = pick_id(rng, client, retired)
    if rng.random() < 0.08 and i >= 0:
        data = ad_notice(i)
        return data, C.msg_to_json(M.unpack_ldap_message(sansldap.asn1.ASN1Reader(data), M.PackingOptions()))
    kind = rng.choice(["bindResp", "searchEntry", "searchDone", "searchRef", "extResp", "extResp", "bindReq", "extReq", "searchReq", "unbind"])
    op = gen.g_op(rng, kind, depth=1)
    if kind == "extResp" and rng.random() < 0.3:
        op["name"] = C.tx(NOTICE)
    if kind == "bindResp" and rng.random() < 0.55:
        op["res"]["code"] = 14 if rng.random() < 0.7 else rng.choice(NEAR14)
    m = {"id": i, "op": op, "controls": []}
    return C.msg_from_json(m).pack(M.PackingOptions()), m


def crafted_for_server(rng, custom=False):
    kind = rng.choice(["bindReq", "searchReq", "extReq", "extReq", "unbind", "bindResp", "extResp", "searchDone"])
    op = gen.g_op(rng, kind, depth=1, allow_custom=custom)
    if kind == "extResp" and rng.random() < 0.5:
        op["name"] = C.tx(NOTICE)
    if kind == "extReq" and rng.random() < 0.2:
        op["name"] = C.tx(NOTICE)
    m = {"id": rng.choice([1, 2, 3, 5, 0, 70000]), "op": op, "controls": gen.g_controls(rng, allow_custom=True) if custom else []}
    return C.msg_from_json(m).pack(M.PackingOptions()), m


def junk(rng):
    r = rng.random()
    if r < 0.3:
        return bytes(rng.randrange(256) for _ in range(rng.randrange(1, 12)))
    if r < 0.5:
        return bytes.fromhex(rng.choice(["300402004200", "30050201016005", "3080", "0500", "30030201", "300602010177010a", "3005020101ff00"]))
    data, _ = crafted_for_server(rng)
    data = bytearray(data)
    i = rng.randrange(len(data))
    data[i] = rng.choice([0, 0x80, 0xFF, data[i] ^ 1, (data[i] + 1) % 256])
    return bytes(data)


def gen_history(rng, length, names=("c", "s"), mode="joint", custom=False):
    """returns a list of requests; the generator executes them on a shadow implementation to
    make state-aware choices (ids, bytes to deliver)"""
    im = IMPL.Impl()
    reqs = []

    def do(r):
        reqs.append(r)
        return im.handle(r)

    cn, sn = names
    do({"op": "sess_new", "name": cn, "role": "client"})
    do({"op": "sess_new", "name": sn, "role": "server"})
    c, s = im.sessions[cn], im.sessions[sn]
    retired = {cn: set(), sn: set()}
    pipe = {cn: b"", sn: b""}          # bytes in flight towards the named session
    for _ in range(length):
        r = rng.random()
        before = {cn: set(getattr(c, "_outstanding_requests", [])), sn: set(getattr(s, "_outstanding_requests", []))}
        if r < 0.22:
            do({"op": "call", "name": cn, "call": g_client_call(rng)})
        elif r < 0.44:
            do({"op": "call", "name": sn, "call": g_server_call(rng, s, retired[sn])})
        elif r < 0.62:
            # move bytes from a session's outgoing buffer into the pipe towards its peer
            src, dst, sess = (cn, sn, c) if rng.random() < 0.5 else (sn, cn, s)
            pending = len(getattr(sess, "_outgoing_buffer", b""))
            rep = do({"op": "call", "name": src, "call": {"k": "drain", "amount": g_amount(rng, pending)}})
            if rep["outcome"]["k"] == "bytes":
                pipe[dst] += bytes.fromhex(rep["outcome"]["b"])
        elif r < 0.82:
            dst = cn if rng.random() < 0.5 else sn
            if pipe[dst]:
                k = rng.choice([len(pipe[dst]), len(pipe[dst]), 1, 2, max(len(pipe[dst]) // 2, 1), max(len(pipe[dst]) - 1, 1)])
                chunk, pipe[dst] = pipe[dst][:k], pipe[dst][k:]
            else:
                chunk = b""
            do({"op": "call", "name": dst, "call": {"k": "receive", "chunk": chunk.hex()}})
        elif r < 0.92:
            if mode == "joint":
                continue
            # crafted single message (candidate id classes) or junk; or a BATCH of two or three crafted messages in one delivery (a closing
            # message — unbind, notice of disconnection — may then stand first or in the middle)
            if rng.random() < 0.22:
                who = cn if rng.random() < 0.5 else sn
                parts_ = []
                for _b in range(rng.choice([2, 2, 3])):
                    parts_.append(crafted_for_client(rng, c, retired[cn])[0] if who == cn else crafted_for_server(rng, custom)[0])
                do({"op": "call", "name": who, "call": {"k": "receive", "chunk": b"".join(parts_).hex()}})
            elif rng.random() < 0.5:
                data, _ = crafted_for_client(rng, c, retired[cn])
                do({"op": "call", "name": cn, "call": {"k": "receive", "chunk": data.hex()}})
            elif rng.random() < 0.6:
                data, _ = crafted_for_server(rng, custom)
                do({"op": "call", "name": sn, "call": {"k": "receive", "chunk": data.hex()}})
            else:
                do({"op": "call", "name": rng.choice([cn, sn]), "call": {"k": "receive", "chunk": junk(rng).hex()}})
        else:
            do({"op": "call", "name": rng.choice([cn, sn]), "call": {"k": "register", "what": rng.choice(["control", "filter", "auth"])}})
        for nm, sess in ((cn, c), (sn, s)):
            retired[nm] |= before[nm] - set(getattr(sess, "_outstanding_requests", []))
    for nm in (cn, sn):
        do({"op": "call", "name": nm, "call": {"k": "drain", "amount": None}})
    return reqs


# ------------------------------------------------------------------ monitors (direct property tests)

def call_message(call, ret_id):
    """the message an accepted send call puts on the wire, built independently of the session"""
    k = call["k"]
    ctrls = [C.control_from_json(x) for x in call.get("controls") or []]
    res = lambda: M.LDAPResult(result_code=M.LDAPResultCode(call["code"]), matched_dn=C.untx(call["mdn"]),
                               diagnostics_message=C.untx(call["diag"]), referrals=[])
    if k == "bind":
        return M.BindRequest(message_id=ret_id, controls=ctrls, version=3, name=C.untx(call["dn"]), authentication=C.cred_from_json(call["cred"]))
    if k == "search":
        f = sansldap.FilterPresent("objectClass") if call.get("filter") is None else C.filter_from_json(call["filter"])
        return M.SearchRequest(message_id=ret_id, controls=ctrls, base_object=C.untx(call["base"]), scope=M.SearchScope(call["scope"]),
                               deref_aliases=M.DereferencingPolicy(call["deref"]), size_limit=call["size"], time_limit=call["time"],
                               types_only=call["typesOnly"], filter=f, attributes=[C.untx(a) for a in call["attrs"]])
    if k == "extended":
        return M.ExtendedRequest(message_id=ret_id, controls=ctrls, name=C.untx(call["name"]), value=C.ounhx(call.get("value")))
    if k == "unbind":
        return M.UnbindRequest(message_id=0, controls=[])
    if k == "bindResponse":
        return M.BindResponse(message_id=call["id"], controls=ctrls, result=res(), server_sasl_creds=C.ounhx(call.get("sasl")))
    if k == "extendedResponse":
        return M.ExtendedResponse(message_id=call["id"], controls=ctrls, result=res(), name=C.ountx(call.get("name")), value=C.ounhx(call.get("value")))
    if k == "entry":
        return M.SearchResultEntry(message_id=call["id"], controls=ctrls, object_name=C.untx(call["name"]),
                                   attributes=[M.PartialAttribute(C.untx(a["name"]), [C.unhx(v) for v in a["vals"]]) for a in call["attrs"]])
    if k == "reference":
        return M.SearchResultReference(message_id=call["id"], controls=ctrls, uris=[C.untx(u) for u in call["uris"]])
    if k == "done":
        return M.SearchResultDone(message_id=call["id"], controls=ctrls, result=res())
    raise KeyError(k)


def ev_of_msgjson(m):
    op = m["op"]
    k = op["k"]
    if k == "unbind":
        return "terminate"
    if k == "bindReq":
        return "bindStart"
    if k == "bindResp":
        return "bindContinue" if op["res"]["code"] == 14 else "bindDone"
    if k == "extResp" and op.get("name") is not None and C.untx(op["name"]) == NOTICE:
        return "terminate"
    return "traffic"


def ev_of_call(call):
    k = call["k"]
    if k == "unbind":
        return "terminate"
    if k == "bind":
        return "bindStart"
    if k == "bindResponse":
        return "bindContinue" if call["code"] == 14 else "bindDone"
    if k == "extendedResponse" and call.get("name") is not None and C.untx(call["name"]) == NOTICE:
        return "terminate"
    return "traffic"


def spec_next(state, ev):
    if state == "CLOSED":
        return "CLOSED"
    if ev == "terminate":
        return "CLOSED"
    if ev == "bindStart":
        return "BINDING"
    if ev == "bindDone":
        return "OPENED"
    if state == "BEFORE_OPEN" and ev in ("traffic", "bindContinue"):
        return "OPENED"
    return state


def monitor(reqs, replies, roles):
    """runs the property statements of C08/C09/C10/C12 over an implementation trace;
    returns {prop: [violation dicts]}"""
    v = collections.defaultdict(list)
    snap = {}
    drained = collections.defaultdict(bytes)
    sent = collections.defaultdict(bytes)
    next_id = collections.defaultdict(lambda: 1)
    inprog = collections.defaultdict(dict)   # operations in progress per session, tracked from API outcomes only
    tail = collections.defaultdict(bytes)    # delivered bytes not yet forming a complete unit (independent framing)
    delivered_reqs = collections.defaultdict(collections.Counter)   # request ids per server, read from the delivered bytes themselves
    answered = collections.defaultdict(collections.Counter)         # final responses accepted per server and id
    handed = collections.defaultdict(list)                          # ids returned by a client's accepted request calls, in call order
    wire_flagged = collections.defaultdict(bool)

    def viol(prop, key, what, i):
        v[prop].append({"key": key, "what": what, "step": i, "history": reqs[: i + 1]})

    for i, (q, rep) in enumerate(zip(reqs, replies)):
        if q["op"] == "sess_new":
            snap[q["name"]] = rep["ok"]
            continue
        if q["op"] != "call" or "outcome" not in rep:
            continue
        nm, call, out, after = q["name"], q["call"], rep["outcome"], rep["sess"]
        before = snap[nm]
        role = roles[nm]
        k, ok = call["k"], out["k"]
        accepted = ok in ("sent", "unit")
        is_send = k in SEND_KINDS
        bo, ao = bytes.fromhex(before.get("out", "")), bytes.fromhex(after.get("out", ""))
        have_int = "out" in before and "out" in after
        prog_before = dict(inprog[nm])

        # ---------------- C12: exactly-once, in-order delivery of outgoing bytes
        if k == "drain":
            if ok != "bytes":
                viol("C12", None, f"drain raised {ok}", i)
            else:
                drained[nm] += bytes.fromhex(out["b"])
                if after.get("state") != before.get("state") or after.get("outstanding") != before.get("outstanding") \
                        or after.get("searches") != before.get("searches"):
                    viol("C12", None, "drain changed protocol state", i)
                amt = call.get("amount")
                if not sent[nm].startswith(drained[nm]):
                    viol("C12", None, "bytes returned by the drain operation are not the next bytes of the accepted sends (dropped, repeated or reordered)", i)
                elif amt is None and drained[nm] != sent[nm]:
                    viol("C12", None, "draining everything did not return all bytes of the accepted sends", i)
                elif amt is not None and amt >= 0 and len(out["b"]) // 2 != min(amt, len(sent[nm]) - (len(drained[nm]) - len(out["b"]) // 2)):
                    viol("C12", None, "drain(amount) returned a different number of bytes than min(amount, pending)", i)
        if is_send and accepted:
            try:
                sent[nm] += call_message(call, out.get("id")).pack(M.PackingOptions())
            except BaseException as e:  # noqa: BLE001
                viol("C12", None, f"cannot build the reference encoding: {type(e).__name__}", i)
        if not sent[nm].startswith(drained[nm]):
            viol("C12", None, "everything drained so far is not a prefix of the encodings of the accepted sends in call order", i)
        # ---------------- C09: the ids ON THE WIRE (read from the drained bytes by the harness's own TLV reader) are the ids handed out, in order
        if role == "client" and k in CLIENT_REQ and ok == "sent" and isinstance(out.get("id"), int):
            handed[nm].append(out["id"])
        if role == "client" and k == "drain" and ok == "bytes" and out["b"]:
            try:
                import ber as _bw
                _, pos_w, _ = _bw.count_frames(drained[nm])
                wire = [int.from_bytes(u.content[2: 2 + u.content[1]], "big", signed=True) for u in _bw.parse(drained[nm][:pos_w], deep=False)
                        if len(u.content) > 2 and u.content[0] == 2 and u.content[1] < 128]
                wire = [w for w in wire if w != 0 or 0 in handed[nm]]      # (the unbind request carries id 0 and is not a handed-out id)
                if wire != handed[nm][: len(wire)] and not wire_flagged[nm]:
                    wire_flagged[nm] = True
                    viol("C09", None, f"the message ids in the bytes the client emitted ({wire[:12]}…) are not the ids handed out by its request calls, in "
                         f"order ({handed[nm][:12]}…): an id was reused, skipped, or emitted by a call that returned none", i)
            except Exception:  # noqa: BLE001
                pass

        # ---------------- C10: refused calls have no wire effect; servers answer only open requests
        if is_send and not accepted and ok != "NotApplicable":
            if ok not in ("LDAPError", "ProtocolError"):
                viol("C10", None, f"a refused send call failed with {ok} instead of the library's error type", i)
            if have_int and ao != bo:
                viol("C10", None, "a refused send call changed the outgoing byte stream", i)
        if role == "server" and k in FINAL_RESP and accepted:
            answered[nm][call["id"]] += 1
            if answered[nm][call["id"]] > delivered_reqs[nm][call["id"]]:
                viol("C10", None, "server emitted more final responses for an id than requests with that id were delivered to it (a retired request "
                     "became answerable again)", i)
        if role == "server" and k in SERVER_RESP and accepted:
            if call["id"] not in prog_before:
                viol("C10", None, "server emitted a response for a request that is not outstanding (never received, or already answered by a final response)", i)
            if "outstanding" in after:
                if k in FINAL_RESP and call["id"] in after["outstanding"]:
                    viol("C10", None, "a final response did not retire the request", i)
                if k not in FINAL_RESP and call["id"] in prog_before and call["id"] not in after["outstanding"]:
                    viol("C10", None, "a search entry/reference retired the request", i)
        # (only for a response of the kind the request calls for: a library that ALSO refuses, say, a search entry for a bind request
        # would be stricter than this one, not wrong)
        matching = {"bindResponse": ("bindReq",), "extendedResponse": ("extReq",), "entry": ("searchReq",), "reference": ("searchReq",),
                    "done": ("searchReq",)}
        if role == "server" and k in SERVER_RESP and not accepted and ok == "LDAPError" and prog_before.get(call["id"]) in matching[k] \
                and before["state"] == "OPENED":
            viol("C10", None, "server refused a response for a request that is outstanding", i)

        # ---------------- C09: client ids and correlation
        if role == "client" and k in CLIENT_REQ and ok == "sent":
            # positive, strictly increasing, never reused (the exact sequence 1, 2, 3 … is the model's business, compared in the
            # correspondence, not demanded by the property)
            if not (isinstance(out["id"], int) and out["id"] >= next_id[nm]):
                viol("C09", None, f"client handed out id {out['id']} after {next_id[nm] - 1} (ids must be positive and strictly increasing)", i)
            next_id[nm] = max(next_id[nm], out["id"] if isinstance(out["id"], int) else 0) + 1
            if have_int:
                try:
                    newb = ao[len(bo):]
                    mm = M.unpack_ldap_message(sansldap.asn1.ASN1Reader(newb), M.PackingOptions())
                    if mm.message_id != out["id"]:
                        viol("C09", None, "the id inside the emitted bytes differs from the id returned", i)
                except BaseException:  # noqa: BLE001
                    pass
        tail_before = tail[nm]
        if k == "receive":
            import ber as _ber
            buf = tail[nm] + bytes.fromhex(call["chunk"])
            try:
                _, pos, _ = _ber.count_frames(buf)
            except Exception:  # noqa: BLE001
                pos = 0
            tail[nm] = buf[pos:] if ok == "msgs" else b""
            if role == "server" and ok == "msgs" and pos:
                # requests as they were actually delivered (independent framing and header reading of the bytes, not what receive() returned)
                # only the first two headers of each envelope are read (message id, protocol-op tag): what follows may be anything the
                # library tolerates
                try:
                    for unit in _ber.parse(buf[:pos], deep=False):
                        c = unit.content
                        c0, k0, n0, hl0, ln0 = _ber.read_header(c, 0)
                        c1, k1, n1, hl1, ln1 = _ber.read_header(c, hl0 + ln0)
                        if (c0, n0) == (0, 2) and c1 == 1 and n1 in (0, 3, 23) and hl0 + ln0 <= len(c):
                            delivered_reqs[nm][int.from_bytes(c[hl0: hl0 + ln0], "big", signed=True)] += 1
                except Exception:  # noqa: BLE001
                    pass
        if role == "client" and k == "receive" and before["state"] != "CLOSED" and (not tail_before or q.get("_tail_included")):
            single = q.get("_single")
            units = q.get("_units")
            if single is not None:
                is_resp = single["op"]["k"] in ("bindResp", "searchEntry", "searchDone", "searchRef", "extResp")
                is_notice = ev_of_msgjson(single) == "terminate"
                should = is_resp and single["id"] in prog_before and not is_notice
                if should and ok != "msgs":
                    viol("C09", None, "a response for an operation in progress was not accepted", i)
                if not should and not (ok == "ProtocolError" and after["state"] == "CLOSED"):
                    viol("C09", None, "a message that is not a response for an operation in progress did not raise ProtocolError and close the session", i)
                if should and ok == "msgs" and "outstanding" in after:
                    still = single["id"] in after["outstanding"]
                    want = prog_before.get(single["id"]) == "search" and single["op"]["k"] != "searchDone"
                    if still != want:
                        viol("C09", None, "operation lifetime wrong after an accepted response", i)
            elif units:
                # several complete messages in the chunk (possibly followed by the beginning of another): each is judged in order against the
                # monitor's own bookkeeping; the first one that is not a response for an operation in progress must close the session
                prog = dict(prog_before)
                refuse = False
                for u in units:
                    is_resp = u["op"]["k"] in ("bindResp", "searchEntry", "searchDone", "searchRef", "extResp")
                    if not is_resp or u["id"] not in prog or ev_of_msgjson(u) == "terminate":
                        refuse = True
                        break
                    if not (prog[u["id"]] == "search" and u["op"]["k"] != "searchDone"):       # (same rule as for a message that arrives alone)
                        prog.pop(u["id"])
                if refuse and not (ok == "ProtocolError" and after["state"] == "CLOSED"):
                    viol("C09", None, "a chunk containing a message that is not a response for an operation in progress did not raise ProtocolError "
                         "and close the session", i)
                if not refuse and ok != "msgs":
                    viol("C09", None, "a chunk of responses for operations in progress was not accepted", i)

        # ---------------- C08: lifecycle
        if q.get("_ad_notice") and role == "client" and before["state"] != "CLOSED" and not tail_before:
            if not (ok == "ProtocolError" and after["state"] == "CLOSED"):
                viol("C08", None, "a notice of disconnection (Active Directory framing: OID in the [10] element of the envelope) did not close the "
                     "client session", i)
        if before["state"] == "CLOSED":
            if after["state"] != "CLOSED":
                viol("C08", None, "a CLOSED session left the CLOSED state", i)
            if have_int and not bo.endswith(ao):
                viol("C08", None, "a call on a CLOSED session added outgoing bytes", i)
            if is_send and ok not in ("LDAPError", "NotApplicable"):
                viol("C08", None, f"a send on a CLOSED session was not rejected with LDAPError ({ok})", i)
            if k == "receive" and ok != "ProtocolError":
                viol("C08", None, "receive on a CLOSED session did not raise ProtocolError", i)
        else:
            evs = []
            if k == "receive" and ok == "msgs":
                # what arrived, as the BYTES say (message kinds from the library's decode, bind result codes read by the harness's own TLV
                # reader) when the delivery was one or more complete messages on an empty buffer; else the library's decode
                seen = [q["_single"]] if q.get("_single") is not None and not tail_before else q.get("_units") if q.get("_units") and (not tail_before or q.get("_tail_included")) else None
                if seen is not None and len(seen) == len(out["ms"]):
                    evs = [ev_of_msgjson(m) for m in seen]
                else:
                    evs = [ev_of_msgjson(m) for m in out["ms"]]
            elif k == "receive" and ok == "ProtocolError":
                evs = ["terminate"]
            elif is_send and accepted:
                # the event the CALL stands for (its arguments, not what the library made of them)
                evs = [ev_of_call(call)]
            st = before["state"]
            for e in evs:
                st = spec_next(st, e)
            if st != after["state"]:
                if role == "server" and before["state"] == "BEFORE_OPEN" and k in SERVER_RESP and ok == "LDAPError" and after["state"] == "OPENED":
                    viol("C08", "C08:refused-server-response-opens-session", "refused server response moved BEFORE_OPEN to OPENED", i)
                else:
                    viol("C08", None, f"state after the call is {after['state']}, the documented automaton gives {st}", i)
            if role == "client" and k == "bind" and prog_before and accepted:
                viol("C08", None, "a bind was accepted while other operations are outstanding", i)
            if role == "client" and k == "bind" and not prog_before and ok == "LDAPError":
                viol("C08", None, "a bind was refused although the session is not CLOSED and no operation is outstanding (e.g. the continuation of a SASL bind)", i)
            if role == "server" and k == "receive" and ok == "msgs":
                pb = dict(prog_before)
                for m in out["ms"]:
                    if m["op"]["k"] == "bindReq" and pb:
                        viol("C08", None, "a server accepted a bind request while other operations are outstanding", i)
                    pb[m["id"]] = m["op"]["k"]
            if before["state"] == "BINDING" and is_send and accepted:
                e = evs[0] if evs else None
                if e not in ("bindStart", "bindDone", "bindContinue", "terminate"):
                    viol("C08", None, "a non-bind message was sent while BINDING", i)
        # ---------------- abstract bookkeeping of operations in progress (from API outcomes only)
        if role == "client":
            if k in CLIENT_REQ and ok == "sent":
                inprog[nm][out["id"]] = "search" if k == "search" else "other"
            if k == "receive" and ok == "msgs":
                for m in out["ms"]:
                    kind = inprog[nm].get(m["id"])
                    if kind is not None and not (kind == "search" and m["op"]["k"] != "searchDone"):
                        inprog[nm].pop(m["id"], None)
        else:
            if k == "receive" and ok == "msgs":
                for m in out["ms"]:
                    inprog[nm][m["id"]] = m["op"]["k"]
            if k in FINAL_RESP and accepted:
                inprog[nm].pop(call["id"], None)
        if after["state"] == "CLOSED":
            inprog[nm].clear()
        snap[nm] = after
    return v


# ------------------------------------------------------------------ small-alphabet enumeration

def _pack(m):
    return C.msg_from_json(m).pack(M.PackingOptions()).hex()


def small_alphabet(role):
    t = C.tx
    res = lambda code: {"code": code, "mdn": t(""), "diag": t(""), "refs": None}
    if role == "client":
        syms = [
            {"k": "bind", "dn": t(""), "cred": {"k": "simple", "pw": t("")}, "controls": []},
            {"k": "search", "base": t(""), "scope": 2, "deref": 0, "size": 0, "time": 0, "typesOnly": False, "filter": None, "attrs": [], "controls": []},
            {"k": "extended", "name": t("1.2"), "value": None, "controls": []},
            {"k": "extended", "name": t(NOTICE), "value": None, "controls": []},   # a REQUEST that merely carries the notice-of-disconnection OID
            {"k": "unbind"},
        ]
        for i in (1, 2):
            for op in ({"k": "searchEntry", "name": t(""), "attrs": []}, {"k": "searchRef", "uris": [t("ldap://a")]}, {"k": "searchDone", "res": res(0)},
                       {"k": "extResp", "res": res(0), "name": None, "value": None}, {"k": "bindResp", "res": res(0), "sasl": None},
                       {"k": "bindResp", "res": res(14), "sasl": None}):
                syms.append({"k": "receive", "chunk": _pack({"id": i, "op": op, "controls": []})})
        syms.append({"k": "receive", "chunk": _pack({"id": 0, "op": {"k": "extResp", "res": res(52), "name": t(NOTICE), "value": None}, "controls": []})})
        syms.append({"k": "receive", "chunk": _pack({"id": 1, "op": {"k": "extReq", "name": t("1.2"), "value": None}, "controls": []})})
        # an unsolicited notification (id 0) that is NOT the notice of disconnection: not a response for an operation in progress
        syms.append({"k": "receive", "chunk": _pack({"id": 0, "op": {"k": "extResp", "res": res(0), "name": t("1.3.6.1.4.1.1466.20037"), "value": None}, "controls": []})})
        syms.append({"k": "receive", "chunk": ad_notice(1).hex()})      # Active Directory's framing of the notice, on an id that may be in progress
        return syms
    ext = lambda i: {"k": "receive", "chunk": _pack({"id": i, "op": {"k": "extReq", "name": t("1.2"), "value": None}, "controls": []})}
    syms = [
        {"k": "receive", "chunk": _pack({"id": 1, "op": {"k": "bindReq", "version": 3, "name": t(""), "cred": {"k": "simple", "pw": t("")}}, "controls": []})},
        ext(1), ext(2), ext(0),
        {"k": "receive", "chunk": _pack({"id": 2, "op": {"k": "searchReq", "base": t(""), "scope": 2, "deref": 0, "size": 0, "time": 0, "typesOnly": False,
                                                        "filter": {"k": "present", "a": t("cn")}, "attrs": []}, "controls": []})},
        {"k": "receive", "chunk": _pack({"id": 0, "op": {"k": "unbind"}, "controls": []})},
        {"k": "receive", "chunk": _pack({"id": 1, "op": {"k": "bindResp", "res": res(0), "sasl": None}, "controls": []})},
        {"k": "unbind"},
    ]
    z = {"mdn": t(""), "diag": t(""), "controls": []}
    for i in (1, 2):
        syms += [
            {"k": "bindResponse", "id": i, "sasl": None, "code": 0, **z},
            {"k": "entry", "id": i, "name": t(""), "attrs": [], "controls": []},
            {"k": "reference", "id": i, "uris": [t("ldap://a")], "controls": []},
            {"k": "done", "id": i, "code": 0, **z},
            {"k": "extendedResponse", "id": i, "name": None, "value": None, "code": 0, **z},
        ]
    syms.append({"k": "bindResponse", "id": 1, "sasl": None, "code": 14, **z})
    syms.append({"k": "extendedResponse", "id": 1, "name": t(NOTICE), "value": None, "code": 52, **z})
    return syms


def enumerate_sequences(rng, role, full_len, sample_len, n_samples):
    """all call sequences up to `full_len` over the small alphabet, plus random longer ones"""
    syms = small_alphabet(role)
    seqs = []

    def rec(prefix, depth):
        if depth == 0:
            return
        for a in syms:
            seqs.append(prefix + [a])
            rec(prefix + [a], depth - 1)

    rec([], full_len)
    # keep only maximal sequences (prefixes are covered by them)
    seqs = [q for q in seqs if len(q) == full_len]
    for _ in range(n_samples):
        seqs.append([rng.choice(syms) for _ in range(sample_len)])
    return seqs


def run_enumeration(ctx, prop, full_len, sample_len, n_samples):
    rng = ctx.rng
    violations = []
    hist = collections.Counter()
    all_reqs = []
    bounds = []
    n = 0
    for role in ("client", "server"):
        for si, seq in enumerate(enumerate_sequences(rng, role, full_len, sample_len, n_samples)):
            name = f"{role[0]}e{si}"
            reqs = [{"op": "sess_new", "name": name, "role": role}] + [{"op": "call", "name": name, "call": c} for c in seq] + \
                   [{"op": "sess_del", "name": name}]
            for q in reqs:
                if q["op"] == "call" and q["call"]["k"] == "receive" and role == "client":
                    try:
                        data = bytes.fromhex(q["call"]["chunk"])
                        q["_single"] = C.msg_to_json(M.unpack_ldap_message(sansldap.asn1.ASN1Reader(data), M.PackingOptions()))
                    except BaseException:  # noqa: BLE001
                        pass
            bounds.append((len(all_reqs), len(reqs)))
            all_reqs.extend(reqs)
            n += 1
    clean = [{k: v for k, v in q.items() if k != "_single"} for q in all_reqs]
    replies = drive.run_impl(copy.deepcopy(clean))
    for (start, ln) in bounds:
        reqs = all_reqs[start:start + ln]
        reps = replies[start:start + ln]
        nm = reqs[0]["name"]
        mv = monitor(reqs[:-1], reps[:-1], {nm: reqs[0]["role"]})
        violations.extend(mv.get(prop, [])[:2])
        hist[reqs[0]["role"] + ":" + str(ln - 2)] += 1
    disagreements = []
    if ctx.driver_ok:
        b = drive.run_model(clean)
        for (start, ln) in bounds:
            for i in range(start, start + ln):
                x, y = drive.strip_unobservable(project(prop, drive.norm(replies[i])), project(prop, drive.norm(b[i])))
                if x != y:
                    disagreements.append({"history": clean[start: i + 1], "impl": x, "model": y})
                    break
            if len(disagreements) >= 10:
                break
    return {"sequences": n, "steps": len(all_reqs), "violations": violations, "disagreements": disagreements, "histogram": dict(hist)}


PROJECT = {
    # which observables of a reply matter to which property (keeps an unrelated change from tripping the check)
    "C08": lambda o, s: ({"k": o["k"]} if o["k"] not in ("msgs",) else {"k": "msgs", "n": len(o["ms"])}, {"state": s.get("state")}),
    "C09": lambda o, s: ({x: o[x] for x in o if x in ("k", "id")} if o["k"] != "msgs" else {"k": "msgs", "ids": [m["id"] for m in o["ms"]]},
                         {x: s.get(x) for x in ("state", "outstanding", "searches")}),
    "C10": lambda o, s: ({"k": o["k"]} if o["k"] not in ("msgs", "bytes") else {"k": o["k"]}, {x: s.get(x) for x in ("out", "outstanding")}),
    "C12": lambda o, s: (o if o["k"] == "bytes" else {"k": o["k"]}, {"out": s.get("out")}),
}


def project(prop, reply):
    if not isinstance(reply, dict) or "outcome" not in reply:
        return reply
    f = PROJECT.get(prop)
    if f is None:
        return reply
    o, s = f(reply["outcome"], reply["sess"])
    return {"outcome": o, "sess": s}


def scripted_histories():
    """short directed histories (run through the same monitors and the model as the generated ones): multi-step situations a random walk
    reaches rarely — a request delivered in pieces and answered twice, calls refused while binding followed by a bind or by a response with
    the next unused id, SASL continuation, a non-bind request in the middle of a SASL bind"""
    t = C.tx
    res = lambda code: {"code": code, "mdn": t(""), "diag": t(""), "refs": None}
    z = {"mdn": t(""), "diag": t(""), "controls": []}
    ext_req = lambda i: bytes.fromhex(_pack({"id": i, "op": {"k": "extReq", "name": t("1.2"), "value": None}, "controls": []}))
    bind_req = lambda i, cred: bytes.fromhex(_pack({"id": i, "op": {"k": "bindReq", "version": 3, "name": t(""), "cred": cred}, "controls": []}))
    search_req = lambda i: bytes.fromhex(_pack({"id": i, "op": {"k": "searchReq", "base": t(""), "scope": 2, "deref": 0, "size": 0, "time": 0, "typesOnly": False,
                                                                "filter": {"k": "present", "a": t("cn")}, "attrs": []}, "controls": []}))
    sasl = {"k": "sasl", "mech": t("GSSAPI"), "creds": "01"}
    out = []

    def hist(*calls):
        def build(names):
            cn, sn = names
            reqs = [{"op": "sess_new", "name": cn, "role": "client"}, {"op": "sess_new", "name": sn, "role": "server"}]
            for who, call in calls:
                reqs.append({"op": "call", "name": cn if who == "c" else sn, "call": call})
            return reqs
        out.append(build)

    rx = lambda b: {"k": "receive", "chunk": bytes(b).hex()}
    ext_resp = lambda i: {"k": "extendedResponse", "id": i, "name": None, "value": None, "code": 0, **z}
    bind_resp = lambda i, code: {"k": "bindResponse", "id": i, "sasl": None, "code": code, **z}
    for req in (ext_req(1), search_req(1)):
        for k in sorted({1, 2, len(req) // 2, len(req) - 1}):
            fin = ext_resp(1) if req == ext_req(1) else {"k": "done", "id": 1, "code": 0, **z}
            hist(("s", rx(req[:k])), ("s", rx(req[k:])), ("s", fin), ("s", rx(b"")), ("s", fin), ("s", rx(ext_req(2))), ("s", fin), ("s", ext_resp(2)),
                 ("s", {"k": "drain", "amount": None}))
            hist(("s", rx(req[:k])), ("s", rx(req[k:] + ext_req(2)[:3])), ("s", fin), ("s", rx(ext_req(2)[3:])), ("s", fin), ("s", ext_resp(2)), ("s", fin))
    bind_c = {"k": "bind", "dn": t(""), "cred": sasl, "controls": []}
    ext_c = {"k": "extended", "name": t("1.2"), "value": None, "controls": []}
    srch_c = {"k": "search", "base": t(""), "scope": 2, "deref": 0, "size": 0, "time": 0, "typesOnly": False, "filter": None, "attrs": [], "controls": []}
    pk = lambda m: bytes.fromhex(_pack(m))
    in_progress = pk({"id": 1, "op": {"k": "bindResp", "res": res(14), "sasl": "aa"}, "controls": []})
    ok1 = pk({"id": 1, "op": {"k": "bindResp", "res": res(0), "sasl": None}, "controls": []})
    ext2 = pk({"id": 2, "op": {"k": "extResp", "res": res(0), "name": None, "value": None}, "controls": []})
    done2 = pk({"id": 2, "op": {"k": "searchDone", "res": res(0)}, "controls": []})
    for refused in (ext_c, srch_c):
        # refused while binding, then the SASL continuation must still be possible
        hist(("c", bind_c), ("c", rx(in_progress)), ("c", refused), ("c", bind_c), ("c", {"k": "drain", "amount": None}))
        # refused while binding, then a response carrying the id the refused call would have got
        hist(("c", bind_c), ("c", refused), ("c", rx(ok1)), ("c", rx(ext2)))
        hist(("c", bind_c), ("c", refused), ("c", rx(ok1)), ("c", rx(done2)))
        hist(("c", bind_c), ("c", refused), ("c", refused), ("c", rx(ok1)), ("c", ext_c), ("c", rx(ext2)), ("c", rx(ext2)))
    # a request with message id 0 is outstanding like any other: a bind must be refused while it is
    simple = {"k": "simple", "pw": t("")}
    hist(("s", rx(ext_req(0))), ("s", rx(bind_req(1, simple))))
    hist(("s", rx(ext_req(0) + bind_req(1, simple))))
    hist(("s", rx(search_req(0))), ("s", rx(bind_req(1, sasl))))
    hist(("s", rx(ext_req(0))), ("s", ext_resp(0)), ("s", rx(bind_req(1, simple))), ("s", bind_resp(1, 0)))
    # several messages in one chunk, the chunk ending inside a further message: the id check applies to each complete message
    ext1 = pk({"id": 1, "op": {"k": "extResp", "res": res(0), "name": None, "value": None}, "controls": []})
    ext7 = pk({"id": 7, "op": {"k": "extResp", "res": res(0), "name": None, "value": None}, "controls": []})
    ext0 = pk({"id": 0, "op": {"k": "extResp", "res": res(0), "name": None, "value": None}, "controls": []})
    ext0n = pk({"id": 0, "op": {"k": "extResp", "res": res(0), "name": t("1.3.6.1.4.1.1466.20037"), "value": bytes(3).hex()}, "controls": []})
    for bad in (ext7, ext0, ext0n, ext1 + ext1, bytes(ext_req(1))):
        for cut in (1, 3, len(ext2) - 1):
            hist(("c", ext_c), ("c", ext_c), ("c", rx(bad + ext2[:cut])), ("c", rx(ext2[cut:])))
            hist(("c", ext_c), ("c", ext_c), ("c", rx(ext1 + bad + ext2[:cut])), ("c", rx(ext2[cut:])))
    hist(("c", ext_c), ("c", ext_c), ("c", rx(ext1 + ext2[:3])), ("c", rx(ext2[3:])), ("c", ext_c), ("c", rx(ext1)))
    # a negative message id is never an id the client issued, however many it has issued (-127 and 129, -1 and 255 share their content octet)
    import ber as _ber3

    def raw_resp(id_octets):
        tl = lambda tag, c: bytes([tag]) + _ber3.enc_len(len(c)) + c
        return tl(0x30, tl(2, id_octets) + tl(0x78, tl(0x0A, b"\0") + tl(4, b"") + tl(4, b"")))

    for issued, octets in ((129, b"\x81"), (255, b"\xff"), (130, b"\xff\x7f")):
        hist(*([("c", ext_c)] * issued + [("c", rx(raw_resp(octets))), ("c", ext_c)]))
        # many operations in progress at once, the bytes taken by the transport now and then: every id on the wire is the id its call returned
        hist(*([("c", ext_c)] * (issued // 2) + [("c", {"k": "drain", "amount": 100})] + [("c", srch_c)] * (issued // 2) + [("c", {"k": "drain", "amount": None}),
               ("c", ext_c), ("c", ext_c), ("c", {"k": "drain", "amount": None})]))
    # the notice of disconnection in Active Directory's framing, carrying the id of an operation in progress / id 0 / an unknown id
    for first in (ext_c, srch_c, bind_c):
        for nid in (1, 0, 5):
            hist(("c", first), ("c", rx(ad_notice(nid))), ("c", ext_c), ("c", rx(ext2)))
    # responses framed the way Active Directory frames them (30 84 00 00 00 LL ..: four length octets, leading zeros) for operations in progress,
    # delivered in two reads cut at every offset inside the identifier / length octets: accepted like any other framing of the same responses
    import ber as _ber4

    def ad_frame(b):
        n_ = _ber4.parse(bytes(b), deep=False)[0]
        return bytes([0x30, 0x84]) + len(n_.content).to_bytes(4, "big") + n_.content

    entry1 = pk({"id": 1, "op": {"k": "searchEntry", "name": t("cn=x"), "attrs": []}, "controls": []})
    ref1 = pk({"id": 1, "op": {"k": "searchRef", "uris": [t("ldap://a")]}, "controls": []})
    done1 = pk({"id": 1, "op": {"k": "searchDone", "res": res(0)}, "controls": []})
    stream_ = [ad_frame(x) for x in (entry1, ref1, ext2, done1)]
    for cut in (1, 2, 3, 4, 5, 6, 7):
        steps_ = [("c", srch_c), ("c", ext_c)]
        for m_ in stream_:
            steps_ += [("c", rx(m_[:cut])), ("c", rx(m_[cut:]))]
        hist(*(steps_ + [("c", rx(done1)), ("c", ext_c)]))
        whole = b"".join(stream_)
        hist(("c", srch_c), ("c", ext_c), ("c", rx(whole[: len(stream_[0]) + cut])), ("c", rx(whole[len(stream_[0]) + cut:])), ("c", ext_c))
    # a search with a small positive size / time limit stays in progress across ANY number of entries and references until its done message
    for lim in (1, 2, 5):
        srch_lim = dict(srch_c, size=lim, time=lim)
        many = [("c", rx(entry1)), ("c", rx(ref1))] * (lim + 2) + [("c", rx(entry1 + entry1 + ref1)), ("c", rx(done1)), ("c", rx(entry1))]
        hist(*([("c", srch_lim)] + many))
        hist(*([("c", srch_lim), ("c", ext_c), ("c", rx(ref1 + entry1 + entry1))] + many[:4] + [("c", rx(ext2)), ("c", rx(done1))]))
    # a closing message (unbind / notice of disconnection) that is NOT the last message of its delivery still closes the session
    unbind0 = pk({"id": 0, "op": {"k": "unbind"}, "controls": []})
    unbind3 = pk({"id": 3, "op": {"k": "unbind"}, "controls": []})
    nod = lambda i: pk({"id": i, "op": {"k": "extResp", "res": res(52), "name": t(NOTICE), "value": None}, "controls": []})
    for ub in (unbind0, unbind3):
        hist(("s", rx(ub + ext_req(1))), ("s", rx(ext_req(2))), ("s", ext_resp(1)), ("s", {"k": "drain", "amount": None}))
        hist(("s", rx(ext_req(1) + ub + ext_req(2))), ("s", ext_resp(1)), ("s", rx(ext_req(3))))
        hist(("s", rx(bind_req(1, sasl))), ("s", bind_resp(1, 14)), ("s", rx(ub + bind_req(2, sasl))), ("s", bind_resp(2, 0)))
        hist(("s", rx(ub[:3])), ("s", rx(ub[3:] + ext_req(1) + ext_req(2)[:4])), ("s", rx(ext_req(2)[4:])), ("s", ext_resp(1)))
    for nid in (1, 2, 0):
        hist(("c", ext_c), ("c", srch_c), ("c", rx(nod(nid) + done2)), ("c", ext_c), ("c", rx(ext2)), ("c", {"k": "drain", "amount": None}))
        hist(("c", ext_c), ("c", srch_c), ("c", rx(ext1 + nod(nid) + done2)), ("c", ext_c))
        hist(("c", ext_c), ("c", srch_c), ("c", rx(ad_notice(nid) + done2)), ("c", ext_c))
    # a final bind response whose result code is not 14 but turns into 14 under truncation: the bind is over, on both sides
    for code in NEAR14:
        hist(("s", rx(bind_req(1, sasl))), ("s", bind_resp(1, code)), ("s", rx(ext_req(2))), ("s", ext_resp(2)), ("s", bind_resp(1, 0)))
        final = pk({"id": 1, "op": {"k": "bindResp", "res": res(code), "sasl": None}, "controls": []})
        hist(("c", bind_c), ("c", rx(final)), ("c", ext_c), ("c", rx(ext2)), ("c", rx(final)))
    # server in the middle of a SASL bind
    hist(("s", rx(bind_req(1, sasl))), ("s", bind_resp(1, 14)), ("s", rx(ext_req(2))), ("s", ext_resp(2)), ("s", rx(bind_req(3, sasl))), ("s", bind_resp(3, 0)))
    hist(("s", rx(bind_req(1, sasl))), ("s", bind_resp(1, 14)), ("s", bind_resp(1, 0)), ("s", bind_resp(7, 0)), ("s", rx(bind_req(2, sasl))), ("s", bind_resp(2, 0)),
         ("s", bind_resp(2, 0)))
    return out


def run_histories(ctx, prop, n_hist, length, mode="mixed"):
    rng = ctx.rng
    all_reqs = []
    bounds = []
    violations = []
    hist = collections.Counter()
    distinct = set()
    samples = []
    scripts = scripted_histories()
    hist["scripted-histories"] = len(scripts)
    for h in range(n_hist + len(scripts)):
        names = (f"c{h}", f"s{h}")
        if h < len(scripts):
            reqs = scripts[h](names)
        else:
            reqs = gen_history(rng, length, names, mode="joint" if (mode == "joint" or (mode == "mixed" and h % 3 == 0)) else "crafted")
        # annotate single-message deliveries to clients for the C09 monitor
        replies = drive.run_impl(copy.deepcopy(reqs))
        atail = {}
        for q, rep_ in zip(reqs, replies):
            if q["op"] == "call" and q["call"]["k"] == "receive" and q["name"].startswith("c"):
                try:
                    # a notice of disconnection in Active Directory's framing, recognised from the bytes themselves (own TLV reader)
                    import ber as _ber2
                    top = _ber2.parse(bytes.fromhex(q["call"]["chunk"]))
                    if len(top) == 1 and top[0].kids and len(top[0].kids) >= 3 and top[0].kids[1].cls == 1 and top[0].kids[1].num == 24 \
                            and any(k.cls == 2 and k.num == 10 and bytes(k.content) == NOTICE.encode() for k in top[0].kids[2:]):
                        q["_ad_notice"] = True
                except BaseException:  # noqa: BLE001
                    pass
                try:
                    data = bytes.fromhex(q["call"]["chunk"])
                    r = sansldap.asn1.ASN1Reader(data)
                    m = M.unpack_ldap_message(r, M.PackingOptions())
                    def own_ids(b):
                        # message ids as the bytes say (own TLV reader, two's complement), not as the library decoded them
                        import ber as _b
                        return [int.from_bytes(u.kids[0].content, "big", signed=True) for u in _b.parse(b)]

                    def own_codes(b, us):
                        # result codes of bind responses as the bytes say (own TLV reader), not as the library decoded them
                        import ber as _b
                        for u, node in zip(us, _b.parse(b)):
                            op = node.kids[1]
                            if u["op"]["k"] == "bindResp" and op.cls == 1 and op.num == 1 and op.kids and (op.kids[0].cls, op.kids[0].num) == (0, 10):
                                u["op"]["res"]["code"] = int.from_bytes(op.kids[0].content, "big", signed=True)

                    if not r.get_remaining_data():
                        q["_single"] = C.msg_to_json(m)
                        q["_single"]["id"] = own_ids(data)[0]
                        own_codes(data, [q["_single"]])
                    else:
                        # more than one unit: decode every complete unit (own framing), ignore an incomplete tail
                        import ber as _ber
                        _, pos, _ = _ber.count_frames(data)
                        rr = sansldap.asn1.ASN1Reader(data[:pos])
                        us = []
                        while rr:
                            us.append(C.msg_to_json(M.unpack_ldap_message(rr, M.PackingOptions())))
                        if len(us) >= 1:
                            for u, i_ in zip(us, own_ids(data[:pos])):
                                u["id"] = i_
                            own_codes(data[:pos], us)
                            q["_units"] = us
                except BaseException:  # noqa: BLE001
                    pass
                # a delivery that COMPLETES one or more messages begun in earlier deliveries (own framing of everything delivered so far): the
                # completed messages are judged like messages that arrive whole
                try:
                    import ber as _bt
                    data = bytes.fromhex(q["call"]["chunk"])
                    before_ = atail.get(q["name"], b"")
                    buf_ = before_ + data
                    _, pos_, _ = _bt.count_frames(buf_)
                    if before_ and pos_:
                        rr = sansldap.asn1.ASN1Reader(buf_[:pos_])
                        us = []
                        while rr:
                            us.append(C.msg_to_json(M.unpack_ldap_message(rr, M.PackingOptions())))
                        for u, i_ in zip(us, [int.from_bytes(x.kids[0].content, "big", signed=True) for x in _bt.parse(buf_[:pos_])]):
                            u["id"] = i_
                        q.pop("_single", None)
                        q["_units"] = us
                        q["_tail_included"] = True
                    atail[q["name"]] = buf_[pos_:] if rep_.get("outcome", {}).get("k") == "msgs" else b""
                except BaseException:  # noqa: BLE001
                    atail[q["name"]] = b""
        roles = {names[0]: "client", names[1]: "server"}
        mv = monitor(reqs, replies, roles)
        violations.extend(mv.get(prop, []))
        if prop == "C10" and len(violations) < 5:
            # "no wire effect", differentially: the same history WITHOUT its refused send calls must hand the transport exactly the same bytes at
            # every drain (a refused call that consumed a message id, or left something behind that shows in later bytes, changes them)
            refused = [i for i, (q, rp) in enumerate(zip(reqs, replies)) if q["op"] == "call" and q["call"]["k"] in SEND_KINDS
                       and rp.get("outcome", {}).get("k") == "LDAPError"]
            if refused:
                hist["refused-calls-removed:histories"] += 1
                keep = [i for i in range(len(reqs)) if i not in set(refused)]
                clean_ = [{k: v for k, v in reqs[i].items() if not k.startswith("_")} for i in keep]
                again = drive.run_impl(copy.deepcopy(clean_))
                for i, rp2 in zip(keep, again):
                    q, rp = reqs[i], replies[i]
                    if q["op"] == "call" and q["call"]["k"] == "drain" and rp.get("outcome", {}).get("b") != rp2.get("outcome", {}).get("b"):
                        violations.append({"key": None, "what": "a refused send call has a wire effect: without the refused calls the same history hands the "
                                           "transport different bytes at this drain", "step": i, "history": reqs[: i + 1], "refused_steps": [r for r in refused if r < i],
                                           "bytes_with_refused_calls": rp.get("outcome", {}).get("b"), "bytes_without": rp2.get("outcome", {}).get("b")})
                        break
        for q, rep in zip(reqs, replies):
            if q["op"] == "call":
                hist[q["call"]["k"] + ":" + rep.get("outcome", {}).get("k", "?")] += 1
        distinct.add(tuple((q["name"][0], q["call"]["k"], rep.get("outcome", {}).get("k")) for q, rep in zip(reqs, replies) if q["op"] == "call"))
        if h < 2:
            samples.append([{"name": q.get("name"), "call": q.get("call", q["op"]), "outcome": rep.get("outcome", {}).get("k")}
                            for q, rep in list(zip(reqs, replies))[:8]])
        bounds.append((len(all_reqs), len(reqs)))
        all_reqs.extend(reqs)
    disagreements = []
    if ctx.driver_ok:
        clean = [{k: v for k, v in q.items() if k not in ("_single", "_units", "_ad_notice", "_tail_included")} for q in all_reqs]
        a = drive.run_impl(copy.deepcopy(clean))
        b = drive.run_model(clean)
        pa = [project(prop, drive.norm(x)) for x in a]
        pb = [project(prop, drive.norm(x)) for x in b]
        for i, (q, x, y) in enumerate(zip(clean, pa, pb)):
            for key in ("sess", "ok"):
                if isinstance(x, dict) and isinstance(y, dict) and isinstance(x.get(key), dict) and isinstance(y.get(key), dict):
                    for kk in list(y[key].keys()):
                        if x[key].get(kk) is None and kk != "state":
                            y[key].pop(kk, None)
                            x[key].pop(kk, None)
            if x != y:
                # locate the history and cut it at the diverging step
                for (start, ln) in bounds:
                    if start <= i < start + ln:
                        disagreements.append({"history": clean[start: i + 1], "impl": x, "model": y})
                        break
                if len(disagreements) >= 10:
                    break
    en = run_enumeration(ctx, prop, ctx.scale(3, 4), ctx.scale(6, 8), ctx.scale(1500, 40000))
    violations.extend(en["violations"])
    disagreements.extend(en["disagreements"])
    hist.update({"enum:" + k: v for k, v in en["histogram"].items()})
    return {
        "evaluations": sum(ln for _, ln in bounds) + en["steps"],
        "distinct_nontrivial": len(distinct) + en["sequences"],
        "samples": samples,
        "histogram": dict(sorted(hist.items())),
        "requests": len(all_reqs) + en["steps"],
        "violations": violations,
        "disagreements": disagreements,
        "extra": {"histories": n_hist, "history_length": length, "enumerated_sequences": en["sequences"],
                  "enumeration": "all call sequences of length %d over a small alphabet (client: 4 calls + 14 deliveries; server: 7 deliveries/unbind + 12 response calls) plus random sequences of length %d"
                                 % (ctx.scale(3, 4), ctx.scale(6, 8))},
    }


def replay_history(payload):
    print(json.dumps({k: v for k, v in payload.items() if k != "history"}, indent=1)[:1500])
    hist = payload.get("history") or []
    reps = drive.run_impl(copy.deepcopy(hist))
    for q, r in zip(hist, reps):
        if q["op"] == "call":
            print(q["name"], json.dumps(q["call"])[:160], "->", json.dumps(r.get("outcome"))[:120], r.get("sess", {}).get("state"))
    return 0


# ------------------------------------------------------------------ message ids beyond the interpreter's int -> str digit limit (implementation only)

def huge_id_checks(hist):
    """A client with operations in progress receives a well-formed response (every kind) whose message id has more decimal digits than CPython's
    int -> str limit (default 4300; 640 when the application lowered it), positive or negative.  No such id was ever issued, so: ProtocolError, the
    session CLOSED, everything afterwards refused (C08, C09).  A server that receives a REQUEST with such an id treats it like any other id (it can
    answer it).  Nothing here turns the number into text; these histories cannot go through JSON / the line protocol under the same limit."""
    import sys

    import ber as B

    def tlv(tag, content):
        return bytes([tag]) + B.enc_len(len(content)) + content

    res = tlv(0x0A, b"\0") + tlv(4, b"") + tlv(4, b"")
    out = {"C08": [], "C09": []}
    prev = sys.get_int_max_str_digits() if hasattr(sys, "get_int_max_str_digits") else None
    for limit in ([prev, 640] if prev is not None else [None]):
        if limit is not None:
            sys.set_int_max_str_digits(limit)
        try:
            for digits in (641, 4301, 9000):
                for sign in (1, -1):
                    n = sign * (10 ** digits + 3)
                    idb = n.to_bytes((n if n >= 0 else ~n).bit_length() // 8 + 1, "big", signed=True)
                    kinds = {"bindResp": tlv(0x61, res), "searchEntry": tlv(0x64, tlv(4, b"cn=x") + tlv(0x30, b"")), "searchRef": tlv(0x73, tlv(4, b"ldap://a")),
                             "searchDone": tlv(0x65, res), "extResp": tlv(0x78, res)}
                    for kind, op in kinds.items():
                        for prior in ("mid", "binding", "fresh"):
                            hist["huge-id:client"] += 1
                            c = sansldap.LDAPClient()
                            if prior == "mid":
                                c.extended_request("1.2"); c.search_request("", filter=None); c.data_to_send()
                            elif prior == "binding":
                                c.bind_simple("", ""); c.data_to_send()
                            desc = {"kind": kind, "digits": digits, "sign": sign, "client": prior, "int_max_str_digits": limit}
                            try:
                                got = c.receive(tlv(0x30, tlv(2, idb) + op))
                                outcome = f"returned {len(got)} message(s)"
                            except sansldap.ProtocolError:
                                outcome = "ProtocolError"
                            except BaseException as e:  # noqa: BLE001
                                outcome = "raised " + type(e).__name__
                            after = c.state.name
                            later = None
                            if outcome != "ProtocolError" or after != "CLOSED":
                                what = (f"a {kind} whose message id has {digits} digits (never issued) gave '{outcome}' and left the client {after}: it must raise "
                                        "ProtocolError and close the session")
                                out["C09"].append({"key": None, "what": what, **desc})
                                out["C08"].append({"key": None, "what": what + " (a protocol error closes the session)", **desc})
                            else:
                                try:
                                    c.extended_request("1.3")
                                    later = "accepted a request"
                                except sansldap.LDAPError:
                                    pass
                                if c.data_to_send() or later:
                                    out["C08"].append({"key": None, "what": "a client closed by a response with a huge unknown id produced bytes / accepted a call afterwards", **desc})
                    # server: a request carrying such an id is an ordinary request
                    hist["huge-id:server"] += 1
                    s_ = sansldap.LDAPServer()
                    try:
                        ms = s_.receive(tlv(0x30, tlv(2, idb) + tlv(0x77, tlv(0x80, b"1.2"))))
                        s_.extended_response(ms[0].message_id)
                        ok = ms[0].message_id == n and s_.state.name == "OPENED" and len(s_.data_to_send()) > digits // 3
                        why = "" if ok else "the request or its response was mishandled"
                    except BaseException as e:  # noqa: BLE001
                        ok, why = False, f"raised {type(e).__name__}"
                    if not ok:
                        out["C08"].append({"key": None, "what": f"a server cannot receive and answer a request whose message id has {digits} digits: {why}",
                                           "digits": digits, "sign": sign, "int_max_str_digits": limit})
                    if len(out["C08"]) + len(out["C09"]) > 8:
                        return out
        finally:
            if prev is not None:
                sys.set_int_max_str_digits(prev)
    return out
