"""C07 — BER primitives agree with an arithmetic oracle in both directions."""
from __future__ import annotations

import collections

import ber

import codec as C
import drive
import gen
from codec import sansldap
from sansldap import asn1 as A
from sansldap.asn1 import ASN1Reader, ASN1Tag, ASN1Writer, TagClass, TypeTagNumber

LEAN_TARGETS = ["Verif.Props.C07", "Verif.Props.C07More"]
SECOND_TIE = {
    "what": "the BER primitive functions of asn1.py (_pack_asn1_octet_number, _unpack_asn1_octet_number, _pack_asn1, _pack_asn1_integer, "
            "_pack_asn1_boolean, _read_asn1_header, _validate_tag, _read_asn1_integer, _read_asn1_boolean) translated statement by statement from the "
            "Python AST into Lean (harness/py2lean.py -> Generated/Asn1Gen.lean) and proved equal to the hand-written model of Model/Ber.lean "
            "(Props/TiesAsn1.lean): the C07 theorems then speak about what the source says now",
    "translator": "py2lean.py",
    "targets": ["Verif.Props.TiesAsn1", "Verif.Props.TiesAsn1More", "Verif.Props.TiesAsn1Api"],
    "validate": "p_asn1gen.py",
}
LEVEL = "proof"
ASSUMPTIONS = [
    "bytes are modelled as List Nat with the IsBytes (< 256) invariant",
    "content lengths below 256^126 (every length a Python object can have)",
]


def int_grid(ctx):
    vals = set()
    for k in range(0, 131):
        for d in (-2, -1, 0, 1, 2):
            vals.add(2**k + d)
            vals.add(-(2**k) + d)
    for c in (1, 2, 127, 128, 129, 255):
        for j in range(0, 12):
            vals.add(c * 256**j)
            vals.add(-c * 256**j)
    lim = ctx.scale(3000, 70000)
    vals.update(range(-lim, lim + 1))
    for _ in range(ctx.scale(2000, 200000)):
        vals.add(gen.g_int(ctx.rng))
    return sorted(vals)


def min_twos(v: int) -> bytes:
    n = 1
    while True:
        try:
            return v.to_bytes(n, "big", signed=True)
        except OverflowError:
            n += 1


def tags(ctx):
    nums = list(range(0, 41)) + [126, 127, 128, 129, 130, 16383, 16384, 16385, 2**21 - 1, 2**21, 2**63, 2**64 + 1]
    nums += [ctx.rng.randrange(0, 2**64) for _ in range(ctx.scale(20, 400))]
    out = []
    for cls in range(4):
        for cons in (False, True):
            for n in nums:
                out.append((cls, cons, n))
    return out


def lens(ctx):
    ls = list(range(0, 300)) + [2**8 * k + d for k in (1, 2, 255, 256, 257, 65535, 65536) for d in (-1, 0, 1)]
    ls += [2**k + d for k in (16, 24, 31, 32, 40, 62) for d in (-1, 0, 1)]
    return sorted(set(x for x in ls if x >= 0))


def run(ctx):
    rng = ctx.rng
    violations = []
    hist = collections.Counter()
    samples = []
    evaluations = 0
    distinct = set()
    reqs = []

    # ---- integers: writer vs minimal two's complement, reader vs int.from_bytes
    ints = int_grid(ctx)
    for v in ints:
        evaluations += 1
        enc = C.pack_integer(v)
        want = min_twos(v)
        hist["int:" + ("neg" if v < 0 else "pos") + f":len{min(len(want), 9)}"] += 1
        if enc[2:] != want or enc[0] != 2 or enc[1] != len(want):
            violations.append({"key": None, "what": "integer writer is not minimal two's complement", "value": str(v),
                               "got": enc.hex(), "want_content": want.hex()})
        try:
            r = ASN1Reader(enc + b"\xAA")
            back = r.read_integer()
            rest = r.get_remaining_data()
            if back != v or rest != b"\xAA":
                violations.append({"key": None, "what": "integer read-back differs or over-consumes", "value": str(v), "hex": enc.hex(),
                                   "got": str(back), "rest": rest.hex()})
        except BaseException as e:  # noqa: BLE001
            violations.append({"key": None, "what": f"integer read-back raised {type(e).__name__}", "value": str(v), "hex": enc.hex()})
        distinct.add(("int", len(want), v < 0, want[-2:] == b"\0\0"))
    # ---- the public writer/reader methods, INTEGER and ENUMERATED, default and explicit tag (the grid's boundary values all included)
    boundary = [v for v in ints if abs(v) > ctx.scale(3000, 70000)]
    public = sorted(set(boundary + ints[:: max(1, len(ints) // ctx.scale(2500, 40000))] + list(range(-300, 301))))
    ctag = ASN1Tag(TagClass.CONTEXT_SPECIFIC, 7, False)
    for v in public:
        evaluations += 1
        want = min_twos(v)
        w = ASN1Writer()
        w.write_integer(v)
        w.write_enumerated(v)
        w.write_integer(v, tag=ctag)
        w.write_enumerated(v, tag=ctag)
        data = bytes(w.get_data())
        hist["public-writer:" + ("neg" if v < 0 else "pos")] += 1
        try:
            nodes = ber.parse(data, deep=False)
        except Exception as e:  # noqa: BLE001
            nodes = []
        got = [(n.cls, n.cons, n.num, bytes(n.content)) for n in nodes]
        exp = [(0, False, 2, want), (0, False, 10, want), (2, False, 7, want), (2, False, 7, want)]
        if got != exp:
            which = next((i for i in range(4) if i >= len(got) or got[i] != exp[i]), 0)
            violations.append({"key": None, "what": "public " + ["write_integer", "write_enumerated", "write_integer(tag)", "write_enumerated(tag)"][which]
                               + " does not emit the minimal two's-complement content under the expected identifier", "value": str(v),
                               "got": data.hex(), "want_content": want.hex()})
            continue
        try:
            r = ASN1Reader(data + b"\xAA")
            back = [r.read_integer(), r.read_enumerated(int), r.read_integer(tag=ctag), r.read_enumerated(int, tag=ctag)]
            rest = r.get_remaining_data()
            if back != [v] * 4 or rest != b"\xAA":
                violations.append({"key": None, "what": "public INTEGER/ENUMERATED read-back differs or over-consumes", "value": str(v), "hex": data.hex(),
                                   "got": [str(b) for b in back], "rest": bytes(rest).hex()})
        except BaseException as e:  # noqa: BLE001
            violations.append({"key": None, "what": f"public INTEGER/ENUMERATED read-back raised {type(e).__name__}", "value": str(v), "hex": data.hex()})
    for v in ints[:: max(1, len(ints) // ctx.scale(1500, 20000))]:
        reqs.append({"op": "int_pack", "v": v})
        reqs.append({"op": "int_read", "hex": C.pack_integer(v).hex() + "aa"})
    samples.append({"int_write": str(ints[len(ints) // 3]), "hex": C.pack_integer(ints[len(ints) // 3]).hex()})

    # ---- arbitrary content octets (minimal or padded)
    for _ in range(ctx.scale(3000, 100000)):
        n = rng.choice([1, 1, 2, 2, 3, 3, 4, 5, 8, 9, 17, 40])
        style = rng.random()
        if style < 0.3:
            content = bytes([rng.choice([0, 0xFF])] * rng.randrange(1, 4)) + bytes(rng.randrange(256) for _ in range(n))
        elif style < 0.5:
            content = bytes([rng.choice([0x80, 0xFF, 0x7F, 0x00, 0x01])]) + bytes([rng.choice([0, 0xFF])] * (n - 1))
        else:
            content = bytes(rng.randrange(256) for _ in range(n))
        evaluations += 1
        data = bytes([2, len(content)]) + content
        want = int.from_bytes(content, "big", signed=True)
        hist[f"content:len{min(len(content), 9)}"] += 1
        try:
            got = ASN1Reader(data).read_integer()
            if got != want:
                violations.append({"key": None, "what": "integer reader disagrees with two's complement", "hex": data.hex(),
                                   "got": str(got), "want": str(want)})
        except BaseException as e:  # noqa: BLE001
            violations.append({"key": None, "what": f"integer reader raised {type(e).__name__}", "hex": data.hex(), "want": str(want)})
        distinct.add(("content", content[:1], len(content), content[-1:] == b"\0"))
        if rng.random() < ctx.scale(0.3, 0.1):
            reqs.append({"op": "int_read", "hex": data.hex()})
    reqs.append({"op": "int_read", "hex": "0200"})
    reqs.append({"op": "int_read", "hex": "0a0100"})

    # ---- tags and lengths
    ls = lens(ctx)
    tg = tags(ctx)
    for (cls, cons, num) in tg:
        for n in rng.sample(ls, ctx.scale(3, 12)) + [0, 127, 128]:
            evaluations += 1
            hdr = C.pack_header(cls, cons, num, n)
            if hdr is None:  # the writer wants a real buffer for a value this large: not judged
                hist["hdr:skipped(writer needs a real buffer)"] += 1
                continue
            readable = not (cls == 0 and num > 36)
            hist[f"hdr:tagoctets{1 if num < 31 else 1 + (num.bit_length() + 6) // 7}:lenoctets{1 if n < 128 else 1 + (n.bit_length() + 7) // 8}"] += 1
            try:
                h = ASN1Reader(hdr + b"\x55\x66").peek_header()
                ok = (int(h.tag.tag_class), bool(h.tag.is_constructed), int(h.tag.tag_number), h.tag_length, h.length) == (cls, cons, num, len(hdr), n)
                if not ok:
                    violations.append({"key": None, "what": "header read-back differs", "tag": [cls, cons, num], "len": n, "hex": hdr.hex(),
                                       "got": [int(h.tag.tag_class), bool(h.tag.is_constructed), int(h.tag.tag_number), h.tag_length, h.length]})
            except ValueError:
                if readable:
                    violations.append({"key": None, "what": "header written but not readable", "tag": [cls, cons, num], "len": n, "hex": hdr.hex()})
                else:
                    violations.append({"key": "C07:universal-tag-number-above-36", "what": "UNIVERSAL tag number > 36 is written but rejected by the reader",
                                       "tag": [cls, cons, num], "hex": hdr.hex()})
            except BaseException as e:  # noqa: BLE001
                violations.append({"key": None, "what": f"header read raised {type(e).__name__}", "tag": [cls, cons, num], "len": n, "hex": hdr.hex()})
            distinct.add(("hdr", cls, cons, min(num, 31), num.bit_length() // 7, n.bit_length() // 8))
            if rng.random() < ctx.scale(0.25, 0.5):
                reqs.append({"op": "hdr_pack", "cls": cls, "cons": cons, "num": num, "len": n})
                reqs.append({"op": "hdr_read", "hex": hdr.hex() + "5566"})
    samples.append({"hdr_pack": [2, True, 1024, 70000], "hex": C.pack_header(2, True, 1024, 70000).hex()})

    # ---- lenient length forms and arbitrary bytes through the header reader (model vs impl)
    for _ in range(ctx.scale(2000, 50000)):
        style = rng.random()
        if style < 0.4:
            k = rng.choice([1, 2, 3, 4, 4, 5, 8, 127])
            val = rng.choice([0, 1, 5, 127, 128, 255, 256, 65535])
            data = bytes([rng.choice([0x30, 0x04, 0xA0, 0x61, 0x1F])])
            if data[0] == 0x1F:
                data += bytes([rng.choice([0x80, 0x81, 0x1F, 0x20, 0x7F]), rng.randrange(128)])
            data += bytes([0x80 | k]) + val.to_bytes(max(k, 2), "big")[-k:].rjust(k, b"\0") + bytes(rng.randrange(256) for _ in range(rng.randrange(0, 4)))
        elif style < 0.7:
            data = bytes(rng.randrange(256) for _ in range(rng.randrange(0, 8)))
        else:
            data = bytes(rng.choice([0x1F, 0x80, 0xFF, 0x00, 0x30, 0x81, 0x84, 0x7F]) for _ in range(rng.randrange(0, 7)))
        evaluations += 1
        reqs.append({"op": "hdr_read", "hex": data.hex()})
        distinct.add(("rawhdr", data[:2]))

    # ---- booleans and octet strings of any content; exact consumption
    for _ in range(ctx.scale(1500, 30000)):
        evaluations += 1
        b = rng.random() < 0.5
        w = ASN1Writer()
        w.write_boolean(b)
        c = gen.g_bytes(rng) if rng.random() < 0.7 else bytes(rng.randrange(256) for _ in range(rng.choice([127, 128, 255, 256, 65535, 65536])))
        w.write_octet_string(c)
        data = bytes(w.get_data())
        r = ASN1Reader(data + b"\x01\x02")
        try:
            b2 = r.read_boolean()
            c2 = r.read_octet_string()
            rest = r.get_remaining_data()
            if b2 != b or c2 != c or rest != b"\x01\x02":
                violations.append({"key": None, "what": "boolean/octet string round trip differs", "hex": data[:64].hex(), "len": len(c)})
        except BaseException as e:  # noqa: BLE001
            violations.append({"key": None, "what": f"boolean/octet string read raised {type(e).__name__}", "hex": data[:64].hex()})
        hist[f"octets:lenoctets{1 if len(c) < 128 else 1 + (len(c).bit_length() + 7) // 8}"] += 1
        distinct.add(("octets", len(c), b))
        if len(c) < 400 and rng.random() < 0.3:
            reqs.append({"op": "octets_pack", "hex": c.hex()})
            reqs.append({"op": "octets_read", "hex": C.pack_octets(c).hex() + "0102"})
            reqs.append({"op": "bool_pack", "v": b})
    for content in (b"", b"\x00", b"\x01", b"\xff", b"\x00\x00", b"\x80"):
        reqs.append({"op": "bool_read", "hex": (bytes([1, len(content)]) + content).hex()})
    # the value handed to the writer is the caller's: bytes, bytearray or memoryview, written once, twice or three times (also under a tag and
    # inside a sequence) — every copy read back equals the content, and the caller's object is unchanged afterwards
    for _ in range(ctx.scale(400, 6000)):
        evaluations += 1
        c = gen.g_bytes(rng) if rng.random() < 0.8 else bytes(rng.randrange(256) for _ in range(rng.choice([127, 128, 300])))
        kind = rng.choice(["bytes", "bytearray", "memoryview", "memoryview-of-bytearray"])
        obj = c if kind == "bytes" else bytearray(c) if kind == "bytearray" else memoryview(c) if kind == "memoryview" else memoryview(bytearray(c))
        times = rng.choice([1, 2, 2, 3])
        tag = ASN1Tag(TagClass.CONTEXT_SPECIFIC, rng.choice([0, 3, 31]), False) if rng.random() < 0.4 else None
        nested = rng.random() < 0.4
        hist["octets-arg:" + kind] += 1
        try:
            w = ASN1Writer()
            if nested:
                with w.push_sequence() as sq:
                    for _i in range(times):
                        sq.write_octet_string(obj, tag=tag)
            else:
                for _i in range(times):
                    w.write_octet_string(obj, tag=tag)
            data = bytes(w.get_data())
            r = ASN1Reader(data)
            if nested:
                r = r.read_sequence()
            back = [r.read_octet_string(tag=tag) for _i in range(times)]
            after = bytes(obj)
        except BaseException as e:  # noqa: BLE001
            violations.append({"key": None, "what": f"writing / reading an octet string given as {kind} raised {type(e).__name__}", "content": c[:40].hex(), "times": times})
            continue
        if back != [c] * times or after != c:
            violations.append({"key": None, "what": f"an octet string given as {kind} and written {times} time(s) is read back differently, or the caller's "
                               "object was changed by the write", "content": c[:40].hex(), "read_back": [b[:40].hex() for b in back], "object_after": after[:40].hex(),
                               "nested": nested})

    # ---- the READER is handed every legal buffer kind (bytes, bytearray, memoryview of unsigned / SIGNED / char / ctypes items): identifier and
    # length octets >= 0x80 (high tag numbers, long-form lengths 128..255, 384.., 1000, 40000) and content octets >= 0x80 read back the same
    import impl as IMPL
    for n in (0, 1, 127, 128, 129, 200, 255, 256, 384, 511, 1000, 32768, 40000, 65535):
        for tag in (None, ASN1Tag(TagClass.CONTEXT_SPECIFIC, 3, False), ASN1Tag(TagClass.PRIVATE, 200, False), ASN1Tag(TagClass.APPLICATION, 16383, False)):
            content = bytes((i * 37 + 200) % 256 for i in range(n))
            w = ASN1Writer()
            w.write_octet_string(content, tag=tag)
            w.write_integer(-129)
            data = bytes(w.get_data())
            for kind in ("bytes", "bytearray", "memoryview", "memoryview-bytearray") + tuple(IMPL.EXOTIC_KINDS):
                evaluations += 1
                hist["reader-input:" + kind] += 1
                try:
                    r = ASN1Reader(IMPL.input_object(data, kind))
                    h = r.peek_header()
                    back = r.read_octet_string(tag=tag) if tag is not None else r.read_octet_string()
                    iv = r.read_integer()
                    rest = r.get_remaining_data()
                    ok = (h.length == n and back == content and iv == -129 and bytes(rest) == b"" and
                          (tag is None or (h.tag.tag_class, h.tag.tag_number, h.tag.is_constructed) == (tag.tag_class, tag.tag_number, tag.is_constructed)))
                    why = f"header length {h.length}, {len(back)} content octets, integer {iv}, {len(bytes(rest))} octets left"
                except BaseException as e:  # noqa: BLE001
                    ok, why = False, f"raised {type(e).__name__}: {e}"[:200]
                if not ok and kind in IMPL.EXOTIC_KINDS:
                    hist["reader-input:exotic-kind-not-read-back (observation, outside the judged domain)"] += 1
                    continue
                if not ok:
                    violations.append({"key": None, "what": f"a value of {n} content octets written by the writer is not read back from a {kind} buffer: {why}",
                                       "input_kind": kind, "content_octets": n, "tag": None if tag is None else list(tag), "hex": data[:40].hex()})
                    break

    # ---- octet strings under EVERY tag incl. the universal ones in constructed form (24 = constructed OCTET STRING, 30, 31 …), whose CONTENT is
    # itself a run of well-formed TLVs (an encoded value stored inside an octet string): read back as the very same octets
    inner_w = ASN1Writer()
    inner_w.write_octet_string(b"A")
    inner_w.write_octet_string(b"")
    tlvs = bytes(inner_w.get_data())                      # 04 01 41 04 00
    for content in (tlvs, tlvs[:3], tlvs[3:], tlvs * 3, b"\x04\x00", b"\x04\x81\x01x", b"\x02\x01\x05", b"\x30\x03\x04\x01a", b"\x24\x03\x04\x01a"):
        for tag in (ASN1Tag.universal_tag(TypeTagNumber.OCTET_STRING, True), ASN1Tag.universal_tag(TypeTagNumber.OCTET_STRING, False),
                    ASN1Tag.universal_tag(TypeTagNumber.SEQUENCE, True), ASN1Tag.universal_tag(TypeTagNumber.SET, True),
                    ASN1Tag(TagClass.CONTEXT_SPECIFIC, 4, True), ASN1Tag(TagClass.APPLICATION, 4, True), ASN1Tag(TagClass.PRIVATE, 36, True)):
            evaluations += 1
            hist["octets-that-look-like-tlvs"] += 1
            try:
                w = ASN1Writer()
                w.write_octet_string(content, tag=tag)
                w.write_boolean(True)
                r = ASN1Reader(bytes(w.get_data()))
                h = r.peek_header()
                back = [r.read_octet_string(tag=tag), None]
                r2 = ASN1Reader(bytes(w.get_data()))
                back[1] = r2.read_octet_string(header=r2.peek_header())
                ok = back == [content, content] and r.read_boolean() is True and h.length == len(content)
                why = f"read back {[bytes(b).hex() for b in back]}"
            except BaseException as e:  # noqa: BLE001
                ok, why = False, f"raised {type(e).__name__}: {e}"[:200]
            if not ok:
                violations.append({"key": None, "what": f"an octet string whose content looks like encoded TLVs, written under tag {tuple(tag)}, is not read back "
                                   f"as the same octets: {why}", "content": content.hex(), "tag": list(tag)})

    # ---- nested sequences / sets written through the writer API and read back through sub-readers
    def build(w, depth):
        spec = []
        for _ in range(rng.randrange(0, 4)):
            k = rng.choice(["int", "oct", "bool", "seq", "set"] if depth > 0 else ["int", "oct", "bool"])
            if k == "int":
                v = gen.g_int(rng)
                w.write_integer(v)
                spec.append(("int", v))
            elif k == "oct":
                c = bytes(rng.randrange(256) for _ in range(rng.choice([0, 1, 5, 130])))
                tag = ASN1Tag(TagClass.CONTEXT_SPECIFIC, rng.choice([0, 7, 30, 31, 200]), False) if rng.random() < 0.5 else None
                w.write_octet_string(c, tag=tag)
                spec.append(("oct", c, tag))
            elif k == "bool":
                b = rng.random() < 0.5
                w.write_boolean(b)
                spec.append(("bool", b))
            else:
                # default tag, or an explicit tag of any class / number in EITHER form (the property: every tag written is read back identically)
                tag = None
                if rng.random() < 0.5:
                    tag = ASN1Tag(rng.choice([TagClass.CONTEXT_SPECIFIC, TagClass.APPLICATION, TagClass.PRIVATE]), rng.choice([0, 3, 16, 17, 30, 31, 200]),
                                  rng.random() < 0.5)
                with (w.push_sequence(tag) if k == "seq" else w.push_set(tag)) as inner:
                    spec.append((k, build(inner, depth - 1), tag))
        return spec

    def readback(r, spec):
        for item in spec:
            if item[0] == "int":
                assert r.read_integer() == item[1]
            elif item[0] == "oct":
                assert r.read_octet_string(tag=item[2]) == item[1]
            elif item[0] == "bool":
                assert r.read_boolean() == item[1]
            else:
                tag = item[2]
                if tag is not None:
                    h = r.peek_header()
                    assert (h.tag.tag_class, h.tag.tag_number, h.tag.is_constructed) == (tag.tag_class, tag.tag_number, tag.is_constructed), \
                        f"tag written {tuple(tag)} is read back as {tuple(h.tag)}"
                if item[0] == "seq":
                    readback(r.read_sequence(tag=tag) if tag is not None else r.read_sequence(), item[1])
                else:
                    readback(r.read_set(tag=tag) if tag is not None else r.read_set(), item[1])
        assert not r

    # wide trees: hundreds of constructed values side by side under one reader, at one level and spread over several levels ("all nestings" is
    # about shape, not only depth), and deep narrow ones
    def wide(w, widths):
        spec = []
        for i in range(widths[0]):
            k = "seq" if i % 3 else "set"
            with (w.push_sequence() if k == "seq" else w.push_set()) as inner:
                sub = wide(inner, widths[1:]) if len(widths) > 1 else []
                if not sub and i % 5 == 0:
                    inner.write_integer(i - 2)
                    sub = [("int", i - 2)]
                spec.append((k, sub, None))
        return spec

    for widths in ([101], [150], [300], [1000], [12] * 3, [12, 12], [40, 5], [3, 40], [2] * 9, [1] * 90, [5, 30, 1]):
        evaluations += 1
        hist["tree-wide"] += 1
        w = ASN1Writer()
        spec = wide(w, widths)
        data = bytes(w.get_data())
        try:
            readback(ASN1Reader(data), spec)
        except BaseException as e:  # noqa: BLE001
            violations.append({"key": None, "what": f"sequences / sets written side by side (fan-out per level {widths}) are not read back: {type(e).__name__} {e}"[:300],
                               "fan_out_per_level": widths, "bytes": len(data)})

    # get_data() may be called at any time, also BETWEEN writes and before / after a pushed sequence closes: every later get_data() returns
    # everything written so far (each snapshot is a prefix of the next), and the final bytes read back as the whole tree
    for _ in range(ctx.scale(300, 5000)):
        evaluations += 1
        hist["tree-with-get_data-in-between"] += 1
        w = ASN1Writer()
        spec, snaps = [], []
        for _i in range(rng.choice([2, 3, 5])):
            if rng.random() < 0.7:
                snaps.append(bytes(w.get_data()))
            k = rng.choice(["int", "oct", "seq", "set", "seq"])
            if k == "int":
                v = gen.g_int(rng)
                w.write_integer(v)
                spec.append(("int", v))
            elif k == "oct":
                c = bytes(rng.randrange(256) for _ in range(rng.choice([0, 3, 130])))
                w.write_octet_string(c)
                spec.append(("oct", c, None))
            else:
                with (w.push_sequence() if k == "seq" else w.push_set()) as inner:
                    if rng.random() < 0.3:
                        snaps.append(bytes(w.get_data()))          # while the child is still open
                    spec.append((k, build(inner, 2), None))
        data = bytes(w.get_data())
        try:
            assert all(data.startswith(sn) for sn in snaps), "an earlier get_data() result is not a prefix of a later one"
            assert bytes(w.get_data()) == data, "two get_data() calls in a row differ"
            readback(ASN1Reader(data), spec)
        except BaseException as e:  # noqa: BLE001
            violations.append({"key": None, "what": f"values written around get_data() calls are not all in the final get_data(): {type(e).__name__} {e}"[:300],
                               "hex": data[:120].hex(), "items_written": len(spec), "snapshots_taken": len(snaps)})

    for _ in range(ctx.scale(500, 10000)):
        evaluations += 1
        w = ASN1Writer()
        spec = build(w, 4)
        data = bytes(w.get_data())
        try:
            readback(ASN1Reader(data), spec)
        except BaseException as e:  # noqa: BLE001
            violations.append({"key": None, "what": f"nested sequence/set round trip failed: {type(e).__name__} {e}"[:300], "hex": data[:200].hex()})
        distinct.add(("tree", len(data) // 8, str(spec)[:40]))
    hist["tree"] = ctx.scale(500, 10000)

    # ---- correspondence
    disagreements = []
    if ctx.driver_ok:
        bad, a, b = drive.correspond(reqs)
        for i, q, x, y in bad[:20]:
            disagreements.append({"request": q, "impl": x, "model": y})
        samples.append({"request": reqs[1], "impl": a[1], "model": b[1]})
    return {
        "evaluations": evaluations,
        "distinct_nontrivial": len(distinct),
        "rule": "integers: all in ±N plus ±2^k±{0,1,2} (k≤130) plus carry chains c·256^j plus random; contents: random/padded 1-40 octets; "
                "tags: 4 classes × 2 forms × numbers {0..40,126..130,2^14±1,2^21..,2^64+1,random<2^64} × sampled lengths {0..299, 2^8k±1}; "
                "distinct = distinct (kind, octet-length class, sign/flags) tuples; each case is checked directly against int.to_bytes/from_bytes "
                "or by read-back, and a sample of them is replayed on the Lean model",
        "samples": samples,
        "histogram": dict(sorted(hist.items())),
        "requests": len(reqs),
        "violations": violations,
        "disagreements": disagreements,
    }


def replay(ctx, payload):
    import json

    print(json.dumps(payload, indent=1)[:2000])
    if "hex" in payload:
        data = bytes.fromhex(payload["hex"])
        try:
            print("peek_header:", ASN1Reader(data).peek_header())
        except BaseException as e:  # noqa: BLE001
            print("peek_header raised", type(e).__name__, e)
        try:
            print("read_integer:", ASN1Reader(data).read_integer())
        except BaseException as e:  # noqa: BLE001
            print("read_integer raised", type(e).__name__, e)
    return 0
