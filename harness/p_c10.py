"""C10 — session property checked on generated joint client/server histories (see p_session.py)."""
from __future__ import annotations

import p_session as PS

LEAN_TARGETS = ["Verif.Props.C10", "Verif.Props.C10More"]
SECOND_TIE = {
    "what": "the bookkeeping of _session.py (data_to_send, unbind, _send and _validate_outgoing_message of base / client / server, both "
            "_process_incoming_message, the processing loop and closing logic of receive with the attached notification, bind / bind_simple / bind_sasl / "
            "extended_request / search_request, bind_response / extended_response / search_result_entry / reference / done) translated method by method "
            "from the Python AST into Lean (harness/py2lean_session.py -> Generated/SessionGen.lean; encoding = the model's encMsg, unpacking = the "
            "model's parse loop, both abstract here) and proved equal to the hand-written model of Model/Session.lean (Props/TiesSession.lean: component "
            "ties to sendBase / clientSend / serverSend / clientProcess / serverProcess / processLoop / recv, and one step tie per Call constructor)",
    "translator": "py2lean_session.py",
    "targets": ["Verif.Props.TiesSession", "Verif.Props.TiesSessionRecv", "Verif.Props.TiesSessionBridge"],
    "validate": "p_sessiongen.py",
}
LEVEL = "proof"
ASSUMPTIONS = [
    "sets of message ids are modelled as duplicate-free lists; internal buffers are observed read-only by the harness",
]


def run(ctx):
    r = PS.run_histories(ctx, "C10", ctx.scale(250, 6000), ctx.scale(24, 40))
    import collections
    import p_recv
    h2 = collections.Counter()
    r["violations"] = list(r.get("violations", [])) + p_recv.failed_pack_histories(ctx.rng, ctx.scale(150, 3000), h2)
    r["evaluations"] = r.get("evaluations", 0) + h2["failed-pack:sessions"]
    r.setdefault("histogram", {}).update(dict(h2))
    r["rule"] = ("joint client/server histories (client calls, server calls with every id class: outstanding / search / retired / never issued / 0 / "
                 "negative, drains of every amount class incl. negative and oversized, partial and whole deliveries of the peer's real bytes, crafted "
                 "single messages of every kind, corrupted and random bytes, registrations), generated state-aware by a shadow implementation; monitor: "
                 "a refused send leaves the outgoing bytes unchanged and raises the library error; a server response is accepted only for an outstanding id; final responses retire the id, entries/references do not; every history is also replayed on the Lean model and the observables relevant to C10 are compared after every call; "
                 "plus (implementation only) pairs of sessions whose successful sends are interleaved with sends whose packing fails (un-encodable str "
                 "argument) and with drains: each drained stream must equal the harness's own BER encoding of that session's successful sends; "
                 "distinct = distinct (session, call kind, outcome kind) sequences")
    return r


def replay(ctx, payload):
    return PS.replay_history(payload)
