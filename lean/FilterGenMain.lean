/-
Differential-test driver for the Lean text generated from `sansldap/_filter.py`
(`Verif.Generated.FilterGen`).

Run:   cd lean && lake env lean --run FilterGenMain.lean < cases.txt
The Python side is `harness/p_filtergen.py`; it writes the cases, runs this script once and compares
line by line.

One case per line, `<op> <args...>`, fields separated by single blanks:
  cps      the code points of a Python `str`, decimal, separated by `,` (`-` = empty string)
  bytes    `x` followed by hex octets (`x` alone = empty)
  int      decimal
ops (namespace Verif.FilterGen; fuel = 100000, depth = 400 everywhere):
  fs  <cps>               LDAPFilter_from_string            -> filter
  uf  <bytes> <off> <len> unpack_filter                     -> filter int
  uc  <bytes> <off> <len> unpack_complex_filter (unpack_filter fuel depth) -> filter int
  us  <bytes> <off> <len> unpack_simple_filter              -> filter int
  hdr <bytes> <off> <len> unpack_filter_extensible_header   -> opt bool opt
  sub <bytes> <off> <len> unpack_filter_substrings_value    -> opt [bytes,…] opt
  sv  <bytes>             serialize_filter_value            -> bytes (the UTF-8 octets of the str)
  str <tree…>             Filter_str                        -> bytes (the UTF-8 octets of str(filter))
      tree, prefix form, blank-separated tokens: `and <n> t1…tn` | `or <n> t1…tn` | `not t` | `eq a v` |
      `substr a i <n> any1…anyn f` | `ge a v` | `le a v` | `present a` | `approx a v` | `ext rule attr v dn`
      (a, v bytes; i, f, rule, attr options `none` | bytes; dn 0/1)
One result line per case:
  `ok <value>`    filter: `(and f…)` `(or f…)` `(not f)` `(eq a v)` `(substr a i [any,…] f)` `(ge a v)`
                  `(le a v)` `(present a)` `(approx a v)` `(ext rule attr v dn)`; bytes `x<hex>`;
                  options `none` | `x<hex>`; bools 0/1
  `err <offset> <length>` | `err recursion` | `err fuel` | `err other`
  `bad <reason>`
-/
import Verif.Generated.FilterGen

open Verif Verif.FilterRt Verif.FilterGen

namespace FilterGenMain

def fuel : Nat := 100000
def depth : Nat := 400

def hexVal (c : Char) : Option Nat :=
  if '0' ≤ c ∧ c ≤ '9' then some (c.toNat - '0'.toNat)
  else if 'a' ≤ c ∧ c ≤ 'f' then some (c.toNat - 'a'.toNat + 10)
  else none

def parseHexAux : List Char → List Nat → Option (List Nat)
  | [], acc => some acc.reverse
  | [_], _ => none
  | a :: b :: rest, acc =>
    match hexVal a, hexVal b with
    | some x, some y => parseHexAux rest ((x * 16 + y) :: acc)
    | _, _ => none

def parseBytes (s : String) : Option (List Nat) :=
  match s.toList with
  | 'x' :: r => parseHexAux r []
  | _ => none

def parseCps (s : String) : Option (List Nat) :=
  if s == "-" then some [] else (s.splitOn ",").mapM (·.toNat?)

def hexDigit (n : Nat) : Char := if n < 10 then Char.ofNat (48 + n) else Char.ofNat (87 + n)

def showBytes (l : List Nat) : String :=
  "x" ++ String.ofList (l.flatMap fun b => [hexDigit (b / 16 % 16), hexDigit (b % 16)])

def showOpt : Option (List Nat) → String
  | none => "none"
  | some b => showBytes b

def showBool (b : Bool) : String := if b then "1" else "0"

def showList (l : List (List Nat)) : String := "[" ++ ",".intercalate (l.map showBytes) ++ "]"

mutual
partial def showFilter : Filter → String
  | .and fs => "(and" ++ showFilters fs ++ ")"
  | .or fs => "(or" ++ showFilters fs ++ ")"
  | .not f => "(not " ++ showFilter f ++ ")"
  | .eq a v => "(eq " ++ showBytes a ++ " " ++ showBytes v ++ ")"
  | .substr a i any f => "(substr " ++ showBytes a ++ " " ++ showOpt i ++ " " ++ showList any ++ " " ++ showOpt f ++ ")"
  | .ge a v => "(ge " ++ showBytes a ++ " " ++ showBytes v ++ ")"
  | .le a v => "(le " ++ showBytes a ++ " " ++ showBytes v ++ ")"
  | .present a => "(present " ++ showBytes a ++ ")"
  | .approx a v => "(approx " ++ showBytes a ++ " " ++ showBytes v ++ ")"
  | .ext r a v dn => "(ext " ++ showOpt r ++ " " ++ showOpt a ++ " " ++ showBytes v ++ " " ++ showBool dn ++ ")"
  | .custom v => "(custom " ++ showBytes v ++ ")"
partial def showFilters : List Filter → String
  | [] => ""
  | f :: fs => " " ++ showFilter f ++ showFilters fs
end

def showErr : GErr → String
  | .syntax o l => "err " ++ toString o ++ " " ++ toString l
  | .recursion => "err recursion"
  | .fuel => "err fuel"
  | .other => "err other"

def showRes {α : Type} (f : α → String) : Except GErr α → String
  | .ok v => "ok " ++ f v
  | .error e => showErr e

def bad (s : String) : String := "bad " ++ s

def showFI (r : Filter × Int) : String := showFilter r.1 ++ " " ++ toString r.2

def window (args : List String) : Option (List Nat × Int × Int) :=
  match args with
  | [b, o, l] => do
    let b ← parseBytes b
    let o ← o.toInt?
    let l ← l.toInt?
    pure (b, o, l)
  | _ => none

def parseOpt (s : String) : Option (Option (List Nat)) :=
  if s == "none" then some none else (parseBytes s).map some

def parseNBytes : Nat → List String → Option (List (List Nat) × List String)
  | 0, ts => some ([], ts)
  | n + 1, t :: ts => do
    let b ← parseBytes t
    let (r, ts) ← parseNBytes n ts
    pure (b :: r, ts)
  | _, [] => none

mutual
partial def parseTree : List String → Option (Filter × List String)
  | "and" :: n :: ts => do
    let (fs, ts) ← parseTrees (← n.toNat?) ts
    pure (.and fs, ts)
  | "or" :: n :: ts => do
    let (fs, ts) ← parseTrees (← n.toNat?) ts
    pure (.or fs, ts)
  | "not" :: ts => do
    let (f, ts) ← parseTree ts
    pure (.not f, ts)
  | "eq" :: a :: v :: ts => do pure (.eq (← parseBytes a) (← parseBytes v), ts)
  | "ge" :: a :: v :: ts => do pure (.ge (← parseBytes a) (← parseBytes v), ts)
  | "le" :: a :: v :: ts => do pure (.le (← parseBytes a) (← parseBytes v), ts)
  | "approx" :: a :: v :: ts => do pure (.approx (← parseBytes a) (← parseBytes v), ts)
  | "present" :: a :: ts => do pure (.present (← parseBytes a), ts)
  | "substr" :: a :: i :: n :: ts => do
    let (any, ts) ← parseNBytes (← n.toNat?) ts
    match ts with
    | f :: ts => pure (.substr (← parseBytes a) (← parseOpt i) any (← parseOpt f), ts)
    | [] => none
  | "ext" :: r :: a :: v :: dn :: ts => do
    pure (.ext (← parseOpt r) (← parseOpt a) (← parseBytes v) (dn == "1"), ts)
  | _ => none
partial def parseTrees : Nat → List String → Option (List Filter × List String)
  | 0, ts => some ([], ts)
  | n + 1, ts => do
    let (f, ts) ← parseTree ts
    let (fs, ts) ← parseTrees n ts
    pure (f :: fs, ts)
end

def runCase (op : String) (args : List String) : Option String :=
  match op, args with
  | "fs", [s] => do
    let s ← parseCps s
    pure (showRes showFilter (LDAPFilter_from_string fuel depth s))
  | "uf", _ => do
    let (b, o, l) ← window args
    pure (showRes showFI (unpack_filter fuel depth b o l))
  | "uc", _ => do
    let (b, o, l) ← window args
    pure (showRes showFI (unpack_complex_filter (unpack_filter fuel depth) fuel b o l))
  | "us", _ => do
    let (b, o, l) ← window args
    pure (showRes showFI (unpack_simple_filter b o l))
  | "hdr", _ => do
    let (b, o, l) ← window args
    pure (showRes (fun (r : Option (List Nat) × Bool × Option (List Nat)) =>
      showOpt r.1 ++ " " ++ showBool r.2.1 ++ " " ++ showOpt r.2.2) (unpack_filter_extensible_header b o l))
  | "sub", _ => do
    let (b, o, l) ← window args
    pure (showRes (fun (r : Option (List Nat) × List (List Nat) × Option (List Nat)) =>
      showOpt r.1 ++ " " ++ showList r.2.1 ++ " " ++ showOpt r.2.2) (unpack_filter_substrings_value b o l))
  | "sv", [b] => do
    let b ← parseBytes b
    pure ("ok " ++ showBytes (serialize_filter_value b))
  | "str", _ => do
    let (f, rest) ← parseTree args
    if rest.isEmpty then pure ("ok " ++ showBytes (Filter_str f)) else none
  | _, _ => some (bad ("unknown op or arity: " ++ op))

def runLine (line : String) : String :=
  match (line.splitOn " ").filter (· ≠ "") with
  | [] => bad "empty line"
  | op :: args =>
    match runCase op args with
    | some r => r
    | none => bad ("argument syntax: " ++ op)

def stripEol (s : String) : String :=
  let s := if s.endsWith "\n" then (s.dropEnd 1).toString else s
  if s.endsWith "\r" then (s.dropEnd 1).toString else s

partial def loop (hin hout : IO.FS.Stream) : IO Unit := do
  let line ← hin.getLine
  if line.isEmpty then
    pure ()
  else
    hout.putStrLn (runLine (stripEol line))
    loop hin hout

end FilterGenMain

def main : IO Unit := do
  let hin ← IO.getStdin
  let hout ← IO.getStdout
  FilterGenMain.loop hin hout
  hout.flush
