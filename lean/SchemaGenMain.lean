/-
Differential-test driver for the Lean text generated from `sansldap/schema.py`
(`Verif.Generated.SchemaGen`) and its runtime `Verif.PyRtStr`.

Run:   cd lean && lake env lean --run SchemaGenMain.lean < cases.txt
The Python side is `harness/p_schemagen.py`; it writes the cases, runs this script once and compares line by line.

One case per line: `<op> <arg> ...`, fields separated by single blanks.  Encodings (no blanks inside):
  str        code points in decimal joined by `,`; `-` = the empty string
  str?       `N` = None, else a str
  [str]      strs joined by `;`; `_` = the empty list
  dict       entries `key=[str]` joined by `|`; `_` = the empty dict
  bool       `0` / `1`;  nat  decimal;  nat?  `N` or decimal
One result line per case: `ok <value>` (the same encodings; the fields of a description separated by blanks),
`err valueError|notImpl|recursion|notEnough`, or `bad <reason>`.

ops (fuel = 1000000):
  eoids [str] | eqd str | poids str? | pqd str | pext str?
  ocstr oid [str] str? bool [str] nat [str] [str] dict                 (ObjectClassDescription fields in order)
  atstr oid [str] str? bool str? str? str? str? str? nat? bool bool bool nat dict
  dcrstr oid [str] str? bool [str] [str] [str] [str] dict
  ocfrom str | atfrom str | dcrfrom str
  strip str(chars) str | stripws str | lstrip str(chars) str | split nat str | split1 nat str | join str [str]
  int str | strnat nat
-/
import Verif.Generated.SchemaGen

open Verif Verif.PyRt Verif.PyRtStr Verif.SchemaGen Verif.Schema

namespace SchemaGenMain

def fuel : Nat := 1000000

def pStr (s : String) : Option Str :=
  if s == "-" then some [] else (s.splitOn ",").mapM String.toNat?

def pOptStr (s : String) : Option (Option Str) :=
  if s == "N" then some none else (pStr s).map some

def pList (s : String) : Option (List Str) :=
  if s == "_" then some [] else (s.splitOn ";").mapM pStr

def pDict (s : String) : Option (List (Str × List Str)) :=
  if s == "_" then some [] else
  (s.splitOn "|").mapM fun e =>
    match e.splitOn "=" with
    | [k, v] => do pure ((← pStr k), (← pList v))
    | _ => none

def pBool (s : String) : Option Bool := if s == "0" then some false else if s == "1" then some true else none

def pOptNat (s : String) : Option (Option Nat) := if s == "N" then some none else s.toNat?.map some

def sStr (s : Str) : String := if s.isEmpty then "-" else ",".intercalate (s.map toString)
def sOptStr : Option Str → String | none => "N" | some s => sStr s
def sList (l : List Str) : String := if l.isEmpty then "_" else ";".intercalate (l.map sStr)
def sDict (d : List (Str × List Str)) : String :=
  if d.isEmpty then "_" else "|".intercalate (d.map fun (k, v) => sStr k ++ "=" ++ sList v)
def sBool (b : Bool) : String := if b then "1" else "0"
def sOptNat : Option Nat → String | none => "N" | some n => toString n

def sErr : Err → String
  | .valueError => "err valueError" | .notImpl => "err notImpl" | .recursion => "err recursion"
  | .notEnough => "err notEnough"

def out {α : Type} (f : α → String) : Except Err α → String
  | .ok a => "ok " ++ f a
  | .error e => sErr e

def sOC (d : ObjectClass) : String :=
  " ".intercalate [sStr d.oid, sList d.names, sOptStr d.desc, sBool d.obsolete, sList d.sup, toString d.kind,
    sList d.must, sList d.may, sDict d.exts]

def sAT (d : AttributeType) : String :=
  " ".intercalate [sStr d.oid, sList d.names, sOptStr d.desc, sBool d.obsolete, sOptStr d.sup, sOptStr d.equality,
    sOptStr d.ordering, sOptStr d.substr, sOptStr d.syn, sOptNat d.synLen, sBool d.singleValue, sBool d.collective,
    sBool d.noUserMod, toString d.usage, sDict d.exts]

def sDCR (d : DITContentRule) : String :=
  " ".intercalate [sStr d.oid, sList d.names, sOptStr d.desc, sBool d.obsolete, sList d.aux, sList d.must,
    sList d.may, sList d.never, sDict d.exts]

def run (line : String) : String :=
  let bad := "bad " ++ line.take 40
  match line.splitOn " " with
  | ["eoids", l] => match pList l with | some l => out sStr (encode_oids l) | none => bad
  | ["eqd", s] => match pStr s with | some s => "ok " ++ sStr (encode_qdstring s) | none => bad
  | ["poids", s] => match pOptStr s with | some s => "ok " ++ sList (parse_oids s) | none => bad
  | ["pqd", s] => match pStr s with | some s => "ok " ++ sStr (parse_qdstring s) | none => bad
  | ["pext", s] => match pOptStr s with | some s => out sDict (parse_extensions fuel s) | none => bad
  | ["ocstr", a, b, c, d, e, f, g, h, i] =>
    match pStr a, pList b, pOptStr c, pBool d, pList e, f.toNat?, pList g, pList h, pDict i with
    | some a, some b, some c, some d, some e, some f, some g, some h, some i =>
      out sStr (ObjectClassDescription_str
        { oid := a, names := b, desc := c, obsolete := d, sup := e, kind := f, must := g, may := h, exts := i })
    | _, _, _, _, _, _, _, _, _ => bad
  | ["atstr", a, b, c, d, e, f, g, h, i, j, k, l, m, n, o] =>
    match pStr a, pList b, pOptStr c, pBool d, pOptStr e, pOptStr f, pOptStr g, pOptStr h with
    | some a, some b, some c, some d, some e, some f, some g, some h =>
      match pOptStr i, pOptNat j, pBool k, pBool l, pBool m, n.toNat?, pDict o with
      | some i, some j, some k, some l, some m, some n, some o =>
        out sStr (AttributeTypeDescription_str
          { oid := a, names := b, desc := c, obsolete := d, sup := e, equality := f, ordering := g, substr := h,
            syn := i, synLen := j, singleValue := k, collective := l, noUserMod := m, usage := n, exts := o })
      | _, _, _, _, _, _, _ => bad
    | _, _, _, _, _, _, _, _ => bad
  | ["dcrstr", a, b, c, d, e, f, g, h, i] =>
    match pStr a, pList b, pOptStr c, pBool d, pList e, pList f, pList g, pList h, pDict i with
    | some a, some b, some c, some d, some e, some f, some g, some h, some i =>
      out sStr (DITContentRuleDescription_str
        { oid := a, names := b, desc := c, obsolete := d, aux := e, must := f, may := g, never := h, exts := i })
    | _, _, _, _, _, _, _, _, _ => bad
  | ["ocfrom", s] => match pStr s with | some s => out sOC (ObjectClassDescription_from_string fuel s) | none => bad
  | ["atfrom", s] => match pStr s with | some s => out sAT (AttributeTypeDescription_from_string fuel s) | none => bad
  | ["dcrfrom", s] => match pStr s with | some s => out sDCR (DITContentRuleDescription_from_string fuel s) | none => bad
  | ["strip", c, s] => match pStr c, pStr s with | some c, some s => "ok " ++ sStr (pyStrip c s) | _, _ => bad
  | ["lstrip", c, s] => match pStr c, pStr s with | some c, some s => "ok " ++ sStr (pyLstrip c s) | _, _ => bad
  | ["stripws", s] => match pStr s with | some s => "ok " ++ sStr (pyStripWs s) | none => bad
  | ["split", c, s] => match c.toNat?, pStr s with | some c, some s => "ok " ++ sList (pySplit c s) | _, _ => bad
  | ["split1", c, s] => match c.toNat?, pStr s with | some c, some s => "ok " ++ sList (pySplit1 c s) | _, _ => bad
  | ["join", c, l] => match pStr c, pList l with | some c, some l => "ok " ++ sStr (pyJoin c l) | _, _ => bad
  | ["int", s] => match pStr s with | some s => out toString (pyIntDigits s) | none => bad
  | ["strnat", n] => match n.toNat? with | some n => out sStr (pyStrNat n) | none => bad
  | _ => bad

partial def loop (h : IO.FS.Stream) (o : IO.FS.Stream) : IO Unit := do
  let line ← h.getLine
  if line.isEmpty then return
  let line := String.ofList (line.toList.filter (fun c => c != '\n' && c != '\r'))
  o.putStrLn (run line)
  loop h o

end SchemaGenMain

def main : IO Unit := do
  let i ← IO.getStdin
  let o ← IO.getStdout
  SchemaGenMain.loop i o
