import Verif.Model.Ber
import Verif.Model.Msg
import Verif.Model.Session
