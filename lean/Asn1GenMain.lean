/-
Differential-test driver for the Lean text generated from `sansldap/asn1.py`
(`Verif.Generated.Asn1Gen`) and for the runtime primitives of `Verif.PyRt`.

Run:   cd lean && lake env lean --run Asn1GenMain.lean < cases.txt
The Python side is `harness/p_asn1gen.py`; it writes the cases, runs this script once and compares
line by line.

One case per line, `<op> <args...>`, fields separated by single blanks:
  int      decimal (`-5`)
  bytes    lower/upper-case hex, `-` for the empty string
  bool     `0` / `1`
  tag?     `none` | `cls,num,cons`
  header?  `none` | `cls,num,cons,taglen,len`
One result line per case:
  `ok <value>`   ints decimal, bytes hex (`-` empty), bools 0/1, a header `cls,num,cons,taglen,len`,
                 the components of a tuple separated by one blank
  `err notEnough|valueError|notImpl|recursion`
  `bad <reason>` the line could not be parsed (never equal to anything Python prints)

ops (generated functions, namespace Verif.Asn1Gen; `fuel` = 100000 everywhere):
  pon   <num>                      pack_asn1_octet_number      -> bytes
  uon   <bytes>                    unpack_asn1_octet_number    -> int int
  pack  <cls> <cons> <num> <bytes> pack_asn1                   -> bytes
  pint  <value> <tag?>             pack_asn1_integer           -> bytes
  pbool <bool> <tag?>              pack_asn1_boolean           -> bytes
  rhdr  <bytes>                    read_asn1_header            -> header
  vtag  <bytes> <tag> <header?>    validate_tag                -> bytes int
  rint  <bytes> <tag?> <header?>   read_asn1_integer           -> int int
  rbool <bytes> <tag?> <header?>   read_asn1_boolean           -> bool int
ops (the wrappers and the classes `ASN1Reader` / `ASN1Writer`; a reader state is printed as its view):
  roct|rseq|rset <bytes> <tag?> <header?>   read_asn1_octet_string|sequence|set   -> bytes int
  renum <bytes> <tag?> <header?>            read_asn1_enumerated                  -> int int
  penum <value> <tag?>                      pack_asn1_enumerated                  -> bytes
  poct  <bytes> <tag?>                      pack_asn1_octet_string                -> bytes
  Rbool <bytes>                             ASN1Reader_bool                       -> bool
  Rpeek <bytes>                             ASN1Reader_peek_header                -> header view(unchanged)
  Rskip <bytes> <header>                    ASN1Reader_skip_value                 -> view
  Rpskip <bytes>                            peek_header then skip_value           -> view
  Rrem  <bytes>                             ASN1Reader_get_remaining_data         -> bytes view
  Rrbool|Rrint|Rroct <bytes> <tag?> <header?>   ASN1Reader_read_boolean|integer|octet_string -> value view
  Rrenum <bytes> <tag?> <header?> <members>     ASN1Reader_read_enumerated (enumOf members; `1,2,5` | `-`) -> int view
  Rrseq|Rrset|Rrseqof|Rrsetof <bytes> <tag?> <header?>   read_sequence|set(_of) -> view(content reader) view
  wprog|wprogw <token>*                     a writer program on `ASN1Writer()`, then get_data -> bytes
        (wprogw: the root writer is itself used as `with ASN1Writer() as w:`)
        tokens: `i:<int>:<tag?>` write_integer, `e:..` write_enumerated, `b:<bool>:<tag?>` write_boolean,
        `o:<bytes>:<tag?>` write_octet_string, `[s:<tag?>` / `[t:<tag?>` / `[S:<tag?>` / `[T:<tag?>`
        `with cur.push_sequence|push_set|push_sequence_of|push_set_of(tag) as cur:`, `]` end of the block
  wchild <s|t> <tag?>                       push_sequence|push_set(tag).get_data()  -> bytes
ops (runtime primitives, namespace Verif.PyRt):
  and a b | or a b | shl a k | shr a k          (k a natural number)
  shle a k | shre a k                           (k any int: pyShlE / pyShrE)
  get <bytes> i | set <bytes> i v | append <bytes> v
  slice <bytes> a b | slicefrom <bytes> a | sliceto <bytes> b
  unpackb <bytes> | rangelen a b | rangelendown a b | enumof_tagclass x | enumof_typetag x
-/
import Verif.Generated.Asn1Gen

open Verif Verif.PyRt Verif.Asn1Gen

namespace Asn1GenMain

def fuel : Nat := 100000

/-! ### parsing -/

def hexVal (c : Char) : Option Nat :=
  if '0' ≤ c ∧ c ≤ '9' then some (c.toNat - '0'.toNat)
  else if 'a' ≤ c ∧ c ≤ 'f' then some (c.toNat - 'a'.toNat + 10)
  else if 'A' ≤ c ∧ c ≤ 'F' then some (c.toNat - 'A'.toNat + 10)
  else none

/-- tail recursive (data of 70000 octets must not eat the stack) -/
def parseHexAux : List Char → List Nat → Option (List Nat)
  | [], acc => some acc.reverse
  | [_], _ => none
  | a :: b :: rest, acc =>
    match hexVal a, hexVal b with
    | some x, some y => parseHexAux rest ((x * 16 + y) :: acc)
    | _, _ => none

def parseHex (s : String) : Option (List Nat) :=
  if s == "-" then some [] else parseHexAux s.toList []

def parseInt (s : String) : Option Int := s.toInt?

def parseNat (s : String) : Option Nat := s.toNat?

def parseBool (s : String) : Option Bool :=
  if s == "0" then some false else if s == "1" then some true else none

def parseTag (s : String) : Option ASN1Tag :=
  match s.splitOn "," with
  | [c, n, k] => do
    let c ← parseInt c
    let n ← parseInt n
    let k ← parseBool k
    pure { tag_class := c, tag_number := n, is_constructed := k }
  | _ => none

def parseTagOpt (s : String) : Option (Option ASN1Tag) :=
  if s == "none" then some none else (parseTag s).map some

def parseHeader (s : String) : Option ASN1Header :=
  match s.splitOn "," with
  | [c, n, k, tl, l] => do
    let c ← parseInt c
    let n ← parseInt n
    let k ← parseBool k
    let tl ← parseInt tl
    let l ← parseInt l
    pure { tag := { tag_class := c, tag_number := n, is_constructed := k }, tag_length := tl, length := l }
  | _ => none

def parseHeaderOpt (s : String) : Option (Option ASN1Header) :=
  if s == "none" then some none else (parseHeader s).map some

def parseMembers (s : String) : Option (List Int) :=
  if s == "-" then some [] else (s.splitOn ",").mapM parseInt

/-- writer programs -/
inductive Cmd where
  | wi (v : Int) (t : Option ASN1Tag)
  | we (v : Int) (t : Option ASN1Tag)
  | wb (v : Bool) (t : Option ASN1Tag)
  | wo (v : List Nat) (t : Option ASN1Tag)
  | block (kind : String) (t : Option ASN1Tag) (body : List Cmd)

/-- (commands up to the matching `]` or the end, remaining tokens, whether a `]` ended the list) -/
partial def parseCmds : List String → Option (List Cmd × List String × Bool)
  | [] => some ([], [], false)
  | tok :: rest =>
    if tok == "]" then some ([], rest, true) else
    match tok.splitOn ":" with
    | [k, a, t] => do
      let t ← parseTagOpt t
      let c ← (match k with
        | "i" => (parseInt a).map (Cmd.wi · t)
        | "e" => (parseInt a).map (Cmd.we · t)
        | "b" => (parseBool a).map (Cmd.wb · t)
        | "o" => (parseHex a).map (Cmd.wo · t)
        | _ => none)
      let (cs, rest', closed) ← parseCmds rest
      pure (c :: cs, rest', closed)
    | [k, t] => do
      if ¬ (k == "[s" || k == "[t" || k == "[S" || k == "[T") then none
      let t ← parseTagOpt t
      let (body, rest', closed) ← parseCmds rest
      if ¬ closed then none
      let (cs, rest'', closed') ← parseCmds rest'
      pure (Cmd.block k t body :: cs, rest'', closed')
    | _ => none

/-! ### printing -/

def hexDigit (n : Nat) : Char :=
  if n < 10 then Char.ofNat ('0'.toNat + n) else Char.ofNat ('a'.toNat + (n - 10))

/-- octets above 255 cannot occur in a `Verif.Bytes` that models a Python byte string; if one does it is
    printed as `<n>` so that the line differs from everything Python prints -/
def showBytes (l : List Nat) : String :=
  if l.isEmpty then "-" else
  l.foldl (fun (s : String) (b : Nat) =>
    if b < 256 then (s.push (hexDigit (b / 16))).push (hexDigit (b % 16))
    else s ++ "<" ++ toString b ++ ">") ""

def showInt (i : Int) : String := toString i

def showBool (b : Bool) : String := if b then "1" else "0"

def showTag (t : ASN1Tag) : String :=
  showInt t.tag_class ++ "," ++ showInt t.tag_number ++ "," ++ showBool t.is_constructed

def showHeader (h : ASN1Header) : String :=
  showTag h.tag ++ "," ++ showInt h.tag_length ++ "," ++ showInt h.length

def showErr : Err → String
  | .notEnough => "notEnough"
  | .valueError => "valueError"
  | .notImpl => "notImpl"
  | .recursion => "recursion"

def showRes {α : Type} (f : α → String) : Except Err α → String
  | .ok a => "ok " ++ f a
  | .error e => "err " ++ showErr e

def showBytesInt (p : List Nat × Int) : String := showBytes p.1 ++ " " ++ showInt p.2
def showIntInt (p : Int × Int) : String := showInt p.1 ++ " " ++ showInt p.2
def showBoolInt (p : Bool × Int) : String := showBool p.1 ++ " " ++ showInt p.2

def showReader (r : ASN1Reader) : String := showBytes r.view
def showBytesReader (p : List Nat × ASN1Reader) : String := showBytes p.1 ++ " " ++ showReader p.2
def showIntReader (p : Int × ASN1Reader) : String := showInt p.1 ++ " " ++ showReader p.2
def showBoolReader (p : Bool × ASN1Reader) : String := showBool p.1 ++ " " ++ showReader p.2
def showReaderReader (p : ASN1Reader × ASN1Reader) : String := showReader p.1 ++ " " ++ showReader p.2

partial def runCmds (w : ASN1Writer) : List Cmd → Except Err ASN1Writer
  | [] => .ok w
  | c :: cs => do
    let w ← (match c with
      | .wi v t => ASN1Writer_write_integer fuel w v t
      | .we v t => ASN1Writer_write_enumerated fuel w v t
      | .wb v t => ASN1Writer_write_boolean fuel w v t
      | .wo v t => ASN1Writer_write_octet_string fuel w v t
      | .block k t body =>
        if k == "[s" then ASN1Writer_with_push_sequence fuel w t (fun c => runCmds c body)
        else if k == "[t" then ASN1Writer_with_push_set fuel w t (fun c => runCmds c body)
        else if k == "[S" then ASN1Writer_with_push_sequence_of fuel w t (fun c => runCmds c body)
        else ASN1Writer_with_push_set_of fuel w t (fun c => runCmds c body))
    runCmds w cs

/-! ### one case -/

def bad (why : String) : String := "bad " ++ why

/-- `some r` = result line; `none` = the arguments of a known op did not parse -/
def runCase (op : String) (args : List String) : Option String :=
  match op, args with
  -- generated functions
  | "pon", [n] => do
    let n ← parseInt n
    pure (showRes showBytes (pack_asn1_octet_number fuel n))
  | "uon", [d] => do
    let d ← parseHex d
    pure (showRes showIntInt (unpack_asn1_octet_number fuel d))
  | "pack", [c, k, n, d] => do
    let c ← parseInt c
    let k ← parseBool k
    let n ← parseInt n
    let d ← parseHex d
    pure (showRes showBytes (pack_asn1 fuel c k n d))
  | "pint", [v, t] => do
    let v ← parseInt v
    let t ← parseTagOpt t
    pure (showRes showBytes (pack_asn1_integer fuel v t))
  | "pbool", [v, t] => do
    let v ← parseBool v
    let t ← parseTagOpt t
    pure (showRes showBytes (pack_asn1_boolean fuel v t))
  | "rhdr", [d] => do
    let d ← parseHex d
    pure (showRes showHeader (read_asn1_header fuel d))
  | "vtag", [d, t, h] => do
    let d ← parseHex d
    let t ← parseTag t
    let h ← parseHeaderOpt h
    pure (showRes showBytesInt (validate_tag fuel d t h))
  | "rint", [d, t, h] => do
    let d ← parseHex d
    let t ← parseTagOpt t
    let h ← parseHeaderOpt h
    pure (showRes showIntInt (read_asn1_integer fuel d t h))
  | "rbool", [d, t, h] => do
    let d ← parseHex d
    let t ← parseTagOpt t
    let h ← parseHeaderOpt h
    pure (showRes showBoolInt (read_asn1_boolean fuel d t h))
  -- wrappers
  | "roct", [d, t, h] => do
    let d ← parseHex d
    let t ← parseTagOpt t
    let h ← parseHeaderOpt h
    pure (showRes showBytesInt (read_asn1_octet_string fuel d t h))
  | "rseq", [d, t, h] => do
    let d ← parseHex d
    let t ← parseTagOpt t
    let h ← parseHeaderOpt h
    pure (showRes showBytesInt (read_asn1_sequence fuel d t h))
  | "rset", [d, t, h] => do
    let d ← parseHex d
    let t ← parseTagOpt t
    let h ← parseHeaderOpt h
    pure (showRes showBytesInt (read_asn1_set fuel d t h))
  | "renum", [d, t, h] => do
    let d ← parseHex d
    let t ← parseTagOpt t
    let h ← parseHeaderOpt h
    pure (showRes showIntInt (read_asn1_enumerated fuel d t h))
  | "penum", [v, t] => do
    let v ← parseInt v
    let t ← parseTagOpt t
    pure (showRes showBytes (pack_asn1_enumerated fuel v t))
  | "poct", [d, t] => do
    let d ← parseHex d
    let t ← parseTagOpt t
    pure (showRes showBytes (pack_asn1_octet_string fuel d t))
  -- ASN1Reader
  | "Rbool", [d] => do
    let d ← parseHex d
    pure (showRes showBool (do let r ← ASN1Reader_init d; ASN1Reader_bool r))
  | "Rpeek", [d] => do
    let d ← parseHex d
    pure (showRes (fun h => showHeader h ++ " " ++ showBytes d) (do let r ← ASN1Reader_init d; ASN1Reader_peek_header fuel r))
  | "Rskip", [d, h] => do
    let d ← parseHex d
    let h ← parseHeader h
    pure (showRes showReader (do let r ← ASN1Reader_init d; ASN1Reader_skip_value r h))
  | "Rpskip", [d] => do
    let d ← parseHex d
    pure (showRes showReader (do
      let r ← ASN1Reader_init d
      let h ← ASN1Reader_peek_header fuel r
      ASN1Reader_skip_value r h))
  | "Rrem", [d] => do
    let d ← parseHex d
    pure (showRes showBytesReader (do let r ← ASN1Reader_init d; ASN1Reader_get_remaining_data r))
  | "Rrbool", [d, t, h] => do
    let d ← parseHex d
    let t ← parseTagOpt t
    let h ← parseHeaderOpt h
    pure (showRes showBoolReader (do let r ← ASN1Reader_init d; ASN1Reader_read_boolean fuel r t h))
  | "Rrint", [d, t, h] => do
    let d ← parseHex d
    let t ← parseTagOpt t
    let h ← parseHeaderOpt h
    pure (showRes showIntReader (do let r ← ASN1Reader_init d; ASN1Reader_read_integer fuel r t h))
  | "Rroct", [d, t, h] => do
    let d ← parseHex d
    let t ← parseTagOpt t
    let h ← parseHeaderOpt h
    pure (showRes showBytesReader (do let r ← ASN1Reader_init d; ASN1Reader_read_octet_string fuel r t h))
  | "Rrenum", [d, t, h, ms] => do
    let d ← parseHex d
    let t ← parseTagOpt t
    let h ← parseHeaderOpt h
    let ms ← parseMembers ms
    pure (showRes showIntReader (do let r ← ASN1Reader_init d; ASN1Reader_read_enumerated fuel r (enumOf ms) t h))
  | "Rrseq", [d, t, h] => do
    let d ← parseHex d
    let t ← parseTagOpt t
    let h ← parseHeaderOpt h
    pure (showRes showReaderReader (do let r ← ASN1Reader_init d; ASN1Reader_read_sequence fuel r t h))
  | "Rrset", [d, t, h] => do
    let d ← parseHex d
    let t ← parseTagOpt t
    let h ← parseHeaderOpt h
    pure (showRes showReaderReader (do let r ← ASN1Reader_init d; ASN1Reader_read_set fuel r t h))
  | "Rrseqof", [d, t, h] => do
    let d ← parseHex d
    let t ← parseTagOpt t
    let h ← parseHeaderOpt h
    pure (showRes showReaderReader (do let r ← ASN1Reader_init d; ASN1Reader_read_sequence_of fuel r t h))
  | "Rrsetof", [d, t, h] => do
    let d ← parseHex d
    let t ← parseTagOpt t
    let h ← parseHeaderOpt h
    pure (showRes showReaderReader (do let r ← ASN1Reader_init d; ASN1Reader_read_set_of fuel r t h))
  -- ASN1Writer
  | "wchild", [k, t] => do
    let t ← parseTagOpt t
    pure (showRes showBytes (do
      let w ← ASN1Writer_init none none
      let c ← (if k == "s" then ASN1Writer_push_sequence w t else ASN1Writer_push_set w t)
      ASN1Writer_get_data c))
  | "wprog", toks => do
    let (cs, _, closed) ← parseCmds toks
    if closed then none
    pure (showRes showBytes (do
      let w ← ASN1Writer_init none none
      let w ← runCmds w cs
      ASN1Writer_get_data w))
  | "wprogw", toks => do
    let (cs, _, closed) ← parseCmds toks
    if closed then none
    pure (showRes showBytes (do
      let w ← ASN1Writer_init none none
      let w ← ASN1Writer_enter w
      let w ← runCmds w cs
      let w ← ASN1Writer_exit fuel w
      ASN1Writer_get_data w))
  -- runtime primitives
  | "and", [a, b] => do
    let a ← parseInt a
    let b ← parseInt b
    pure ("ok " ++ showInt (pyAnd a b))
  | "or", [a, b] => do
    let a ← parseInt a
    let b ← parseInt b
    pure ("ok " ++ showInt (pyOr a b))
  | "shl", [a, k] => do
    let a ← parseInt a
    let k ← parseNat k
    pure ("ok " ++ showInt (pyShl a k))
  | "shr", [a, k] => do
    let a ← parseInt a
    let k ← parseNat k
    pure ("ok " ++ showInt (pyShr a k))
  | "shle", [a, k] => do
    let a ← parseInt a
    let k ← parseInt k
    pure (showRes showInt (pyShlE a k))
  | "shre", [a, k] => do
    let a ← parseInt a
    let k ← parseInt k
    pure (showRes showInt (pyShrE a k))
  | "get", [d, i] => do
    let d ← parseHex d
    let i ← parseInt i
    pure (showRes showInt (getItem d i))
  | "set", [d, i, v] => do
    let d ← parseHex d
    let i ← parseInt i
    let v ← parseInt v
    pure (showRes showBytes (setItem d i v))
  | "append", [d, v] => do
    let d ← parseHex d
    let v ← parseInt v
    pure (showRes showBytes (baAppend d v))
  | "slice", [d, a, b] => do
    let d ← parseHex d
    let a ← parseInt a
    let b ← parseInt b
    pure ("ok " ++ showBytes (slice d a b))
  | "slicefrom", [d, a] => do
    let d ← parseHex d
    let a ← parseInt a
    pure ("ok " ++ showBytes (sliceFrom d a))
  | "sliceto", [d, b] => do
    let d ← parseHex d
    let b ← parseInt b
    pure ("ok " ++ showBytes (sliceTo d b))
  | "unpackb", [d] => do
    let d ← parseHex d
    pure (showRes showInt (unpackB d))
  | "rangelen", [a, b] => do
    let a ← parseInt a
    let b ← parseInt b
    pure ("ok " ++ toString (rangeLen a b))
  | "rangelendown", [a, b] => do
    let a ← parseInt a
    let b ← parseInt b
    pure ("ok " ++ toString (rangeLenDown a b))
  | "enumof_tagclass", [x] => do
    let x ← parseInt x
    pure (showRes showInt (enumOf TagClass_members x))
  | "enumof_typetag", [x] => do
    let x ← parseInt x
    pure (showRes showInt (enumOf TypeTagNumber_members x))
  | _, _ => some (bad ("unknown op or arity: " ++ op))

def runLine (line : String) : String :=
  match (line.splitOn " ").filter (· ≠ "") with
  | [] => bad "empty line"
  | op :: args =>
    match runCase op args with
    | some r => r
    | none => bad ("argument syntax: " ++ op)

def stripEol (s : String) : String :=
  let s := if s.endsWith "\n" then (s.dropEnd 1).toString else s
  if s.endsWith "\r" then (s.dropEnd 1).toString else s

partial def loop (hin hout : IO.FS.Stream) : IO Unit := do
  let line ← hin.getLine
  if line.isEmpty then
    pure ()
  else
    hout.putStrLn (runLine (stripEol line))
    loop hin hout

end Asn1GenMain

def main : IO Unit := do
  let hin ← IO.getStdin
  let hout ← IO.getStdout
  Asn1GenMain.loop hin hout
  hout.flush
