/-
Differential-test driver for the Lean text generated from `sansldap/_session.py`
(`Verif.Generated.SessionGen`).   Run:  cd lean && lake env lean --run SessionGenMain.lean < cases.txt
The Python side is `harness/p_sessiongen.py` (it writes the cases, runs this once, compares line by line).

One call per line, `<c|s> <op> <args...>`, blank separated.  ints decimal; bytes hex (`-` = empty);
optional values `none` or the value.  `c` = the LDAPClient record, `s` = the LDAPServer record.
  new
  drain <amount?>
  unbind
  c: bind <dn> <pw> | bindsimple <dn?> <pw?> | bindsasl <mech> <dn?> <cred?> | ext <name> <value?>
     | search <base?> <scope> <deref>
  s: bindresp <id> <code> | extresp <id> <name?> <code> | entry <id> <name> | ref <id> <uri> | done <id> <code>
  recv <data hex> <text>
        the octets delivered to `receive`; the generated code does the WHOLE of `receive` (round 12): buffer
        handling, both unpacking loops, processing; `unpack_ldap_message` is the model's `decMsg {} defaultDepth`.
        <text> is `str(e)` (used by the server's notice; only its length shows, in the length of `response`)
One result line per call:
  `<outcome> | <state> | <outstanding sorted> | <searches sorted> | <counter> | <len outgoing> | <len incoming>`
  outcome = `ok int N` | `ok unit` | `ok bytes LEN` | `ok msgs N` | `ldapError` | `keyError` | `valueError`
          | `protocolError req=<0|1> resp=<none|LEN>` | `other`
  `bad <reason>` when the line cannot be parsed.
-/
import Verif.Generated.SessionGen
import Verif.Model.Session

open Verif Verif.PyRtS Verif.SessionGen

namespace SessionGenMain

def hexVal (c : Char) : Option Nat :=
  if '0' ≤ c ∧ c ≤ '9' then some (c.toNat - '0'.toNat)
  else if 'a' ≤ c ∧ c ≤ 'f' then some (c.toNat - 'a'.toNat + 10)
  else if 'A' ≤ c ∧ c ≤ 'F' then some (c.toNat - 'A'.toNat + 10)
  else none

def parseHexAux : List Char → List Nat → Option (List Nat)
  | [], acc => some acc.reverse
  | [_], _ => none
  | a :: b :: rest, acc =>
    match hexVal a, hexVal b with
    | some x, some y => parseHexAux rest ((x * 16 + y) :: acc)
    | _, _ => none

def parseHex (s : String) : Option (List Nat) :=
  if s == "-" then some [] else parseHexAux s.toList []

def parseOpt {α : Type} (p : String → Option α) (s : String) : Option (Option α) :=
  if s == "none" then some none else (p s).map some

def sortInts (l : List Int) : List Int := (l.toArray.qsort (· < ·)).toList

def showExc : Exc → String
  | .ldapError => "ldapError"
  | .keyError => "keyError"
  | .valueError => "valueError"
  | .protocolError req resp =>
    let r := match resp with | none => "none" | some b => toString b.length
    s!"protocolError req={if req.isSome then 1 else 0} resp={r}"
  | _ => "other"

def showSt (st : St) : String :=
  let stt := match st.state with
    | .BEFORE_OPEN => "BEFORE_OPEN" | .BINDING => "BINDING" | .OPENED => "OPENED" | .CLOSED => "CLOSED"
  s!"{stt} | {sortInts st.outstanding_requests} | {sortInts st.search_requests} | {st.message_counter} | {st.outgoing_buffer.length} | {st.incoming_buffer.length}"

def fin {α : Type} (f : α → String) (x : Res St α) : St × String :=
  (x.2, (match x.1 with | .ok a => "ok " ++ f a | .error e => showExc e) ++ " | " ++ showSt x.2)

def showInt (i : Int) : String := s!"int {i}"

def runOp (isClient : Bool) (st : St) (toks : List String) : Option (St × String) :=
  match isClient, toks with
  | true, ["new"] => some (LDAPClient_new, "ok unit | " ++ showSt LDAPClient_new)
  | false, ["new"] => some (LDAPServer_new, "ok unit | " ++ showSt LDAPServer_new)
  | _, ["drain", a] => do
    let a ← parseOpt String.toInt? a
    pure (fin (fun b => s!"bytes {b.length}") (LDAPSession_data_to_send st a))
  | true, ["unbind"] => some (fin (fun _ => "unit") (LDAPClient_LDAPSession_unbind st))
  | false, ["unbind"] => some (fin (fun _ => "unit") (LDAPServer_LDAPSession_unbind st))
  | true, ["bind", dn, pw] => do
    let dn ← parseHex dn; let pw ← parseHex pw
    pure (fin showInt (LDAPClient_bind st dn (.simple pw) none))
  | true, ["bindsimple", dn, pw] => do
    let dn ← parseOpt parseHex dn; let pw ← parseOpt parseHex pw
    pure (fin showInt (LDAPClient_bind_simple st dn pw none))
  | true, ["bindsasl", mech, dn, cred] => do
    let mech ← parseHex mech; let dn ← parseOpt parseHex dn; let cred ← parseOpt parseHex cred
    pure (fin showInt (LDAPClient_bind_sasl st mech dn cred none))
  | true, ["ext", name, value] => do
    let name ← parseHex name; let value ← parseOpt parseHex value
    pure (fin showInt (LDAPClient_extended_request st name value none))
  | true, ["search", base, scope, deref] => do
    let base ← parseOpt parseHex base; let scope ← scope.toInt?; let deref ← deref.toInt?
    pure (fin showInt (LDAPClient_search_request st base scope deref 0 0 false none none none))
  | false, ["bindresp", i, c] => do
    let i ← i.toInt?; let c ← c.toInt?
    pure (fin showInt (LDAPServer_bind_response st i none c none none none))
  | false, ["extresp", i, n, c] => do
    let i ← i.toInt?; let n ← parseOpt parseHex n; let c ← c.toInt?
    pure (fin showInt (LDAPServer_extended_response st i n none c none none none))
  | false, ["entry", i, n] => do
    let i ← i.toInt?; let n ← parseHex n
    pure (fin showInt (LDAPServer_search_result_entry st i n [] none))
  | false, ["ref", i, u] => do
    let i ← i.toInt?; let u ← parseHex u
    pure (fin showInt (LDAPServer_search_result_reference st i [u] none))
  | false, ["done", i, c] => do
    let i ← i.toInt?; let c ← c.toInt?
    pure (fin showInt (LDAPServer_search_result_done st i c none none none))
  | _, ["recv", data, text] => do
    let data ← parseHex data; let text ← parseHex text
    let unpack : List Nat → Except Err (Msg × List Nat) := decMsg {} defaultDepth
    if isClient then pure (fin (fun l => s!"msgs {l.length}") (LDAPClient_receive st data unpack))
    else pure (fin (fun l => s!"msgs {l.length}") (LDAPServer_receive st data unpack text))
  | _, _ => none

partial def loop (h : IO.FS.Stream) (out : IO.FS.Stream) (c s : St) : IO Unit := do
  let line ← h.getLine
  if line.isEmpty then return
  let toks := (line.trimAscii.toString.splitOn " ").filter (· ≠ "")
  match toks with
  | [] => loop h out c s
  | who :: rest =>
    let isClient := who == "c"
    match runOp isClient (if isClient then c else s) rest with
    | none => out.putStrLn "bad line"; loop h out c s
    | some (st', txt) =>
      out.putStrLn txt
      if isClient then loop h out st' s else loop h out c st'

end SessionGenMain

def main : IO Unit := do
  let stdin ← IO.getStdin
  let stdout ← IO.getStdout
  SessionGenMain.loop stdin stdout LDAPClient_new LDAPServer_new
