/-
Line-protocol driver: one JSON request per line on stdin, one JSON reply per line on stdout.
The Python harness sends the same requests to the real implementation and diffs the replies.
-/
import Verif.Driver.Codec
import Verif.Driver.Ops
import Verif.Driver.SchemaOps

open Lean Verif Verif.Driver

structure DState where
  sessions : List (String × Sess) := []

def DState.get (d : DState) (n : String) : Option Sess := (d.sessions.find? (·.1 == n)).map (·.2)
def DState.set (d : DState) (n : String) (s : Sess) : DState :=
  { d with sessions := (n, s) :: d.sessions.filter (·.1 != n) }

def handle (d : DState) (j : Json) : Except String (DState × Json) := do
  let op ← getStr j "op"
  match op with
  | "sess_new" =>
    let name ← getStr j "name"
    let role ← getStr j "role"
    let s := Sess.init (if role == "client" then .client else .server)
    return (d.set name s, Json.mkObj [("ok", sessToJson s)])
  | "sess_del" =>
    let name ← getStr j "name"
    return ({ d with sessions := d.sessions.filter (·.1 != name) }, Json.mkObj [("ok", Json.null)])
  | "call" =>
    let name ← getStr j "name"
    let some s := d.get name | throw s!"no session {name}"
    let c ← callFromJson (← j.getObjVal? "call")
    let (s', o) := match c, (getNat j "depth").toOption with
      | .receive chunk, some dep => recv dep s chunk
      | _, _ => step s c
    return (d.set name s', Json.mkObj [("outcome", outcomeToJson o), ("sess", sessToJson s')])
  | _ =>
    match (← schemaOp op j) with
    | some r => return (d, r)
    | none =>
      let r ← pureOp op j
      return (d, r)

partial def loop (h : IO.FS.Stream) (out : IO.FS.Stream) (d : DState) : IO Unit := do
  let line ← h.getLine
  if line.isEmpty then return ()
  let line := line.trimAscii.toString
  if line.isEmpty then
    loop h out d
  else
    match Json.parse line with
    | .error e =>
      out.putStrLn (Json.mkObj [("driver_error", Json.str s!"parse: {e}")]).compress
      loop h out d
    | .ok j =>
      match handle d j with
      | .ok (d', r) =>
        out.putStrLn r.compress
        loop h out d'
      | .error e =>
        out.putStrLn (Json.mkObj [("driver_error", Json.str e)]).compress
        loop h out d

def main : IO Unit := do
  let stdin ← IO.getStdin
  let stdout ← IO.getStdout
  loop stdin stdout {}
