/-
Runtime for the PRINTER half of `Verif/Generated/FilterGen.lean` (`__str__` of the ten filter
classes and `_serialize_filter_value` of `sansldap/_filter.py`).  Core Lean only.  Same namespace as
`Verif.FilterRt`; see the last section of design_notes/py2lean_filter.md.

A Python `str` is represented by its UTF-8 octets (`List Nat`), as in the parser half; `str(f)` is
therefore the octet list the model's `toText` speaks about.  The text fields of a filter object
(`attribute`, `rule`) are the octets stored in the model's `Filter` (their UTF-8 encoding).
-/
import Verif.FilterRt

namespace Verif.FilterRt

open Verif

/-- `x or d` for `x : Optional[bytes]` / `Optional[str]` and a bytes / str `d`:
    `x` when it is neither `None` nor empty, else `d` -/
def pyOr (o : Option (List Nat)) (d : List Nat) : List Nat :=
  match o with
  | some v => if v ≠ [] then v else d
  | none => d

/-- `sep.join(xs)` for a list of strings (on the octets of the strings) -/
def strJoin (sep : List Nat) : List (List Nat) → List Nat
  | [] => []
  | [x] => x
  | x :: y :: r => x ++ sep ++ strJoin sep (y :: r)

/-- `format(n, "02x")` as octets, for `0 ≤ n < 256` (`ord` of one octet): two lower-case hex digits.
    (For `n ≥ 256` Python writes more digits; the only caller passes a matched octet.) -/
def fmtHex02 (n : Nat) : List Nat := [hexDigitLower (n / 16), hexDigitLower (n % 16)]

/-- `PATTERN.sub(rplcr, value)` on bytes, for a PATTERN that is ONE character class (every match is
    exactly one octet, so the matches are the octets of `value` that lie in the class, left to
    right): each such octet `b` is replaced by `rplcr b` — the callback as a function of
    `ord(matchobj.group(0))` — and every other octet is copied.  `cls` = the octets the class
    matches (`Generated/Facts`, regenerated from CPython). -/
def reSubOctetClass (cls : List Nat) (rplcr : Nat → List Nat) (value : List Nat) : List Nat :=
  (value.map fun b => if cls.contains b then rplcr b else [b]).flatten

/-- `b.decode("utf-8")` (strict) in the representation `str` = its UTF-8 octets: the octets
    themselves.  Python raises `UnicodeDecodeError` on octets that are not valid UTF-8; the only use
    is on the result of `_serialize_filter_value`'s substitution, which is ASCII
    (`Props/TiesFilterStr.lean`, `serialize_filter_value_ascii`). -/
def decodeUtf8 (b : List Nat) : List Nat := b

end Verif.FilterRt
