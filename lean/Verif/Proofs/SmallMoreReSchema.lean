/-
C18 with explicit coefficients, support file.  This is a COPY, made by a script, of the degree
calculus of ReCost.lean / ReCostExtra.lean and of the per-pattern derivations of ReSmall.lean /
ReSchemaBase.lean / ReSchema.lean, with every hidden constant made explicit.  The one change
against the originals: the bound predicates `PB`, `RP`, `Sparse`, `Dead`, `Cheap`, `Skip`,
`SparseN` (and the bundles `Val`, `Grp`, `Tail`, `QItem` built from them) are SUBTYPES
`{ c : Nat // … }` instead of existentials `∃ c, …`; hence every rule whose conclusion is one of
them is a `def` that computes its constant (the proof scripts are those of the originals, verbatim),
and the constant of a finished derivation can be evaluated (`Small.attr_PB.val` reduces to a numeral).
Everything lives in namespace `Verif.Proofs.XC`; the raw, constant-explicit lemmas of ReCost.lean
(`work_cat_munch`, `work_star_chain`, `B_*`, …) are reused from there.  Core Lean only.
-/
import Verif.Proofs.SmallMoreReSchemaBase
import Verif.Generated.Regexes

namespace Verif.Proofs.XC.SchemaRe
open Verif Verif.Re Verif.Proofs.ReCost Verif.Proofs.XC Verif.Proofs.XC.Small

/-! ### the optional groups -/

/-- `(SP NAME SP QDESCRS)?` -/
def gName : Re := optSp (kwCat [78, 65, 77, 69] (.cat sp qdescrs))
/-- `(SP DESC SP QDSTRING)?` -/
def gDesc : Re := optSp (kwCat [68, 69, 83, 67] (.cat sp qdstring))
/-- `(SP OBSOLETE)?` -/
def gObsolete : Re := optSp (kw [79, 66, 83, 79, 76, 69, 84, 69])
/-- `(SP keyword SP OIDS)?` -/
def gOids (k : List Nat) : Re := optSp (kwCat k (.cat sp oids))
/-- `(SP keyword SP OID)?` -/
def gOid (k : List Nat) : Re := optSp (kwCat k (.cat sp oid))
/-- `(SP keyword)?` -/
def gFlag (k : List Nat) : Re := optSp (kw k)

def gName_grp : Grp gName := (qdescrs_val.kwCat 78 _).grp
def gDesc_grp : Grp gDesc := (qdstring_val.kwCat 68 _).grp
def gObsolete_grp : Grp gObsolete := (Val.kw 79 _).grp
def gOids_grp (c : Nat) (cs : List Nat) (hc : inCls cSpace c = false := by decide) : Grp (gOids (c :: cs)) :=
  (oids_val.kwCat c cs hc).grp
def gOid_grp (c : Nat) (cs : List Nat) (hc : inCls cSpace c = false := by decide) : Grp (gOid (c :: cs)) :=
  (oid_val.kwCat c cs hc).grp
def gFlag_grp (c : Nat) (cs : List Nat) (hc : inCls cSpace c = false := by decide) : Grp (gFlag (c :: cs)) :=
  (Val.kw c cs hc).grp

/-! ### DIT_CONTENT_RULE_DESCRIPTION -/

def ditContentRule : Re :=
  schema (.cat gName (.cat gDesc (.cat gObsolete
    (.cat (gOids [65, 85, 88])            -- AUX
    (.cat (gOids [77, 85, 83, 84])        -- MUST
    (.cat (gOids [77, 65, 89])            -- MAY
    (.cat (gOids [78, 79, 84])            -- NOT
    tailEnd)))))))

/-- the generated term is the composition of the named parts -/
theorem dit_eq : Regexes.schema_DIT_CONTENT_RULE_DESCRIPTION = ditContentRule := rfl

def dit_PB : PB ditContentRule 3 :=
  (gName_grp.tail (gDesc_grp.tail (gObsolete_grp.tail ((gOids_grp 65 _).tail ((gOids_grp 77 _).tail
    ((gOids_grp 77 _).tail ((gOids_grp 78 _).tail tailEnd_tail))))))).schema

/-! ### OBJECT_CLASS_DESCRIPTION -/

/-- `ABSTRACT|STRUCTURAL|AUXILIARY` -/
def ocKind : Re :=
  .alt (kw [65, 66, 83, 84, 82, 65, 67, 84])
    (.alt (kw [83, 84, 82, 85, 67, 84, 85, 82, 65, 76]) (kw [65, 85, 88, 73, 76, 73, 65, 82, 89]))

def ocKind_val : Val ocKind := (Val.kw 65 _).alt ((Val.kw 83 _).alt (Val.kw 65 _))

def objectClass : Re :=
  schema (.cat gName (.cat gDesc (.cat gObsolete
    (.cat (gOids [83, 85, 80])            -- SUP
    (.cat (optSp ocKind)
    (.cat (gOids [77, 85, 83, 84])        -- MUST
    (.cat (gOids [77, 65, 89])            -- MAY
    tailEnd)))))))

/-- the generated term is the composition of the named parts -/
theorem oc_eq : Regexes.schema_OBJECT_CLASS_DESCRIPTION = objectClass := rfl

def oc_PB : PB objectClass 3 :=
  (gName_grp.tail (gDesc_grp.tail (gObsolete_grp.tail ((gOids_grp 83 _).tail (ocKind_val.grp.tail
    ((gOids_grp 77 _).tail ((gOids_grp 77 _).tail tailEnd_tail))))))).schema

/-! ### ATTRIBUTE_TYPE_DESCRIPTION -/

theorem key_lbrace : Disj cKey cLbrace := by cls_arith
theorem rbrace_digit : Disj cRbrace cDigit := by cls_arith

/-- `(\{NUMBER\})?` -/
def lenOpt : Re := .alt noidLen .eps
/-- NOIDLEN = `NUMERICOID(\{NUMBER\})?`, as the translator flattens it -/
def noidlen : Re := .cat number (.cat noidDotNumbers lenOpt)

def noidLen_few : Few noidLen :=
  Sparse.cat RP.cls
    (Few.cat_munch (startsIn cRbrace) (number_sparse1.mono rbrace_digit.starts_not).sparse (Fails.cls _)
      Single.cls.few)
def lenOpt_PB : PB lenOpt 1 := PB.alt noidLen_PB PB.eps
def lenOpt_few : Few lenOpt := Few.alt noidLen_few Single.eps.few
def lenOpt_skip : Skip lenOpt (startsIn cLbrace) := Skip.opt noidLen_dead

def noidlenTail_PB : PB (.cat noidDotNumbers lenOpt) 2 :=
  PB.cat_munch (startsIn cLbrace) noidDotNumbers_PB noidDotNumbers_RP noidDotNumbers_sparse lenOpt_skip.cheap
    lenOpt_PB
def noidlenTail_dead : Dead (.cat noidDotNumbers lenOpt) noDigit := Dead.cat noidDotNumbers_dead _
def noidlenTail_sparse : Sparse (.cat noidDotNumbers lenOpt) S :=
  Sparse.cat_munch noKey
    (noidDotNumbers_s1 digit_sub_key.notStartsXC (noKey_starts_false dot_sub_key)).sparse
    ((lenOpt_skip.mono key_lbrace.not_false).pass key_space.not_false)
    (lenOpt_few.sparse _)

def noidlen_val : Val noidlen where
  dead := (Dead.cat number_dead _).mono space_digit.not_false
  pb := PB.cat_munch noDigit number_PB number_RP number_sparse1.sparse (Cheap.of_Dead noidlenTail_dead)
    noidlenTail_PB
  rp := RP.of_PB (PB.cat_munch noDigit number_PB number_RP number_sparse1.sparse (Cheap.of_Dead noidlenTail_dead)
    noidlenTail_PB)
  sparse := Sparse.cat_munch noDigit number_sparse1.sparse (pass_of_Dead noidlenTail_dead _) noidlenTail_sparse

/-- `(SP SYNTAX SP (NOIDLEN|QDSTRING))?` -/
def gSyntax : Re := optSp (kwCat [83, 89, 78, 84, 65, 88] (.cat sp (.alt noidlen qdstring)))

def gSyntax_grp : Grp gSyntax := ((noidlen_val.alt qdstring_val).kwCat 83 _).grp

/-- `userApplications|directoryOperation|distributedOperation|dSAOperation` -/
def atUsage : Re :=
  .alt (kw [117, 115, 101, 114, 65, 112, 112, 108, 105, 99, 97, 116, 105, 111, 110, 115])
    (.alt (kw [100, 105, 114, 101, 99, 116, 111, 114, 121, 79, 112, 101, 114, 97, 116, 105, 111, 110])
      (.alt (kw [100, 105, 115, 116, 114, 105, 98, 117, 116, 101, 100, 79, 112, 101, 114, 97, 116, 105, 111, 110])
        (kw [100, 83, 65, 79, 112, 101, 114, 97, 116, 105, 111, 110])))

def atUsage_val : Val atUsage :=
  (Val.kw 117 _).alt ((Val.kw 100 _).alt ((Val.kw 100 _).alt (Val.kw 100 _)))

/-- `(SP USAGE SP (…))?` -/
def gUsage : Re := optSp (kwCat [85, 83, 65, 71, 69] (.cat sp atUsage))

def gUsage_grp : Grp gUsage := (atUsage_val.kwCat 85 _).grp

def attributeType : Re :=
  schema (.cat gName (.cat gDesc (.cat gObsolete
    (.cat (gOid [83, 85, 80])                                     -- SUP
    (.cat (gOid [69, 81, 85, 65, 76, 73, 84, 89])                 -- EQUALITY
    (.cat (gOid [79, 82, 68, 69, 82, 73, 78, 71])                 -- ORDERING
    (.cat (gOid [83, 85, 66, 83, 84, 82])                         -- SUBSTR
    (.cat gSyntax
    (.cat (gFlag [83, 73, 78, 71, 76, 69, 45, 86, 65, 76, 85, 69])        -- SINGLE-VALUE
    (.cat (gFlag [67, 79, 76, 76, 69, 67, 84, 73, 86, 69])                -- COLLECTIVE
    (.cat (gFlag [78, 79, 45, 85, 83, 69, 82, 45, 77, 79, 68, 73, 70, 73, 67, 65, 84, 73, 79, 78])  -- NO-USER-MODIFICATION
    (.cat gUsage
    tailEnd))))))))))))

/-- the generated term is the composition of the named parts -/
theorem at_eq : Regexes.schema_ATTRIBUTE_TYPE_DESCRIPTION = attributeType := rfl

def at_PB : PB attributeType 3 :=
  (gName_grp.tail (gDesc_grp.tail (gObsolete_grp.tail ((gOid_grp 83 _).tail ((gOid_grp 69 _).tail
    ((gOid_grp 79 _).tail ((gOid_grp 83 _).tail (gSyntax_grp.tail ((gFlag_grp 83 _).tail ((gFlag_grp 67 _).tail
      ((gFlag_grp 78 _).tail (gUsage_grp.tail tailEnd_tail)))))))))))).schema


end Verif.Proofs.XC.SchemaRe
