/-
`receive` as one `step` of the model (abstraction form).
-/
import Verif.Proofs.SessionGenStep

set_option linter.unusedSimpArgs false

namespace Verif.Proofs.SessionGen

open Verif Verif.PyRtS Verif.SessionGen

theorem processLoop_frame : ∀ (ms : List Msg) (s : Sess),
    match processLoop s ms with
    | .ok s2 => s2.role = s.role ∧ s2.regs = s.regs
    | .keyErr s2 => s2.role = s.role ∧ s2.regs = s.regs
    | .protoErr s2 _ _ => s2.role = s.role ∧ s2.regs = s.regs := by
  intro ms
  induction ms with
  | nil => intro s; simp [processLoop]
  | cons m ms ih =>
    intro s
    rw [processLoop]
    by_cases hn : m.op.isNotice = true
    · simp [hn]
    · by_cases hu : m.op.isUnbind = true
      · simp [hn, hu]
      · simp only [hn, hu, if_false]
        cases hr : s.role with
        | client =>
          simp only []
          cases hp : clientProcess s m with
          | none => simp [hr]
          | some p =>
            rcases p with ⟨s1, b⟩
            obtain ⟨f1, f2⟩ := clientProcess_frame hp
            cases b
            · simp only []
              have := ih s1
              rw [f1, f2, hr] at this
              exact this
            · simp [f1, f2, hr]
        | server =>
          simp only []
          cases hp : serverProcess s m with
          | none => simp [hr]
          | some s1 =>
            obtain ⟨f1, f2⟩ := serverProcess_frame hp
            simp only []
            have := ih s1
            rw [f1, f2, hr] at this
            exact this

/-- the outcomes `recv` can have, and what it leaves alone -/
def RecvShape (r : Role) : Outcome → Prop
  | .msgs _ => True
  | .keyError => True
  | .protocolError .none => True
  | .protocolError .unbind => r = .client
  | .protocolError .notice => r = .server
  | _ => False

theorem notificationFor_shape (r : Role) (u n : Bool) : RecvShape r (.protocolError (notificationFor r u n)) := by
  cases r <;> cases u <;> cases n <;> simp [notificationFor, RecvShape]

theorem recv_shape (depth : Nat) (s : Sess) (chunk : Bytes) :
    (recv depth s chunk).1.role = s.role ∧ (recv depth s chunk).1.regs = s.regs
      ∧ RecvShape s.role (recv depth s chunk).2 := by
  unfold recv
  split
  · exact ⟨rfl, rfl, notificationFor_shape _ _ _⟩
  · dsimp only
    cases hpl : parseLoop s.regs depth (s.residue ++ chunk).length (s.residue ++ chunk) with
    | error e => exact ⟨rfl, rfl, notificationFor_shape _ _ _⟩
    | ok p =>
      rcases p with ⟨ms, rest⟩
      dsimp only
      have := processLoop_frame ms { s with residue := rest }
      cases hpr : processLoop { s with residue := rest } ms <;> rw [hpr] at this <;> dsimp only at this ⊢
      · exact ⟨this.1, this.2, trivial⟩
      · exact ⟨this.1, this.2, notificationFor_shape _ _ _⟩
      · exact ⟨this.1, this.2, trivial⟩

theorem absRes_recvRes (r : Role) (regs : Regs) (v : Int) (text : Bytes) (req : Option Msg)
    (p : Sess × Outcome) (hr : p.1.role = r) (hg : p.1.regs = regs) (hs : RecvShape r p.2) :
    absRes r regs .msgs (recvRes v text req p) = p := by
  rcases p with ⟨s, o⟩
  have e := absS_concS' v hr hg
  cases o <;> simp_all [RecvShape, recvRes, absRes, absExc]
  rename_i n
  cases n <;> cases r <;> simp_all [notifBytes, absExc, RecvShape]

theorem client_receive_abs (regs : Regs) (depth : Nat) (st : St) (chunk : Bytes) :
    absRes .client regs .msgs (LDAPClient_receive st chunk (unpackOracle regs depth st.incoming_buffer chunk))
      = recv depth (absS .client regs st) chunk := by
  rw [client_receive_eq]
  obtain ⟨h1, h2, h3⟩ := recv_shape depth (absS .client regs st) chunk
  exact absRes_recvRes _ _ _ _ _ _ h1 h2 h3

theorem server_receive_abs (regs : Regs) (depth : Nat) (st : St) (chunk text : Bytes) :
    absRes .server regs .msgs (LDAPServer_receive st chunk (unpackOracle regs depth st.incoming_buffer chunk) text)
      = recv depth (absS .server regs st) chunk := by
  rw [server_receive_eq]
  obtain ⟨h1, h2, h3⟩ := recv_shape depth (absS .server regs st) chunk
  exact absRes_recvRes _ _ _ _ _ _ h1 h2 h3

end Verif.Proofs.SessionGen
