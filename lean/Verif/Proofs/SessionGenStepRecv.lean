/-
`receive` as one `step` of the model (abstraction form).
-/
import Verif.Proofs.SessionGenStep

set_option linter.unusedSimpArgs false

namespace Verif.Proofs.SessionGen

open Verif Verif.PyRtS Verif.SessionGen

theorem processLoop_frame : ∀ (ms : List Msg) (s : Sess),
    match processLoop s ms with
    | .ok s2 => s2.role = s.role ∧ s2.regs = s.regs
    | .keyErr s2 => s2.role = s.role ∧ s2.regs = s.regs
    | .protoErr s2 _ _ => s2.role = s.role ∧ s2.regs = s.regs := by
  intro ms
  induction ms with
  | nil => intro s; simp [processLoop]
  | cons m ms ih =>
    intro s
    rw [processLoop]
    by_cases hn : m.op.isNotice = true
    · simp [hn]
    · by_cases hu : m.op.isUnbind = true
      · simp [hn, hu]
      · simp only [hn, hu, if_false]
        cases hr : s.role with
        | client =>
          simp only []
          cases hp : clientProcess s m with
          | none => simp [hr]
          | some p =>
            rcases p with ⟨s1, b⟩
            obtain ⟨f1, f2⟩ := clientProcess_frame hp
            cases b
            · simp only []
              have := ih s1
              rw [f1, f2, hr] at this
              exact this
            · simp [f1, f2, hr]
        | server =>
          simp only []
          cases hp : serverProcess s m with
          | none => simp [hr]
          | some s1 =>
            obtain ⟨f1, f2⟩ := serverProcess_frame hp
            simp only []
            have := ih s1
            rw [f1, f2, hr] at this
            exact this

/-- the outcomes `recv` can have, and what it leaves alone -/
def RecvShape (r : Role) : Outcome → Prop
  | .msgs _ => True
  | .keyError => True
  | .protocolError .none => True
  | .protocolError .unbind => r = .client
  | .protocolError .notice => r = .server
  | _ => False

theorem notificationFor_shape (r : Role) (u n : Bool) : RecvShape r (.protocolError (notificationFor r u n)) := by
  cases r <;> cases u <;> cases n <;> simp [notificationFor, RecvShape]

theorem recv_shape (depth : Nat) (s : Sess) (chunk : Bytes) :
    (recv depth s chunk).1.role = s.role ∧ (recv depth s chunk).1.regs = s.regs
      ∧ RecvShape s.role (recv depth s chunk).2 := by
  unfold recv
  split
  · exact ⟨rfl, rfl, notificationFor_shape _ _ _⟩
  · dsimp only
    cases hpl : parseLoop s.regs depth (s.residue ++ chunk).length (s.residue ++ chunk) with
    | error e => exact ⟨rfl, rfl, notificationFor_shape _ _ _⟩
    | ok p =>
      rcases p with ⟨ms, rest⟩
      dsimp only
      have := processLoop_frame ms { s with residue := rest }
      cases hpr : processLoop { s with residue := rest } ms <;> rw [hpr] at this <;> dsimp only at this ⊢
      · exact ⟨this.1, this.2, trivial⟩
      · exact ⟨this.1, this.2, notificationFor_shape _ _ _⟩
      · exact ⟨this.1, this.2, trivial⟩

theorem absRes_recvRes (r : Role) (regs : Regs) (v : Int) (text : Bytes) (req : Option Msg)
    (p : Sess × Outcome) (hr : p.1.role = r) (hg : p.1.regs = regs) (hs : RecvShape r p.2) :
    absRes r regs .msgs (recvRes v text req p) = p := by
  rcases p with ⟨s, o⟩
  have e := absS_concS' v hr hg
  cases o <;> simp_all [RecvShape, recvRes, absRes, absExc]
  rename_i n
  cases n <;> cases r <;> simp_all [notifBytes, absExc, RecvShape]

theorem recvPy_shape (depth : Nat) (s : Sess) (chunk : Bytes) :
    (recvPy depth s chunk).1.role = s.role ∧ (recvPy depth s chunk).1.regs = s.regs
      ∧ RecvShape s.role (recvPy depth s chunk).2 := by
  obtain ⟨h1, h2, h3⟩ := recv_shape depth s chunk
  have hf := recvPy_forget depth s chunk
  have e1 : (recvPy depth s chunk).1.role = (recv depth s chunk).1.role :=
    show (forgetResidue (recvPy depth s chunk)).1.role = (forgetResidue (recv depth s chunk)).1.role by rw [hf]
  have e2 : (recvPy depth s chunk).1.regs = (recv depth s chunk).1.regs :=
    show (forgetResidue (recvPy depth s chunk)).1.regs = (forgetResidue (recv depth s chunk)).1.regs by rw [hf]
  have e3 : (recvPy depth s chunk).2 = (recv depth s chunk).2 :=
    show (forgetResidue (recvPy depth s chunk)).2 = (forgetResidue (recv depth s chunk)).2 by rw [hf]
  exact ⟨e1.trans h1, e2.trans h2, e3 ▸ h3⟩

/-- `LDAPClient.receive` with `unpack_ldap_message := decMsg regs depth`, abstraction form -/
theorem client_receive_abs (regs : Regs) (depth : Nat) (st : St) (chunk : Bytes) :
    absRes .client regs .msgs (LDAPClient_receive st chunk (decMsg regs depth))
      = recvPy depth (absS .client regs st) chunk := by
  rw [client_receive_eq]
  obtain ⟨h1, h2, h3⟩ := recvPy_shape depth (absS .client regs st) chunk
  exact absRes_recvRes _ _ _ _ _ _ h1 h2 h3

theorem server_receive_abs (regs : Regs) (depth : Nat) (st : St) (chunk text : Bytes) :
    absRes .server regs .msgs (LDAPServer_receive st chunk (decMsg regs depth) text)
      = recvPy depth (absS .server regs st) chunk := by
  rw [server_receive_eq]
  obtain ⟨h1, h2, h3⟩ := recvPy_shape depth (absS .server regs st) chunk
  exact absRes_recvRes _ _ _ _ _ _ h1 h2 h3

/-- the hypothesis under which code and model agree on the residue too: the buffer was non-empty before the
    call, or the unpacking does not raise -/
def ResidueAgrees (regs : Regs) (depth : Nat) (st : St) (chunk : Bytes) : Prop :=
  st.incoming_buffer ≠ [] ∨
    ∃ p, parseLoop regs depth (st.incoming_buffer ++ chunk).length (st.incoming_buffer ++ chunk) = .ok p

theorem client_receive_abs_model (regs : Regs) (depth : Nat) (st : St) (chunk : Bytes)
    (h : ResidueAgrees regs depth st chunk) :
    absRes .client regs .msgs (LDAPClient_receive st chunk (decMsg regs depth))
      = recv depth (absS .client regs st) chunk := by
  rw [client_receive_abs]
  exact recvPy_eq_recv depth (absS .client regs st) chunk h

theorem server_receive_abs_model (regs : Regs) (depth : Nat) (st : St) (chunk text : Bytes)
    (h : ResidueAgrees regs depth st chunk) :
    absRes .server regs .msgs (LDAPServer_receive st chunk (decMsg regs depth) text)
      = recv depth (absS .server regs st) chunk := by
  rw [server_receive_abs]
  exact recvPy_eq_recv depth (absS .server regs st) chunk h

/-- without any hypothesis: everything but the residue -/
theorem client_receive_abs_forget (regs : Regs) (depth : Nat) (st : St) (chunk : Bytes) :
    forgetResidue (absRes .client regs .msgs (LDAPClient_receive st chunk (decMsg regs depth)))
      = forgetResidue (recv depth (absS .client regs st) chunk) := by
  rw [client_receive_abs]; exact recvPy_forget _ _ _

theorem server_receive_abs_forget (regs : Regs) (depth : Nat) (st : St) (chunk text : Bytes) :
    forgetResidue (absRes .server regs .msgs (LDAPServer_receive st chunk (decMsg regs depth) text))
      = forgetResidue (recv depth (absS .server regs st) chunk) := by
  rw [server_receive_abs]; exact recvPy_forget _ _ _

end Verif.Proofs.SessionGen
