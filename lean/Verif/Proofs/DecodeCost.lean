/-
C18 (continued): the counting BER filter decoder `DecodeCost.decFilterC` returns what `decFilter`
returns, and makes at most `bs.length / 2 + 1` calls.  Core Lean only.
-/
import Verif.Model.DecodeCost
import Verif.Proofs.BerHeader

namespace Verif.Proofs.DecodeCostP
open Verif Verif.DecodeCost

/-! ### same result -/

theorem loopManyC_fst (decC : Bytes → FR × Nat) (dec1 : Bytes → FR)
    (h : ∀ bs, (decC bs).1 = dec1 bs) :
    ∀ (fuel : Nat) (bs : Bytes) (k : Nat), (loopManyC decC fuel bs k).1 = loopMany dec1 fuel bs := by
  intro fuel
  induction fuel with
  | zero => intro bs k; simp only [loopManyC, loopMany]
  | succ fuel ih =>
    intro bs k
    simp only [loopManyC, loopMany]
    by_cases he : bs.isEmpty = true
    · simp only [he, ↓reduceIte]
    · simp only [he, Bool.false_eq_true, ↓reduceIte, bind, Except.bind]
      have h1 := h bs
      rcases hd : decC bs with ⟨r, n⟩
      rw [hd] at h1
      simp only at h1
      rw [← h1]
      cases r with
      | error e => rfl
      | ok p =>
        obtain ⟨x, r⟩ := p
        simp only
        have h2 := ih r (k + n)
        rcases hl : loopManyC decC fuel r (k + n) with ⟨res, k'⟩
        rw [hl] at h2
        simp only at h2
        rw [← h2]
        cases res <;> rfl

theorem counting_same_result (regs : Regs) (depth : Nat) (bs : Bytes) :
    (DecodeCost.decFilterC regs depth bs).1 = decFilter regs depth bs := by
  induction depth generalizing bs with
  | zero => simp only [decFilterC, decFilter]
  | succ depth ih =>
    have hloop := loopManyC_fst (decFilterC regs depth) (decFilter regs depth) ih
    unfold decFilterC
    cases hh : readHeader bs with
    | error e => simp only [decFilter, hh, bind, Except.bind]
    | ok h =>
      simp only
      by_cases hc : h.tag.cls ≠ 2
      · simp only [decFilter, hh, bind, Except.bind, hc, ne_eq, not_false_eq_true, ↓reduceIte]
      · rw [if_neg hc]
        by_cases h0 : h.tag.num = Facts.filterAnd
        · rw [if_pos h0]
          simp only [decFilter, hh, bind, Except.bind, hc, h0, ↓reduceIte]
          cases readTLV (some (tagCtx Facts.filterAnd true)) bs with
          | error e => rfl
          | ok p =>
            obtain ⟨c, rest⟩ := p
            simp only
            have h2 := hloop c.length c 1
            rcases hl : loopManyC (decFilterC regs depth) c.length c 1 with ⟨res, k'⟩
            rw [hl] at h2
            simp only at h2
            rw [← h2]
            cases res <;> rfl
        · rw [if_neg h0]
          by_cases h1 : h.tag.num = Facts.filterOr
          · rw [if_pos h1]
            have h0' : ¬ Facts.filterOr = Facts.filterAnd := by decide
            simp only [decFilter, hh, bind, Except.bind, hc, h1, h0', ↓reduceIte]
            cases readTLV (some (tagCtx Facts.filterOr true)) bs with
            | error e => rfl
            | ok p =>
              obtain ⟨c, rest⟩ := p
              simp only
              have h2 := hloop c.length c 1
              rcases hl : loopManyC (decFilterC regs depth) c.length c 1 with ⟨res, k'⟩
              rw [hl] at h2
              simp only at h2
              rw [← h2]
              cases res <;> rfl
          · rw [if_neg h1]
            by_cases h2 : h.tag.num = Facts.filterNot
            · rw [if_pos h2]
              have h0' : ¬ Facts.filterNot = Facts.filterAnd := by decide
              have h1' : ¬ Facts.filterNot = Facts.filterOr := by decide
              simp only [decFilter, hh, bind, Except.bind, hc, h2, h0', h1', ↓reduceIte]
              cases readTLV (some (tagCtx Facts.filterNot true)) bs with
              | error e => rfl
              | ok p =>
                obtain ⟨c, rest⟩ := p
                simp only
                have h3 := ih c
                rcases hl : decFilterC regs depth c with ⟨res, k'⟩
                rw [hl] at h3
                simp only at h3
                rw [← h3]
                rcases res with e | ⟨f, r⟩ <;> rfl
            · rw [if_neg h2]

/-! ### a successful decode consumes at least two bytes -/

theorem readText_shorter (e : Option Tag) (bs t rest : Bytes)
    (hr : readText e bs = .ok (t, rest)) : rest.length + 2 ≤ bs.length := by
  unfold readText at hr
  cases h1 : readTLV e bs with
  | error err => rw [h1] at hr; cases hr
  | ok p =>
    obtain ⟨c, r⟩ := p
    rw [h1] at hr
    simp only at hr
    cases h2 : decodeText c with
    | error err => rw [h2] at hr; cases hr
    | ok t' =>
      rw [h2] at hr
      simp only [Except.ok.injEq, Prod.mk.injEq] at hr
      obtain ⟨_, rfl⟩ := hr
      exact (readTLV_shorter e bs c r h1).1

theorem decAva_shorter (n : Nat) (bs : Bytes) (av : Bytes × Bytes) (rest : Bytes)
    (hr : decAva n bs = .ok (av, rest)) : rest.length + 2 ≤ bs.length := by
  simp only [decAva, bind, Except.bind] at hr
  cases h1 : readTLV (some (tagCtx n true)) bs with
  | error err => rw [h1] at hr; cases hr
  | ok p =>
    obtain ⟨c, r⟩ := p
    rw [h1] at hr
    simp only at hr
    have hs := (readTLV_shorter _ bs c r h1).1
    cases h2 : readText (some tOctets) c with
    | error err => rw [h2] at hr; cases hr
    | ok p2 =>
      obtain ⟨a, c1⟩ := p2
      rw [h2] at hr
      simp only at hr
      cases h3 : readOctets (some tOctets) c1 with
      | error err => rw [h3] at hr; cases hr
      | ok p3 =>
        obtain ⟨v, c2⟩ := p3
        rw [h3] at hr
        simp only [pure, Except.pure, Except.ok.injEq, Prod.mk.injEq] at hr
        obtain ⟨_, rfl⟩ := hr
        exact hs

theorem bind_ok {α β : Type} {x : Except Err α} {f : α → Except Err β} {y : β}
    (h : (x >>= f) = .ok y) : ∃ a, x = .ok a ∧ f a = .ok y := by
  cases x with
  | error e => cases h
  | ok a => exact ⟨a, rfl, h⟩

theorem decFilter_shorter (regs : Regs) (d : Nat) (bs : Bytes) (f : Filter) (rest : Bytes)
    (hr : decFilter regs d bs = .ok (f, rest)) : rest.length + 2 ≤ bs.length := by
  cases d with
  | zero => cases hr
  | succ d =>
    unfold decFilter at hr
    obtain ⟨h, hh, hr⟩ := bind_ok hr
    by_cases hc : h.tag.cls ≠ 2
    · rw [if_pos hc] at hr; cases hr
    rw [if_neg hc] at hr
    by_cases h0 : h.tag.num = Facts.filterAnd
    · rw [if_pos h0] at hr
      obtain ⟨⟨c, r⟩, h1, hr⟩ := bind_ok hr
      obtain ⟨fs, h2, hr⟩ := bind_ok hr
      simp only [pure, Except.pure, Except.ok.injEq, Prod.mk.injEq] at hr
      obtain ⟨_, rfl⟩ := hr
      exact (readTLV_shorter _ _ _ _ h1).1
    rw [if_neg h0] at hr
    by_cases h1 : h.tag.num = Facts.filterOr
    · rw [if_pos h1] at hr
      obtain ⟨⟨c, r⟩, h1, hr⟩ := bind_ok hr
      obtain ⟨fs, h2, hr⟩ := bind_ok hr
      simp only [pure, Except.pure, Except.ok.injEq, Prod.mk.injEq] at hr
      obtain ⟨_, rfl⟩ := hr
      exact (readTLV_shorter _ _ _ _ h1).1
    rw [if_neg h1] at hr
    by_cases h2 : h.tag.num = Facts.filterNot
    · rw [if_pos h2] at hr
      obtain ⟨⟨c, r⟩, h1, hr⟩ := bind_ok hr
      obtain ⟨⟨g, r'⟩, h2, hr⟩ := bind_ok hr
      simp only [pure, Except.pure, Except.ok.injEq, Prod.mk.injEq] at hr
      obtain ⟨_, rfl⟩ := hr
      exact (readTLV_shorter _ _ _ _ h1).1
    rw [if_neg h2] at hr
    by_cases h3 : h.tag.num = Facts.filterEq
    · rw [if_pos h3] at hr
      obtain ⟨⟨⟨a, v⟩, r⟩, h1, hr⟩ := bind_ok hr
      simp only [pure, Except.pure, Except.ok.injEq, Prod.mk.injEq] at hr
      obtain ⟨_, rfl⟩ := hr
      exact decAva_shorter _ _ _ _ h1
    rw [if_neg h3] at hr
    by_cases h4 : h.tag.num = Facts.filterSubstr
    · rw [if_pos h4] at hr
      obtain ⟨⟨c, r⟩, h1, hr⟩ := bind_ok hr
      obtain ⟨⟨a, c1⟩, h2, hr⟩ := bind_ok hr
      obtain ⟨⟨sc, r'⟩, h3, hr⟩ := bind_ok hr
      obtain ⟨acc, h4, hr⟩ := bind_ok hr
      simp only [pure, Except.pure, Except.ok.injEq, Prod.mk.injEq] at hr
      obtain ⟨_, rfl⟩ := hr
      exact (readTLV_shorter _ _ _ _ h1).1
    rw [if_neg h4] at hr
    by_cases h5 : h.tag.num = Facts.filterGe
    · rw [if_pos h5] at hr
      obtain ⟨⟨⟨a, v⟩, r⟩, h1, hr⟩ := bind_ok hr
      simp only [pure, Except.pure, Except.ok.injEq, Prod.mk.injEq] at hr
      obtain ⟨_, rfl⟩ := hr
      exact decAva_shorter _ _ _ _ h1
    rw [if_neg h5] at hr
    by_cases h6 : h.tag.num = Facts.filterLe
    · rw [if_pos h6] at hr
      obtain ⟨⟨⟨a, v⟩, r⟩, h1, hr⟩ := bind_ok hr
      simp only [pure, Except.pure, Except.ok.injEq, Prod.mk.injEq] at hr
      obtain ⟨_, rfl⟩ := hr
      exact decAva_shorter _ _ _ _ h1
    rw [if_neg h6] at hr
    by_cases h7 : h.tag.num = Facts.filterPresent
    · rw [if_pos h7] at hr
      obtain ⟨⟨a, r⟩, h1, hr⟩ := bind_ok hr
      simp only [pure, Except.pure, Except.ok.injEq, Prod.mk.injEq] at hr
      obtain ⟨_, rfl⟩ := hr
      exact readText_shorter _ _ _ _ h1
    rw [if_neg h7] at hr
    by_cases h8 : h.tag.num = Facts.filterApprox
    · rw [if_pos h8] at hr
      obtain ⟨⟨⟨a, v⟩, r⟩, h1, hr⟩ := bind_ok hr
      simp only [pure, Except.pure, Except.ok.injEq, Prod.mk.injEq] at hr
      obtain ⟨_, rfl⟩ := hr
      exact decAva_shorter _ _ _ _ h1
    rw [if_neg h8] at hr
    by_cases h9 : h.tag.num = Facts.filterExt
    · rw [if_pos h9] at hr
      obtain ⟨⟨c, r⟩, h1, hr⟩ := bind_ok hr
      obtain ⟨acc, h4, hr⟩ := bind_ok hr
      simp only [pure, Except.pure, Except.ok.injEq, Prod.mk.injEq] at hr
      obtain ⟨_, rfl⟩ := hr
      exact (readTLV_shorter _ _ _ _ h1).1
    rw [if_neg h9] at hr
    by_cases h10 : regs.filter = true ∧ h.tag.num = Facts.customFilterId
    · rw [if_pos h10] at hr
      obtain ⟨⟨a, r⟩, h1, hr⟩ := bind_ok hr
      simp only [pure, Except.pure, Except.ok.injEq, Prod.mk.injEq] at hr
      obtain ⟨_, rfl⟩ := hr
      exact readText_shorter _ _ _ _ h1
    rw [if_neg h10] at hr
    cases hr

/-! ### number of calls

Invariant: a decode of `bs` making `k` calls has `2 * k ≤ bs.length + 2`; if it succeeds leaving
`rest`, then `2 * k + rest.length ≤ bs.length`. -/

def CostOK (decC : Bytes → FR × Nat) : Prop :=
  ∀ bs, 2 * (decC bs).2 ≤ bs.length + 2 ∧
    ∀ x r, (decC bs).1 = .ok (x, r) → 2 * (decC bs).2 + r.length ≤ bs.length

theorem loopManyC_cost (decC : Bytes → FR × Nat) (h : CostOK decC) :
    ∀ (fuel : Nat) (bs : Bytes) (k : Nat),
      2 * (loopManyC decC fuel bs k).2 ≤ 2 * k + bs.length + 2 ∧
      ∀ xs, (loopManyC decC fuel bs k).1 = .ok xs →
        2 * (loopManyC decC fuel bs k).2 ≤ 2 * k + bs.length := by
  intro fuel
  induction fuel with
  | zero =>
    intro bs k
    simp only [loopManyC]
    exact ⟨by omega, fun _ _ => by omega⟩
  | succ fuel ih =>
    intro bs k
    simp only [loopManyC]
    by_cases he : bs.isEmpty = true
    · simp only [he, ↓reduceIte]
      exact ⟨by omega, fun _ _ => by omega⟩
    · simp only [he, Bool.false_eq_true, ↓reduceIte]
      obtain ⟨hb, hok⟩ := h bs
      rcases hd : decC bs with ⟨r, n⟩
      rw [hd] at hb hok
      simp only at hb hok
      cases r with
      | error e =>
        simp only
        exact ⟨by omega, fun _ hx => by cases hx⟩
      | ok p =>
        obtain ⟨x, r⟩ := p
        simp only
        have hxr := hok x r rfl
        obtain ⟨ib, iok⟩ := ih r (k + n)
        rcases hl : loopManyC decC fuel r (k + n) with ⟨res, k'⟩
        rw [hl] at ib iok
        simp only at ib iok
        cases res with
        | error e =>
          simp only
          exact ⟨by omega, fun _ hx => by cases hx⟩
        | ok xs =>
          simp only
          have := iok xs rfl
          exact ⟨by omega, fun _ _ => by omega⟩

theorem decFilterC_cost (regs : Regs) : ∀ depth, CostOK (decFilterC regs depth) := by
  intro depth
  induction depth with
  | zero =>
    intro bs
    simp only [decFilterC]
    exact ⟨by omega, fun _ _ hx => by cases hx⟩
  | succ depth ih =>
    intro bs
    have hloop := loopManyC_cost (decFilterC regs depth) ih
    unfold decFilterC
    cases hh : readHeader bs with
    | error e =>
      simp only
      exact ⟨by omega, fun _ _ hx => by cases hx⟩
    | ok h =>
      simp only
      by_cases hc : h.tag.cls ≠ 2
      · rw [if_pos hc]
        exact ⟨by simp only; omega, fun _ _ hx => by cases hx⟩
      · rw [if_neg hc]
        by_cases h0 : h.tag.num = Facts.filterAnd
        · rw [if_pos h0]
          cases ht : readTLV (some (tagCtx Facts.filterAnd true)) bs with
          | error e =>
            simp only
            exact ⟨by omega, fun _ _ hx => by cases hx⟩
          | ok p =>
            obtain ⟨c, rest⟩ := p
            simp only
            have hs := (readTLV_shorter _ _ _ _ ht).2
            obtain ⟨ib, iok⟩ := hloop c.length c 1
            rcases hl : loopManyC (decFilterC regs depth) c.length c 1 with ⟨res, k'⟩
            rw [hl] at ib iok
            simp only at ib iok
            cases res with
            | error e =>
              simp only
              exact ⟨by omega, fun _ _ hx => by cases hx⟩
            | ok xs =>
              simp only
              have := iok xs rfl
              refine ⟨by omega, fun x r hx => ?_⟩
              simp only [Except.ok.injEq, Prod.mk.injEq] at hx
              obtain ⟨_, rfl⟩ := hx
              omega
        · rw [if_neg h0]
          by_cases h1 : h.tag.num = Facts.filterOr
          · rw [if_pos h1]
            cases ht : readTLV (some (tagCtx Facts.filterOr true)) bs with
            | error e =>
              simp only
              exact ⟨by omega, fun _ _ hx => by cases hx⟩
            | ok p =>
              obtain ⟨c, rest⟩ := p
              simp only
              have hs := (readTLV_shorter _ _ _ _ ht).2
              obtain ⟨ib, iok⟩ := hloop c.length c 1
              rcases hl : loopManyC (decFilterC regs depth) c.length c 1 with ⟨res, k'⟩
              rw [hl] at ib iok
              simp only at ib iok
              cases res with
              | error e =>
                simp only
                exact ⟨by omega, fun _ _ hx => by cases hx⟩
              | ok xs =>
                simp only
                have := iok xs rfl
                refine ⟨by omega, fun x r hx => ?_⟩
                simp only [Except.ok.injEq, Prod.mk.injEq] at hx
                obtain ⟨_, rfl⟩ := hx
                omega
          · rw [if_neg h1]
            by_cases h2 : h.tag.num = Facts.filterNot
            · rw [if_pos h2]
              cases ht : readTLV (some (tagCtx Facts.filterNot true)) bs with
              | error e =>
                simp only
                exact ⟨by omega, fun _ _ hx => by cases hx⟩
              | ok p =>
                obtain ⟨c, rest⟩ := p
                simp only
                have hs := (readTLV_shorter _ _ _ _ ht).2
                obtain ⟨ib, iok⟩ := ih c
                rcases hl : decFilterC regs depth c with ⟨res, n⟩
                rw [hl] at ib iok
                simp only at ib iok
                rcases res with e | ⟨f, r'⟩
                · simp only
                  exact ⟨by omega, fun _ _ hx => by cases hx⟩
                · simp only
                  have := iok f r' rfl
                  refine ⟨by omega, fun x r hx => ?_⟩
                  simp only [Except.ok.injEq, Prod.mk.injEq] at hx
                  obtain ⟨_, rfl⟩ := hx
                  omega
            · rw [if_neg h2]
              simp only
              have hb := readHeader_hlen_bounds bs h hh
              refine ⟨by omega, fun x r hx => ?_⟩
              have := decFilter_shorter _ _ _ _ _ hx
              omega

theorem calls_linear (regs : Regs) (depth : Nat) (bs : Bytes) :
    (DecodeCost.decFilterC regs depth bs).2 ≤ bs.length / 2 + 1 := by
  have := (decFilterC_cost regs depth bs).1
  omega

end Verif.Proofs.DecodeCostP
