/-
Filter text round trip, part 2: `unpackSimple` on the text of each simple filter.
-/
import Verif.Proofs.FilterRoundTripBase
namespace Verif.Proofs
open Verif

/-! ### `unpackSimple` after slicing -/

/-- what `unpackSimple` computes once the header (text before `=`) and the raw value (text up
    to the closing parenthesis) have been located; `len` is the length of the whole slice -/
def simpleRest (hdr raw : Bytes) (off len : Nat) : Except FErr (Filter × Nat) :=
  let eq := hdr.length
  let ft := hdr.getD (eq - 1) 0
  let typed := ft = cColon ∨ ft = cGt ∨ ft = cLt ∨ ft = cTilde
  if typed ∧ eq = 1 then .error (.syntax off len) else
  let attrEnd := if typed then eq - 1 else eq
  let attrib := hdr.take attrEnd
  if ft ≠ cColon ∧ !validAttr attrib then .error (.syntax off attrEnd) else
  let read := eq + 1
  let read' := read + raw.length
  let bad : Except FErr (Filter × Nat) := .error (.syntax (off + read) raw.length)
  if typed ∨ !raw.contains cStar then
    match unescape (raw.length + 1) raw with
    | none => bad
    | some v =>
      if ft = cColon then
        match extHeader attrib with
        | none => .error (.syntax off attrEnd)
        | some (attr, dn, rule) => .ok (.ext rule attr v dn, read')
      else if ft = cGt then .ok (.ge attrib v, read')
      else if ft = cLt then .ok (.le attrib v, read')
      else if ft = cTilde then .ok (.approx attrib v, read')
      else .ok (.eq attrib v, read')
  else if raw = [cStar] then .ok (.present attrib, read')
  else
    match substringsValue raw with
    | none => bad
    | some (i, any, f) => .ok (.substr attrib i any f, read')

theorem unpackSimple_core (hdr raw tail : Bytes) (off : Nat) (h1 : cEq ∉ hdr) (hne : hdr ≠ [])
    (h2 : cRParen ∉ raw) :
    unpackSimple (hdr ++ cEq :: (raw ++ cRParen :: tail)) off =
      simpleRest hdr raw off (hdr ++ cEq :: (raw ++ cRParen :: tail)).length := by
  obtain ⟨n, hn⟩ : ∃ n, hdr.length = n + 1 :=
    ⟨hdr.length - 1, by have := List.length_pos_iff.2 hne; omega⟩
  have e1 := indexOf_append cEq hdr (raw ++ cRParen :: tail) h1
  have e3 : ¬ (n + 1 = (hdr ++ cEq :: (raw ++ cRParen :: tail)).length - 1) := by
    simp only [List.length_append, List.length_cons]; omega
  have e4 : (hdr ++ cEq :: (raw ++ cRParen :: tail)).getD n 0 = hdr.getD n 0 := by
    simp only [List.getD_eq_getElem?_getD]
    rw [List.getElem?_append_left (by omega)]
  have e5 : ∀ k, k ≤ n + 1 → (hdr ++ cEq :: (raw ++ cRParen :: tail)).take k = hdr.take k := by
    intro k hk
    have hk' : k ≤ hdr.length := by omega
    rw [List.take_append_of_le_length hk']
  have e6 : (hdr ++ cEq :: (raw ++ cRParen :: tail)).drop (n + 1 + 1) = raw ++ cRParen :: tail := by
    have hk' : hdr.length + 1 = hdr.length + 1 := rfl
    rw [← hn, List.drop_append]
    simp
  have e7 := indexOf_append cRParen raw tail h2
  have e8 : (raw ++ cRParen :: tail).take raw.length = raw := by simp
  unfold unpackSimple simpleRest
  simp only [e1, hn, e6, e7, e8, Nat.add_sub_cancel, e4]
  rw [if_neg e3]
  by_cases ht : hdr.getD n 0 = cColon ∨ hdr.getD n 0 = cGt ∨ hdr.getD n 0 = cLt ∨ hdr.getD n 0 = cTilde
  · simp only [ht, if_true, e5 n (Nat.le_succ n), true_and, true_or]
    rfl
  · simp only [ht, if_false, e5 (n + 1) (Nat.le_refl _), false_and, false_or]
    rfl

theorem getD_last (a : Bytes) (c : Nat) : (a ++ [c]).getD ((a ++ [c]).length - 1) 0 = c := by
  simp

theorem take_last (a : Bytes) (c : Nat) : (a ++ [c]).take ((a ++ [c]).length - 1) = a := by
  simp

theorem last_attrChar {a : Bytes} (ha : validAttr a = true) : attrChar (a.getD (a.length - 1) 0) := by
  have hne := validAttr_ne_nil ha
  have hpos := List.length_pos_iff.2 hne
  have : a.length - 1 < a.length := by omega
  rw [List.getD_eq_getElem?_getD, List.getElem?_eq_getElem this]
  exact validAttr_chars ha _ (List.getElem_mem this)

theorem simpleRest_ge (a v : Bytes) (off len : Nat) (ha : validAttr a = true) (hb : IsBytes v) :
    simpleRest (a ++ [cGt]) (escapeValue v) off len =
      .ok (.ge a v, (a ++ [cGt]).length + 1 + (escapeValue v).length) := by
  have hne := validAttr_ne_nil ha
  unfold simpleRest
  simp only [getD_last, unescape_len v hb]
  simp [cGt, cColon, cLt, cTilde, hne, ha]

theorem simpleRest_le (a v : Bytes) (off len : Nat) (ha : validAttr a = true) (hb : IsBytes v) :
    simpleRest (a ++ [cLt]) (escapeValue v) off len =
      .ok (.le a v, (a ++ [cLt]).length + 1 + (escapeValue v).length) := by
  have hne := validAttr_ne_nil ha
  unfold simpleRest
  simp only [getD_last, unescape_len v hb]
  simp [cGt, cColon, cLt, cTilde, hne, ha]

theorem simpleRest_approx (a v : Bytes) (off len : Nat) (ha : validAttr a = true) (hb : IsBytes v) :
    simpleRest (a ++ [cTilde]) (escapeValue v) off len =
      .ok (.approx a v, (a ++ [cTilde]).length + 1 + (escapeValue v).length) := by
  have hne := validAttr_ne_nil ha
  unfold simpleRest
  simp only [getD_last, unescape_len v hb]
  simp [cGt, cColon, cLt, cTilde, hne, ha]

theorem simpleRest_ext (h v : Bytes) (off len : Nat) (rule attr : Option Bytes) (dn : Bool) (hne : h ≠ [])
    (hh : extHeader h = some (attr, dn, rule)) (hb : IsBytes v) :
    simpleRest (h ++ [cColon]) (escapeValue v) off len =
      .ok (.ext rule attr v dn, (h ++ [cColon]).length + 1 + (escapeValue v).length) := by
  unfold simpleRest
  simp only [getD_last, unescape_len v hb]
  simp [hne, hh]

theorem not_typed {a : Bytes} (ha : validAttr a = true) :
    ¬ (a.getD (a.length - 1) 0 = cColon ∨ a.getD (a.length - 1) 0 = cGt ∨
      a.getD (a.length - 1) 0 = cLt ∨ a.getD (a.length - 1) 0 = cTilde) := by
  have := attrChar_facts (last_attrChar ha)
  intro h
  rcases h with h | h | h | h
  · exact this.2.2.2.2.2.1 h
  · exact this.2.2.2.2.2.2.2.2.2.2.1 h
  · exact this.2.2.2.2.2.2.2.2.2.1 h
  · exact this.2.2.2.2.2.2.2.2.2.2.2.1 h

theorem simpleRest_eq (a v : Bytes) (off len : Nat) (ha : validAttr a = true) (hb : IsBytes v) :
    simpleRest a (escapeValue v) off len = .ok (.eq a v, a.length + 1 + (escapeValue v).length) := by
  have hnt := not_typed ha
  have hns : (escapeValue v).contains cStar = false := by
    simpa using star_not_mem_escapeValue hb
  unfold simpleRest
  simp only [hnt, false_and, if_false, List.take_length, ha, hns, unescape_len v hb]
  simp only [not_or] at hnt
  rw [if_neg hnt.1, if_neg hnt.2.1, if_neg hnt.2.2.1, if_neg hnt.2.2.2]
  simp

theorem simpleRest_present (a : Bytes) (off len : Nat) (ha : validAttr a = true) :
    simpleRest a [cStar] off len = .ok (.present a, a.length + 1 + 1) := by
  have hnt := not_typed ha
  unfold simpleRest
  simp only [hnt, false_and, if_false, List.take_length, ha]
  simp

theorem simpleRest_substr (a : Bytes) (i : Option Bytes) (any : List Bytes) (f : Option Bytes)
    (off len : Nat) (ha : validAttr a = true)
    (hi : OptComp i) (hany : ∀ x ∈ any, x ≠ [] ∧ IsBytes x) (hf : OptComp f)
    (hsome : i.isSome = true ∨ any ≠ [] ∨ f.isSome = true) :
    simpleRest a (joinWith [cStar] (substrParts i any f)) off len =
      .ok (.substr a i any f, a.length + 1 + (joinWith [cStar] (substrParts i any f)).length) := by
  have hnt := not_typed ha
  have hfacts := substr_raw_facts i any f hi hany hf hsome
  unfold simpleRest
  simp only [hnt, false_and, if_false, List.take_length, ha, hfacts.1, hfacts.2.2.1,
    substringsValue_join i any f hi hany hf]
  simp

/-! ### the simple filters -/

/-- characters of the text before `=` -/
def hdrChar (c : Nat) : Prop := attrChar c ∨ c = cColon ∨ c = cGt ∨ c = cLt ∨ c = cTilde

theorem hdrChar_facts {c : Nat} (h : hdrChar c) :
    32 ≤ c ∧ c < 127 ∧ c ≠ cEq ∧ c ≠ cSpace ∧ c ≠ cRParen ∧ c ≠ cLParen ∧ c ≠ cBang ∧ c ≠ cAmp ∧ c ≠ cPipe := by
  rcases h with h | h | h | h | h
  · have := attrChar_facts h
    refine ⟨by omega, this.2.1, this.2.2.2.2.1, ?_, this.2.2.2.1, this.2.2.1, this.2.2.2.2.2.2.1,
      this.2.2.2.2.2.2.2.1, this.2.2.2.2.2.2.2.2.1⟩
    simp only [cSpace]; omega
  all_goals subst h; decide

/-- `body` is the text of the simple filter `f` without its parentheses -/
structure SimpleText (f : Filter) (body : Bytes) : Prop where
  parse : ∀ tail off, unpackSimple (body ++ cRParen :: tail) off = .ok (f, body.length)
  head : ∃ c rest, body = c :: rest ∧ c ≠ cSpace ∧ c ≠ cRParen ∧ c ≠ cLParen ∧ c ≠ cBang ∧ c ≠ cAmp ∧ c ≠ cPipe
  ascii : ∀ c ∈ body, 32 ≤ c ∧ c < 127

theorem simpleText_mk (f : Filter) (hdr raw : Bytes) (hne : hdr ≠ []) (hchars : ∀ c ∈ hdr, hdrChar c)
    (h2 : cRParen ∉ raw) (hraw : ∀ c ∈ raw, 32 ≤ c ∧ c < 127)
    (hrest : ∀ off len, simpleRest hdr raw off len = .ok (f, hdr.length + 1 + raw.length)) :
    SimpleText f (hdr ++ cEq :: raw) where
  parse tail off := by
    have h1 : cEq ∉ hdr := fun h => (hdrChar_facts (hchars _ h)).2.2.1 rfl
    rw [List.append_assoc, List.cons_append, unpackSimple_core hdr raw tail off h1 hne h2, hrest]
    simp only [List.length_append, List.length_cons]
    rw [Nat.add_assoc, Nat.add_comm 1]
  head := by
    cases hdr with
    | nil => exact absurd rfl hne
    | cons c t =>
      have := hdrChar_facts (hchars c (by simp))
      exact ⟨c, _, rfl, this.2.2.2.1, this.2.2.2.2.1, this.2.2.2.2.2.1, this.2.2.2.2.2.2.1,
        this.2.2.2.2.2.2.2.1, this.2.2.2.2.2.2.2.2⟩
  ascii c hc := by
    rcases List.mem_append.1 hc with h | h
    · exact ⟨(hdrChar_facts (hchars c h)).1, (hdrChar_facts (hchars c h)).2.1⟩
    · rcases List.mem_cons.1 h with rfl | h
      · decide
      · exact hraw c h

theorem hdrChars_attr {a : Bytes} (ha : validAttr a = true) : ∀ c ∈ a, hdrChar c :=
  fun c hc => Or.inl (validAttr_chars ha c hc)

theorem hdrChars_attr_op {a : Bytes} (ha : validAttr a = true) (op : Nat)
    (hop : op = cColon ∨ op = cGt ∨ op = cLt ∨ op = cTilde) : ∀ c ∈ a ++ [op], hdrChar c := by
  intro c hc
  rcases List.mem_append.1 hc with h | h
  · exact hdrChars_attr ha c h
  · simp only [List.mem_singleton] at h; subst h; exact Or.inr hop

theorem escapeValue_ascii {v : Bytes} (hb : IsBytes v) : ∀ c ∈ escapeValue v, 32 ≤ c ∧ c < 127 :=
  fun c hc => ⟨(escapeValue_chars v hb c hc).1, (escapeValue_chars v hb c hc).2.1⟩

theorem simpleText_eq (a v : Bytes) (ha : validAttr a = true) (hb : IsBytes v) :
    SimpleText (.eq a v) (a ++ cEq :: escapeValue v) :=
  simpleText_mk _ a _ (validAttr_ne_nil ha) (hdrChars_attr ha) (rparen_not_mem_escapeValue hb)
    (escapeValue_ascii hb) (fun off len => simpleRest_eq a v off len ha hb)

theorem simpleText_ge (a v : Bytes) (ha : validAttr a = true) (hb : IsBytes v) :
    SimpleText (.ge a v) ((a ++ [cGt]) ++ cEq :: escapeValue v) :=
  simpleText_mk _ _ _ (by simp) (hdrChars_attr_op ha _ (by simp)) (rparen_not_mem_escapeValue hb)
    (escapeValue_ascii hb) (fun off len => simpleRest_ge a v off len ha hb)

theorem simpleText_le (a v : Bytes) (ha : validAttr a = true) (hb : IsBytes v) :
    SimpleText (.le a v) ((a ++ [cLt]) ++ cEq :: escapeValue v) :=
  simpleText_mk _ _ _ (by simp) (hdrChars_attr_op ha _ (by simp)) (rparen_not_mem_escapeValue hb)
    (escapeValue_ascii hb) (fun off len => simpleRest_le a v off len ha hb)

theorem simpleText_approx (a v : Bytes) (ha : validAttr a = true) (hb : IsBytes v) :
    SimpleText (.approx a v) ((a ++ [cTilde]) ++ cEq :: escapeValue v) :=
  simpleText_mk _ _ _ (by simp) (hdrChars_attr_op ha _ (by simp)) (rparen_not_mem_escapeValue hb)
    (escapeValue_ascii hb) (fun off len => simpleRest_approx a v off len ha hb)

theorem simpleText_present (a : Bytes) (ha : validAttr a = true) :
    SimpleText (.present a) (a ++ cEq :: [cStar]) :=
  simpleText_mk _ a _ (validAttr_ne_nil ha) (hdrChars_attr ha) (by decide) (by decide)
    (fun off len => simpleRest_present a off len ha)

theorem simpleText_substr (a : Bytes) (i : Option Bytes) (any : List Bytes) (f : Option Bytes)
    (ha : validAttr a = true) (hi : OptComp i) (hany : ∀ x ∈ any, x ≠ [] ∧ IsBytes x) (hf : OptComp f)
    (hsome : i.isSome = true ∨ any ≠ [] ∨ f.isSome = true) :
    SimpleText (.substr a i any f) (a ++ cEq :: joinWith [cStar] (substrParts i any f)) :=
  have hfacts := substr_raw_facts i any f hi hany hf hsome
  simpleText_mk _ a _ (validAttr_ne_nil ha) (hdrChars_attr ha) hfacts.2.1 hfacts.2.2.2
    (fun off len => simpleRest_substr a i any f off len ha hi hany hf hsome)

theorem extHeader_nil : extHeader [] = some (none, false, none) := by decide

theorem simpleText_ext (rule attr : Option Bytes) (v : Bytes) (dn : Bool) (ha : OptAttr attr)
    (hr : match rule with | none => True | some r => validAttr r = true ∧ (dn = false → isDnWord r = false))
    (hsome : attr.isSome = true ∨ rule.isSome = true ∨ dn = true) (hb : IsBytes v) :
    SimpleText (.ext rule attr v dn)
      ((joinWith [cColon] (extParts rule attr dn) ++ [cColon]) ++ cEq :: escapeValue v) := by
  have hh := extHeader_join rule attr dn ha hr hsome
  have hr' : OptAttr rule := by
    cases rule with
    | none => trivial
    | some r => exact hr.1
  have hne : joinWith [cColon] (extParts rule attr dn) ≠ [] := by
    intro h
    rw [h, extHeader_nil] at hh
    simp only [Option.some.injEq, Prod.mk.injEq] at hh
    obtain ⟨rfl, rfl, rfl⟩ := hh
    simp at hsome
  refine simpleText_mk _ _ _ (by simp) ?_ (rparen_not_mem_escapeValue hb)
    (escapeValue_ascii hb) (fun off len => simpleRest_ext _ v off len rule attr dn hne hh hb)
  intro c hc
  rcases List.mem_append.1 hc with h | h
  · rcases mem_joinWith h with h | ⟨x, hx, hcx⟩
    · simp only [List.mem_singleton] at h; exact Or.inr (Or.inl h)
    · exact Or.inl (extParts_chars rule attr dn ha hr' x hx c hcx)
  · simp only [List.mem_singleton] at h; exact Or.inr (Or.inl h)

/-- the filters that `unpackSimple` produces -/
def IsSimple : Filter → Prop
  | .and _ | .or _ | .not _ | .custom _ => False
  | _ => True

theorem simple_text (f : Filter) (hs : IsSimple f) (hw : f.WFText) :
    ∃ body, toText f = cLParen :: (body ++ [cRParen]) ∧ SimpleText f body := by
  cases f with
  | and fs => exact absurd hs id
  | or fs => exact absurd hs id
  | not f => exact absurd hs id
  | custom v => exact absurd hs id
  | eq a v => exact ⟨_, by simp [toText], simpleText_eq a v hw.1 hw.2⟩
  | ge a v => exact ⟨_, by simp [toText], simpleText_ge a v hw.1 hw.2⟩
  | le a v => exact ⟨_, by simp [toText], simpleText_le a v hw.1 hw.2⟩
  | approx a v => exact ⟨_, by simp [toText], simpleText_approx a v hw.1 hw.2⟩
  | present a => exact ⟨_, by simp [toText], simpleText_present a hw⟩
  | substr a i any f =>
    obtain ⟨ha, hi, hany, hf, hsome⟩ := hw
    exact ⟨_, by simp [toText, substrParts], simpleText_substr a i any f ha hi hany hf hsome⟩
  | ext rule attr v dn =>
    obtain ⟨ha, hr, hsome, hb⟩ := hw
    exact ⟨_, by simp [toText, extParts]; rfl, simpleText_ext rule attr v dn ha hr hsome hb⟩

end Verif.Proofs
